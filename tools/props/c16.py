"""C16 - defer analysis computes exactly the possible defer stacks.

proof     : coq/theories/Properties/C16.v  (model: Model/Defers.v)
tie T-dump: harness/cmd/c16dump (real defers.AnalyzeFunction on real SSA)  ==  extracted model (build/bin/c16model)
spec      : independent executable spec (defer sequences of CFG paths by DP over the SCC condensation) == impl
search T-gt: generated goto-CFG programs executed natively; every (exit, defer sequence) observed must be reported
"""
import os
import re
import shutil
import sys

import vlib

CORPUS_QUICK = ["analysis/defers/testdata/src/defer", "analysis/taint/testdata/defers", "analysis/taint/testdata/stdlib"]
CORPUS_THOROUGH = CORPUS_QUICK + ["analysis/taint/testdata/benchmark", "analysis/taint/testdata/closures",
                                  "analysis/taint/testdata/panics", "analysis/taint/testdata/selects",
                                  "analysis/taint/testdata/example1", "analysis/taint/testdata/agent-example",
                                  "analysis/backtrace/testdata/backtrace"]


# ---------------------------------------------------------------------------------- generator of goto-CFG programs
def gen_function(rnd, idx, nblocks, ndefers):
    """A function made of labelled segments L0..Ln-1; each segment: some statements (defer / noise) and a terminator
    (if c() goto A else goto B | goto A | return | panic).  Returns (source lines, list of defer ids, exits)."""
    lines = ["func f%d(c func() bool) {" % idx]
    segs = []
    targets = set()
    did = [0]
    eid = [0]
    budget = [ndefers]
    for b in range(nblocks):
        body = ["\ttick()"]
        for _ in range(rnd(3)):
            if budget[0] > 0 and rnd(2) == 0:
                budget[0] -= 1
                body.append("\tdefer noop(reg(%d, %d))" % (idx, did[0]))
                did[0] += 1
            else:
                body.append("\tnoise()")
        k = rnd(10)
        if b == nblocks - 1 or k < 2:
            body.append("\tex(%d, %d)" % (idx, eid[0]))
            body.append("\treturn")
            eid[0] += 1
        elif k < 3:
            body.append('\tpanic("p")')
        elif k < 7:
            t1, t2 = rnd(nblocks), rnd(nblocks)
            if t1 == 0:
                t1 = min(nblocks - 1, b + 1)
            if t2 == 0:
                t2 = min(nblocks - 1, b + 1)
            targets.update([t1, t2])
            body.append("\tif c() {\n\t\tgoto L%d\n\t}\n\tgoto L%d" % (t1, t2))
        else:
            t1 = rnd(nblocks) or min(nblocks - 1, b + 1)
            targets.add(t1)
            body.append("\tgoto L%d" % t1)
        segs.append(body)
    for b, body in enumerate(segs):
        if b in targets:
            lines.append("L%d:" % b)
        lines.extend(body)
    lines.append("}")
    return lines


STRUCTURED = [
    # classical shapes written with structured control flow (for / switch / nested if), defers at arbitrary points
    """func s%d_0(c func() bool) {
	defer noop(reg(%d, 0))
	for c() {
		tick()
		if c() {
			ex(%d, 0)
			return
		}
	}
	defer noop(reg(%d, 1))
	ex(%d, 1)
	return
}""",
    """func s%d_0(c func() bool) {
	for c() {
		tick()
		defer noop(reg(%d, 0))
	}
	ex(%d, 0)
	return
}""",
    """func s%d_0(c func() bool) {
	for c() {
		tick()
		defer noop(reg(%d, 0))
		noise()
		defer noop(reg(%d, 1))
	}
	ex(%d, 0)
	return
}""",
    """func s%d_0(c func() bool) {
	for c() {
		tick()
		if c() {
			defer noop(reg(%d, 0))
		} else {
			defer noop(reg(%d, 1))
		}
	}
	defer noop(reg(%d, 2))
	ex(%d, 0)
	return
}""",
    """func s%d_0(c func() bool) {
L:
	tick()
	defer noop(reg(%d, 0))
	if c() {
		defer noop(reg(%d, 1))
		goto L
	}
	if c() {
		defer noop(reg(%d, 2))
		goto L
	}
	ex(%d, 0)
	return
}""",
    """func s%d_0(c func() bool) {
	switch {
	case c():
		defer noop(reg(%d, 0))
	case c():
		defer noop(reg(%d, 1))
		fallthrough
	default:
		defer noop(reg(%d, 2))
	}
	if c() {
		defer noop(reg(%d, 3))
	}
	ex(%d, 0)
	return
}""",
]


def gen_prefix_fork(idx, k, arms, ret_in_arm):
    """k unconditional defers, then an `arms`-way fork where every arm pushes one more defer (optionally returning
    inside the arm), then a join with a final return: exercises value-semantics of the abstract stacks (slices that
    share a backing array would overwrite each other for some prefix lengths)."""
    L = ["func f%d(c func() bool) {" % idx, "\ttick()"]
    d = 0
    for _ in range(k):
        L.append("\tdefer noop(reg(%d, %d))" % (idx, d))
        d += 1
    e = 0
    L.append("\tswitch {")
    for a in range(arms):
        L.append("\tcase c():" if a < arms - 1 else "\tdefault:")
        L.append("\t\tdefer noop(reg(%d, %d))" % (idx, d))
        d += 1
        if ret_in_arm and a == 0:
            L.append("\t\tex(%d, %d)" % (idx, e))
            L.append("\t\treturn")
            e += 1
    L.append("\t}")
    L.append("\tdefer noop(reg(%d, %d))" % (idx, d))
    L.append("\tex(%d, %d)" % (idx, e))
    L.append("\treturn")
    L.append("}")
    return L


PRELUDE = """package main

import (
	"fmt"
	"os"
)

var log []int
var steps int
var bits uint64
var nbits int

type stop struct{}

func reg(f, d int) int { log = append(log, d); return d }
func noop(int)         {}
func noise()           {}
func tick() {
	steps++
	if steps > 40 {
		panic(stop{})
	}
}
func ex(f, e int)      { fmt.Printf("T %d %d %v\\n", f, e, log) }
func cond() bool {
	steps++
	if steps > 40 {
		panic(stop{})
	}
	b := bits&1 == 1
	bits >>= 1
	return b
}
func run(f func(func() bool), n int) {
	for v := uint64(0); v < 1<<uint(n); v++ {
		func() {
			defer func() { recover() }()
			log = nil
			steps = 0
			bits = v
			f(cond)
		}()
	}
}
"""


def gen_program(seed, nfun, maxblocks=6, maxdefers=3):
    rnd = vlib.lcg(seed)
    src = [PRELUDE]
    names = []
    for i in range(nfun):
        nb = 1 + rnd(maxblocks)
        nd = rnd(maxdefers + 1) if rnd(4) else 4 + rnd(5)
        src.append("\n".join(gen_function(rnd, i, nb, nd)))
        names.append("f%d" % i)
    # systematic family: prefix length 0..10 x {2,3} arms x return-in-arm (one per program, rotating with the seed)
    for k in range(0, 11):
        for arms in (2, 3):
            i = len(names)
            src.append("\n".join(gen_prefix_fork(i, k, arms, (k + arms + seed) % 2 == 0)))
            names.append("f%d" % i)
    for j, t in enumerate(STRUCTURED):
        n = 1000 + j
        src.append((t.replace("s%d_0", "g%d" % n)) % tuple([n] * (t.count("%d") - 1)) if False else
                   re.sub(r"s%d_0", "g%d" % n, t).replace("%d", str(n)))
        names.append("g%d" % n)
    src.append("func main() {\n\t_ = os.Args\n" + "".join("\trun(%s, 9)\n" % n for n in names) + "}\n")
    return "\n\n".join(src)


# ---------------------------------------------------------------------------------- dump parsing
def parse_dump(path):
    """-> {fid: dict(name, order, blocks=[(kinds, succs)], R, S={(b,i): sorted tuple of stacks}, P={(b,j): line})}"""
    fns = {}
    cur = None
    for l in open(path):
        l = l.rstrip("\n")
        if not l:
            continue
        t = l[0]
        if t == "F":
            p = l.split()
            cur = {"id": p[1], "name": p[2] if len(p) > 2 else "", "blocks": [], "order": [], "R": None, "S": {}, "P": {},
                   "W": None}
            fns[p[1]] = cur
        elif t == "O":
            cur["order"] = [int(x) for x in l.split()[1:]]
        elif t == "B":
            left, right = l.split("|")
            lp = left.split()
            kinds = lp[2] if len(lp) > 2 else ""
            cur["blocks"].append((kinds, [int(x) for x in right.split()]))
        elif t == "P":
            _, b, j, line = l.split()
            cur["P"][(int(b), int(j))] = int(line)
        elif t == "W":
            cur["W"] = l.split()[1]
        elif t == "R":
            cur["R"] = l.split()[1]
        elif t == "S":
            m = re.match(r"S (\d+) (\d+) : (.*)", l)
            stacks = tuple(sorted(m.group(3).split(";"))) if m.group(3) != "" else ()
            cur["S"][(int(m.group(1)), int(m.group(2)))] = stacks
    return fns


# ---------------------------------------------------------------------------------- independent executable spec
def spec(fn, cap=20000):
    """(bounded, {(b,i): set of stacks}) from the property text: defer sequences along CFG paths entry -> RunDefers;
    unbounded iff a defer lies on a cycle reachable from the entry.  None when too large."""
    blocks = fn["blocks"]
    n = len(blocks)
    sys.setrecursionlimit(100000)
    # reachable
    reach = set()
    st = [0]
    while st:
        b = st.pop()
        if b in reach or b >= n:
            continue
        reach.add(b)
        st.extend(blocks[b][1])
    # Tarjan SCC (iterative)
    index = {}
    low = {}
    onst = set()
    stack = []
    comp = {}
    comps = []
    cnt = [0]
    for root in sorted(reach):
        if root in index:
            continue
        work = [(root, 0)]
        while work:
            v, pi = work[-1]
            if pi == 0:
                index[v] = low[v] = cnt[0]
                cnt[0] += 1
                stack.append(v)
                onst.add(v)
            succ = [s for s in blocks[v][1] if s in reach]
            if pi < len(succ):
                work[-1] = (v, pi + 1)
                w = succ[pi]
                if w not in index:
                    work.append((w, 0))
                elif w in onst:
                    low[v] = min(low[v], index[w])
            else:
                work.pop()
                if work:
                    u = work[-1][0]
                    low[u] = min(low[u], low[v])
                if low[v] == index[v]:
                    c = []
                    while True:
                        w = stack.pop()
                        onst.discard(w)
                        comp[w] = len(comps)
                        c.append(w)
                        if w == v:
                            break
                    comps.append(c)
    cyc = set()
    for c in comps:
        if len(c) > 1 or c[0] in blocks[c[0]][1]:
            cyc.update(c)
    unb = any("D" in blocks[b][0] for b in cyc)
    if unb:
        return False, None
    # DP over the condensation: comps are produced in reverse topological order (sinks first)
    entry = {c: set() for c in range(len(comps))}
    entry[comp[0]].add(())
    res = {}
    total = 0
    for ci in range(len(comps) - 1, -1, -1):
        cur = entry[ci]
        if not cur:
            continue
        for b in comps[ci]:
            outs = cur
            kinds = blocks[b][0]
            if "D" in kinds or "R" in kinds:
                outs = set(cur)
                for j, k in enumerate(kinds):
                    if k == "R":
                        res[(b, j)] = set(outs)
                        outs = {()}
                    elif k == "D":
                        outs = {s + ((b, j),) for s in outs}
            for s in blocks[b][1]:
                if comp[s] != ci:
                    entry[comp[s]] |= outs
                    total += len(outs)
                    if total > cap * 50 or len(entry[comp[s]]) > cap:
                        return True, None
    return True, res


def sstr(s):
    return "e" if not s else ",".join("%d.%d" % x for x in s)


# ---------------------------------------------------------------------------------- the check
def run(chk):
    tier = chk.tier
    failed = chk.prove("theories/Properties/C16.v")
    vlib.build_harness(["c16dump"])
    model = vlib.build_model("c16")
    work = os.path.join(vlib.BUILD, "c16")
    shutil.rmtree(work, ignore_errors=True)
    os.makedirs(work)

    # generated programs
    nprog = 2 if tier == "quick" else 12
    nfun = 60 if tier == "quick" else 150
    gens = []
    for k in range(nprog):
        d = os.path.join(work, "gen%d" % k)
        os.makedirs(d)
        open(os.path.join(d, "go.mod"), "w").write("module gen%d\n\ngo 1.22\n" % k)
        open(os.path.join(d, "main.go"), "w").write(gen_program(chk.seed * 1000 + k, nfun, 6 if k % 2 == 0 else 9, 3 if k % 2 == 0 else 4))
        gens.append(d)
    corpus = [os.path.join(vlib.REPO, p) for p in (CORPUS_QUICK if tier == "quick" else CORPUS_THOROUGH)]
    corpus = [p for p in corpus if os.path.isdir(p)]

    stats = {"functions": 0, "with_defer": 0, "multi_stack": 0, "unbounded": 0, "not_wf": 0, "spec_skipped": 0,
             "native_observations": 0, "native_runs": 0, "model_mismatch": 0, "spec_mismatch": 0}
    distinct = set()
    found_concrete = False
    tie_broken = []

    def handle(dirs, tag, native):
        nonlocal found_concrete
        dump = os.path.join(work, tag + ".dump")
        rc, out = vlib.sh([os.path.join(vlib.BIN, "c16dump"), "-pos", "-o", dump] + dirs, timeout=1800)
        m = re.search(r"NONTERMINATION (\S+) (\S+)", out)
        if rc == 3 and m:
            # the real AnalyzeFunction did not return within the limit on this function: termination half of the property
            found_concrete = True
            d = chk.replay_dir("nonterm:" + m.group(2))
            if os.path.exists(os.path.join(m.group(1), "main.go")) and m.group(1).startswith(vlib.BUILD):
                shutil.copy(os.path.join(m.group(1), "main.go"), d)
            with open(os.path.join(d, "replay.txt"), "w") as f:
                f.write("defers.AnalyzeFunction does not terminate (60 s limit) on function %s of program %s\n"
                        "re-run: build/bin/c16dump -only-defer %s\n(theorem defers_terminates holds of Model/Defers.v: the implementation left the model)\n"
                        % (m.group(2), m.group(1), m.group(1)))
            chk.violation("nontermination:" + m.group(2), "defer analysis does not terminate on %s" % m.group(2), d)
            return
        if rc != 0:
            raise vlib.BuildError("c16dump failed on %s" % tag, out)
        rc, mout, merr = vlib.sh2([model], inp=open(dump).read(), timeout=1200)
        if rc != 0:
            raise vlib.BuildError("c16model failed on %s" % tag, merr)
        mp = os.path.join(work, tag + ".model")
        open(mp, "w").write(mout)
        impl = parse_dump(dump)
        mod = parse_dump(mp)
        for fid, fn in impl.items():
            stats["functions"] += 1
            m = mod.get(fid)
            hasd = any("D" in k for k, _ in fn["blocks"])
            if hasd:
                stats["with_defer"] += 1
                sig = (tuple(fn["blocks"][i][0].replace("_", "").replace("X", "") for i in range(len(fn["blocks"]))),
                       tuple(tuple(s) for _, s in fn["blocks"]))
                if len(fn["blocks"]) >= 2:
                    distinct.add(hash(sig))
            if any(len(v) > 1 for v in fn["S"].values()):
                stats["multi_stack"] += 1
            if fn["R"] == "0":
                stats["unbounded"] += 1
            if hasd and len(chk.cov["samples"]) < 6:
                chk.sample({"function": fn["name"], "blocks": ["%s->%s" % b for b in fn["blocks"]], "bounded": fn["R"],
                            "run_sets": {"%d.%d" % k: list(v) for k, v in fn["S"].items()}})
            if set(fn["order"]) != set(range(len(fn["blocks"]))):
                stats["order_not_covering"] = stats.get("order_not_covering", 0) + 1   # hypothesis `fair` of the theorems
            # (a) executable spec of the property vs impl
            wf = m is not None and m["W"] == "1"
            if not wf:
                stats["not_wf"] += 1
            sp_b, sp_sets = spec(fn) if wf else (None, None)
            if wf:
                if (fn["R"] == "1") != sp_b:
                    stats["spec_mismatch"] += 1
                    found_concrete = True
                    d = chk.replay_dir("bounded:" + fn["name"])
                    write_replay(d, fn, "boundedness: impl=%s spec(defer on a reachable cycle => unbounded)=%s" % (fn["R"], sp_b), dirs)
                    chk.violation("bounded-flag:" + fn["name"], "boundedness verdict differs from the property's spec for %s" % fn["name"], d)
                elif sp_b and sp_sets is None:
                    stats["spec_skipped"] += 1
                elif sp_b:
                    for key, stacks in fn["S"].items():
                        want = tuple(sorted(sstr(s) for s in sp_sets.get(key, set())))
                        if want != stacks:
                            stats["spec_mismatch"] += 1
                            found_concrete = True
                            d = chk.replay_dir("sets:" + fn["name"])
                            write_replay(d, fn, "run-defers set at %s: impl=%s spec=%s" % (key, stacks, want), dirs)
                            chk.violation("stack-sets:" + fn["name"], "defer stacks at exit %s of %s: reported %s, paths give %s" % (key, fn["name"], stacks, want), d)
                            break
                    missing = [k for k in sp_sets if k not in fn["S"]]
                    if missing:
                        stats["spec_mismatch"] += 1
                        found_concrete = True
                        d = chk.replay_dir("missing:" + fn["name"])
                        write_replay(d, fn, "no set reported for reachable RunDefers %s" % missing, dirs)
                        chk.violation("stack-sets-missing:" + fn["name"], "reachable exit without reported set in %s" % fn["name"], d)
            # (b) faithful model vs impl (the tie under the theorems)
            if m is None or m["R"] != fn["R"] or m["S"] != fn["S"]:
                stats["model_mismatch"] += 1
                tie_broken.append((fn, m))
        if native:
            for d in dirs:
                stats["native_runs"] += 1
                rc, out, err = vlib.sh2(["go", "run", "."], cwd=d, timeout=600)
                if rc != 0:
                    raise vlib.BuildError("generated program does not run: %s" % d, err)
                byname = {f["name"].split(".")[-1]: f for f in impl.values() if os.path.basename(d) + "." in f["name"]}
                seen = set()
                for l in out.splitlines():
                    if not l.startswith("T "):
                        continue
                    if l in seen:
                        continue
                    seen.add(l)
                    p = l.split(None, 3)
                    fi, ei = int(p[1]), int(p[2])
                    ds = [int(x) for x in p[3].strip("[]").split()]
                    fn = byname.get(("f%d" % fi) if fi < 1000 else ("g%d" % fi))
                    if fn is None:
                        continue
                    stats["native_observations"] += 1
                    if fn["R"] != "1":
                        continue
                    # map ids to instructions by source line
                    src = open(os.path.join(d, "main.go")).read().split("\n")
                    dline = {}
                    eline = {}
                    for ln, t in enumerate(src, 1):
                        mm = re.search(r"defer noop\(reg\((\d+), (\d+)\)\)", t)
                        if mm and int(mm.group(1)) == fi:
                            dline[int(mm.group(2))] = ln
                        mm = re.search(r"ex\((\d+), (\d+)\)", t)
                        if mm and int(mm.group(1)) == fi:
                            eline[int(mm.group(2))] = ln + 1
                    inv = {v: k for k, v in fn["P"].items()}
                    try:
                        stack = ",".join("%d.%d" % inv[dline[x]] for x in ds) or "e"
                        rb = inv[eline[ei]][0]
                    except KeyError:
                        chk.notes.append("native: could not map ids of %s" % fn["name"])
                        continue
                    keys = [k for k in fn["S"] if k[0] == rb]
                    if not keys and not any("D" in k for k, _ in fn["blocks"]):
                        continue    # no defer statement: the SSA builder emits no RunDefers, nothing is reported
                    stats["native_checked"] = stats.get("native_checked", 0) + 1
                    if not keys or stack not in fn["S"][keys[0]]:
                        found_concrete = True
                        dd = chk.replay_dir("native:" + fn["name"])
                        shutil.copy(os.path.join(d, "main.go"), dd)
                        write_replay(dd, fn, "native execution produced defer stack %s at exit line %d; reported sets %s" % (stack, eline[ei], fn["S"]), [d])
                        chk.violation("native-stack:" + fn["name"], "executed defer sequence %s not reported for %s" % (stack, fn["name"]), dd)

    handle(gens, "gen", native=True)
    handle(corpus, "corpus", native=False)

    if tie_broken and not (found_concrete and chk.has_new_concrete()):
        fn, m = tie_broken[0]
        d = chk.replay_dir("tie")
        write_replay(d, fn, "T-dump tie broken: extracted model Model/Defers.v prints R=%s S=%s; impl R=%s S=%s (%d functions differ); "
                     "theorems of Properties/C16.v no longer cover this code" % (m and m["R"], m and m["S"], fn["R"], fn["S"], len(tie_broken)), [])
        chk.violation("tie-broken", "model/implementation correspondence broken on %d functions, e.g. %s" % (len(tie_broken), fn["name"]), d, no_input=True)
    chk.proof_broken(failed, found_concrete)

    chk.cov["evaluations"] = stats["functions"]
    chk.cov["distinct_nontrivial"] = len(distinct)
    chk.cov["rule"] = ("every function of the corpus programs (incl. the standard library they load) and of seed-generated goto/for/switch "
                       "CFG programs; non-trivial = has >=1 defer and >=2 blocks, distinct = distinct (defer/rundefers skeleton, successor lists)")
    chk.cov["traces_validated_against_impl"] = stats["functions"] - stats["model_mismatch"]
    chk.cov["distribution"] = stats
    chk.assumptions += ["CFG as built by x/tools/go/ssa; wf_cfg (RunDefers block has no successors, no defer after RunDefers) checked on every "
                        "function: %d not wf" % stats["not_wf"],
                        "theorem hypothesis fair/covers_all (DomPreorder lists every block) checked on every function: %d do not satisfy it" % stats.get("order_not_covering", 0),
                        "native ground truth: all 2^9 valuations of the first 9 opaque branch conditions, <=14 conditions per run"]
    return chk.finish()


def write_replay(d, fn, msg, dirs):
    with open(os.path.join(d, "replay.txt"), "w") as f:
        f.write(msg + "\n\nfunction %s\norder %s\n" % (fn["name"], fn["order"]))
        for i, b in enumerate(fn["blocks"]):
            f.write("B %d %s | %s\n" % (i, b[0], " ".join(map(str, b[1]))))
        f.write("impl: bounded=%s sets=%s\nprograms: %s\nre-run: build/bin/c16dump -only-defer <dir> | build/bin/c16model\n" % (fn["R"], fn["S"], dirs))


def replay(chk, path):
    print(open(os.path.join(path, "replay.txt")).read() if os.path.isdir(path) else open(path).read())
    return 0
