"""C10 - user dataflow specifications (dataflow-specs) are applied exactly as written.

proof      : coq/theories/Properties/C10.v  (models: Model/Summ.v loader, Model/Resolve.v callee/contract resolution)
tie T-dump : generated programs + generated dataflow-specs JSON, analysed IN-PROCESS by the real taint analysis
             (harness/cmd/c10taint); the reported (source, sink) set must EQUAL (a) the executable spec = the direct
             reading of the JSON matrix and (b) the prediction of the extracted Coq model (build/bin/c10model).
enumeration: ALL 0/1 Args/Rets matrices (off-diagonal Args bits; the diagonal is unobservable and set at random) for
             <= 3 parameters (receiver included) and <= 2 results; quick = all with <= 2 parameters + a seed-chosen
             sample with 3, thorough = everything; five forms (function contract: static call / function value /
             static method call / interface invoke; interface-method contract: interface invoke, with decoy function
             contracts on the implementations).  Callee bodies do the COMPLEMENT of the spec, so a consulted body shows.
probes     : a static call to a method that implements a contracted interface method (known finding: the result
             depends on which implementation the contract graph was built on).
"""
import json
import os
import shutil
import subprocess
import time

import vlib

FORMS = ["fun-static", "fun-value", "method-static", "invoke-funcontract", "invoke-ifacecontract"]
BATCH = 64


# ------------------------------------------------------------------------------------------------ units
def all_matrices(np_, nres):
    """all (args, rets) with 0/1 entries: args off-diagonal np*(np-1) bits, rets np*nres bits"""
    offd = [(i, k) for i in range(np_) for k in range(np_) if i != k]
    rpos = [(i, j) for i in range(np_) for j in range(nres)]
    for am in range(1 << len(offd)):
        for rm in range(1 << len(rpos)):
            args = [[] for _ in range(np_)]
            rets = [[] for _ in range(np_)]
            for b, (i, k) in enumerate(offd):
                if am >> b & 1:
                    args[i].append(k)
            for b, (i, j) in enumerate(rpos):
                if rm >> b & 1:
                    rets[i].append(j)
            yield args, rets


def make_units(tier, seed):
    rnd = vlib.lcg(seed * 7919 + 17)
    units = []
    space = 0

    def add(form, np_, nres, args, rets, **kw):
        a = [list(r) for r in args]
        for i in range(np_):            # the diagonal is unobservable (the argument is the same SSA value): random
            if rnd(2):
                a[i] = sorted(a[i] + [i])
        u = {"form": form, "np": np_, "nres": nres, "args": a, "rets": [list(r) for r in rets],
             "decoy": form == "invoke-ifacecontract" and rnd(2) == 1}
        u.update(kw)
        units.append(u)

    for form in FORMS:
        minp = 0 if form in ("fun-static", "fun-value") else 1
        for np_ in range(minp, 4):
            for nres in range(0, 3):
                ms = list(all_matrices(np_, nres))
                space += len(ms)
                if np_ <= 2 or tier == "thorough":
                    for a, r in ms:
                        add(form, np_, nres, a, r)
                else:
                    n = max(2, {0: 1, 1: 6, 2: 22}[nres])
                    for _ in range(n):
                        a, r = ms[rnd(len(ms))]
                        add(form, np_, nres, a, r)
    # specs that do not fit the signature: rows beyond the parameters, positions out of range, negative positions.
    # The spec reading ignores what names nothing; nothing may crash.
    for form in FORMS:
        for t in range(3 if tier == "quick" else 12):
            np_ = 1 + rnd(3)
            nres = rnd(3)
            ms = list(all_matrices(np_, nres))
            a, r = ms[rnd(len(ms))]
            a = [list(x) for x in a]
            r = [list(x) for x in r]
            kind = rnd(4)
            if kind == 0:
                a.append([0]); r.append([0])
            elif kind == 1:
                a[rnd(np_)].append(np_); r[rnd(np_)].append(nres)
            elif kind == 2:
                a[rnd(np_)].append(-1); r[rnd(np_)].append(-1)
            else:
                a[rnd(np_)].append(np_ + 3); r.append([]); r.append([1])
            add(form, np_, nres, a, r, oob=True)
    for n, u in enumerate(units):
        u["id"] = n
    return units, space


def in_range_spec(u):
    """executable spec: the direct reading of the JSON entry.  -> set of (i, 'r'|'a', x), self flows excluded"""
    out = set()
    for i, row in enumerate(u["rets"]):
        for j in row:
            if i < u["np"] and 0 <= j < u["nres"]:
                out.add((i, "r", j))
    for i, row in enumerate(u["args"]):
        for k in row:
            if i < u["np"] and 0 <= k < u["np"] and k != i:
                out.add((i, "a", k))
    return out


def complement(u):
    s = in_range_spec(u)
    out = set()
    for i in range(u["np"]):
        for j in range(u["nres"]):
            if (i, "r", j) not in s:
                out.add((i, "r", j))
        for k in range(u["np"]):
            if k != i and (i, "a", k) not in s:
                out.add((i, "a", k))
    return out


# ------------------------------------------------------------------------------------------------ Go generation
def mat(m):
    return "-" if not m else "".join("[%s]" % ",".join(map(str, r)) for r in m)


def body_lines(u, pnames):
    """adversarial body: every flow the spec does NOT list, as data copies (no aliasing between params and results)"""
    comp = complement(u)
    L = []
    n = u["np"]
    if n:
        L.append("\t%s := %s" % (", ".join("v%d" % i for i in range(n)), ", ".join("%s.s" % p for p in pnames)))
        L.append("\t%s = %s" % (", ".join("_" for _ in range(n)), ", ".join("v%d" % i for i in range(n))))
    for k in range(n):
        srcs = [i for i in range(n) if (i, "a", k) in comp]
        if srcs:
            L.append("\t%s.s = \"c\" + %s" % (pnames[k], " + ".join("v%d" % i for i in srcs)))
    rs = []
    for j in range(u["nres"]):
        srcs = [i for i in range(n) if (i, "r", j) in comp]
        rs.append("&T{s: \"c\"%s}" % "".join(" + v%d" % i for i in srcs))
    L.append("\treturn" + (" " + ", ".join(rs) if rs else ""))
    return L


class Prog:
    def __init__(self):
        self.lines = ["package main", "", "type T struct{ s string }", "", "var sel int", "", "func snk(x any) {}", ""]
        self.src_line = {}     # line -> (uid, i)
        self.snk_line = {}     # line -> (uid, i, kind, x)
        self.mains = []
        self.specs = []

    def add(self, *ls):
        for l in ls:
            self.lines.append(l)

    def lineno(self):
        return len(self.lines)

    def unit(self, u):
        uid, n, nres, form = u["id"], u["np"], u["nres"], u["form"]
        method = form != "fun-static" and form != "fun-value"
        res_t = "" if nres == 0 else (" *T" if nres == 1 else " (*T, *T)")
        pn = ["p%d" % i for i in range(n)]
        summ = {"Args": u["args"], "Rets": u["rets"]}
        impls = []
        if not method:
            self.add("func f_%d(%s)%s {" % (uid, ", ".join("%s *T" % p for p in pn), res_t))
            self.add(*body_lines(u, pn))
            self.add("}", "")
            self.specs.append({"ObjectPath": "p1", "Methods": {"f_%d" % uid: summ}})
            if form == "fun-value":
                self.add("var fv_%d = f_%d" % (uid, uid), "")
        else:
            impls = ["R_%d" % uid] + (["Rb_%d" % uid] if form == "invoke-ifacecontract" else [])
            for t in impls:
                self.add("type %s struct{ s string }" % t, "")
                self.add("func (p0 *%s) m(%s)%s {" % (t, ", ".join("%s *T" % p for p in pn[1:]), res_t))
                self.add(*body_lines(u, pn))
                self.add("}", "")
            if form != "method-static":
                self.add("type I_%d interface {" % uid, "\tm(%s)%s" % (", ".join("%s *T" % p for p in pn[1:]), res_t), "}", "")
            if form == "invoke-ifacecontract":
                self.specs.append({"InterfaceId": "p1.I_%d" % uid, "Methods": {"m": summ}})
                if u["decoy"]:
                    # a function contract on one implementation saying the opposite: must be shadowed
                    comp = complement(u)
                    dec = {"Args": [[k for k in range(n) if (i, "a", k) in comp] for i in range(n)],
                           "Rets": [[j for j in range(nres) if (i, "r", j) in comp] for i in range(n)]}
                    self.specs.append({"ObjectPath": "(*p1.R_%d)" % uid, "Methods": {"m": dec}})
            else:
                self.specs.append({"ObjectPath": "(*p1.R_%d)" % uid, "Methods": {"m": summ}})
        # scenarios: one per source position
        for i in range(max(n, 1)):
            if n == 0 and i > 0:
                break
            name = "sc_%d_%d" % (uid, i)
            if n > 0:
                t0 = ("*" + impls[0]) if (method and i == 0) else "*T"
                self.add("func src_%d_%d() %s { return &%s{s: \"tainted\"} }" % (uid, i, t0, t0[1:]), "")
            self.add("func %s() {" % name)
            for k in range(n):
                ty = impls[0] if (method and k == 0) else "T"
                if k == i:
                    self.add("\ta%d := src_%d_%d()" % (k, uid, i))
                    self.src_line[self.lineno()] = (uid, i)
                else:
                    self.add("\ta%d := &%s{s: \"n\"}" % (k, ty))
            recv = "a0"
            if form in ("invoke-funcontract", "invoke-ifacecontract"):
                self.add("\tvar x I_%d = a0" % uid)
                if form == "invoke-ifacecontract":
                    self.add("\tif sel > 0 {", "\t\tx = &Rb_%d{s: \"n\"}" % uid, "\t}")
                recv = "x"
            lhs = "" if nres == 0 else (", ".join("r%d" % j for j in range(nres)) + " := ")
            if not method:
                callee = "f_%d" % uid if form == "fun-static" else "fv_%d" % uid
                self.add("\t%s%s(%s)" % (lhs, callee, ", ".join("a%d" % k for k in range(n))))
            else:
                self.add("\t%s%s.m(%s)" % (lhs, recv, ", ".join("a%d" % k for k in range(1, n))))
            if n > 0:
                for j in range(nres):
                    self.add("\tsnk(r%d)" % j)
                    self.snk_line[self.lineno()] = (uid, i, "r", j)
                for k in range(n):
                    if k != i:
                        self.add("\tsnk(%s)" % (recv if (k == 0 and method) else "a%d" % k))
                        self.snk_line[self.lineno()] = (uid, i, "a", k)
            else:
                for j in range(nres):
                    self.add("\t_ = r%d" % j)
            self.add("}", "")
            self.mains.append(name)

    def finish(self, d):
        self.add("func main() {")
        for m in self.mains:
            self.add("\t%s()" % m)
        self.add("}")
        os.makedirs(d, exist_ok=True)
        open(os.path.join(d, "go.mod"), "w").write("module p1\n\ngo 1.22\n")
        open(os.path.join(d, "main.go"), "w").write("\n".join(self.lines) + "\n")
        json.dump(self.specs, open(os.path.join(d, "specs.json"), "w"), indent=1)
        open(os.path.join(d, "config.yaml"), "w").write(CONFIG)


CONFIG = """options:
  log-level: 1
taint-tracking-problems:
  - sources:
      - package: "p1"
        method: "^src_[0-9_]+$"
    sinks:
      - package: "p1"
        method: "^snk$"
dataflow-specs:
  - "specs.json"
"""


def model_case(u):
    """the world + call site of one unit for build/bin/c10model"""
    n, nres, form = u["np"], u["nres"], u["form"]
    rl = str(nres) if nres > 0 else "-"          # one Return instruction -> one tuple of nres return nodes
    comp = complement(u)
    body = ",".join(("P%d:%d" % (i, x)) if t == "a" else ("R%d:%d" % (i, x)) for (i, t, x) in sorted(comp)) or "-"
    L = ["CASE %d" % u["id"]]
    ik = "0" if form.startswith("invoke") else "-"
    L.append("FN 1 %d %s %s" % (n, rl, ik))
    L.append("BODY 1 %s" % body)
    if form == "invoke-ifacecontract":
        L.append("FN 2 %d %s 0" % (n, rl))
        L.append("BODY 2 %s" % body)
        L.append("IC 0 %d %s %s" % (1 + u["id"] % 2, mat(u["args"]), mat(u["rets"])))
        if u["decoy"]:
            dec_a = [[k for k in range(n) if (i, "a", k) in comp] for i in range(n)]
            dec_r = [[j for j in range(nres) if (i, "r", j) in comp] for i in range(n)]
            L.append("FC 1 %s %s" % (mat(dec_a), mat(dec_r)))
        L.append("Q - 0 1,2 1,2")
    else:
        L.append("FC 1 %s %s" % (mat(u["args"]), mat(u["rets"])))
        L.append({"fun-static": "Q 1 - - -", "method-static": "Q 1 - - -", "fun-value": "Q - - 1 -",
                  "invoke-funcontract": "Q - 0 1 1"}[form])
    L.append("END")
    return "\n".join(L)


def run_model(units):
    exe = os.path.join(vlib.BIN, "c10model")
    rc, out, err = vlib.sh2([exe], inp="\n".join(model_case(u) for u in units) + "\n", timeout=600)
    if rc != 0:
        raise vlib.BuildError("c10model failed", err + out[-2000:])
    pred = {}
    cur = None
    for l in out.splitlines():
        p = l.split()
        if not p:
            continue
        if p[0] == "CASE":
            cur = int(p[1])
            pred[cur] = set()
        elif p[0] == "R":
            pred[cur].add((int(p[1]), "r", int(p[2])))
        elif p[0] == "A" and p[1] != p[2]:          # self flows are unobservable
            pred[cur].add((int(p[1]), "a", int(p[2])))
    return pred


def parse_flows(text):
    """c10taint output -> {dir: (set of (srcline, snkline), [errors])}"""
    res = {}
    cur = None
    for l in text.splitlines():
        if l.startswith("P "):
            cur = l[2:].strip()
            res[cur] = (set(), [])
        elif cur is None:
            continue
        elif l.startswith("FLOW "):
            p = l.split()
            res[cur][0].add((int(p[3]), int(p[4])))
        elif l.startswith(("E ", "FAIL", "PANIC")):
            res[cur][1].append(l)
    return res


def run_taint(dirs, par=4, timeout=1500):
    """runs build/bin/c10taint over the program directories, `par` processes at a time; each process writes its canonical
    output to its own file (a pipe would block the later processes until the earlier ones have been drained)"""
    exe = os.path.join(vlib.BIN, "c10taint")
    chunks = [dirs[i::par] for i in range(par) if dirs[i::par]]
    outdir = os.path.join(vlib.BUILD, "c10", "out")
    os.makedirs(outdir, exist_ok=True)
    procs = []
    for n, c in enumerate(chunks):
        of = os.path.join(outdir, "taint.%d.%d.txt" % (os.getpid(), run_taint.counter))
        run_taint.counter += 1
        procs.append((subprocess.Popen([exe, "-o", of] + c, stdout=subprocess.DEVNULL, stderr=subprocess.DEVNULL, env=vlib.GOENV), of))
    res = {}
    deadline = time.time() + timeout
    for p, of in procs:
        try:
            p.wait(timeout=max(1, deadline - time.time()))
            extra = ""
        except subprocess.TimeoutExpired:
            p.kill()
            p.wait()
            extra = "\nP timeout\nFAIL timeout\n"
        try:
            out = open(of).read()
        except OSError:
            out = ""
        res.update(parse_flows(out + extra))
    return res


run_taint.counter = 0


def observed_of(prog, flows):
    """map reported (source line, sink line) pairs back to units: {uid: set((i, kind, x))}, plus cross-scenario flows"""
    obs = {}
    stray = []
    for (sl, kl) in flows:
        s = prog.src_line.get(sl)
        k = prog.snk_line.get(kl)
        if s is None or k is None or s != (k[0], k[1]):
            stray.append((sl, kl, s, k))
            continue
        obs.setdefault(k[0], set()).add((k[1], k[2], k[3]))
    return obs, stray


def fmt_flows(s):
    return " ".join("%d->%s%d" % (i, t, x) for (i, t, x) in sorted(s)) or "(none)"


# ------------------------------------------------------------------------------------------------ probes
PROBE_IMPL_STATIC = """package main

type T struct{ s string }

func snk(x any) {}

type I interface{ m(p1 *T) *T }

type A struct{ s string }
type B struct{ s string }

// both bodies: p1 -> result.  The interface contract says: nothing flows.
func (p0 *A) m(p1 *T) *T { return &T{s: "c" + p1.s} }
func (p0 *B) m(p1 *T) *T { return &T{s: "c" + p1.s} }

func src_0() *T { return &T{s: "tainted"} }
func src_1() *T { return &T{s: "tainted"} }
func src_2() *T { return &T{s: "tainted"} }

var sel int

func viaInterface() {
	var x I = &A{}
	if sel > 0 {
		x = &B{}
	}
	snk(x.m(src_0()))
}

func staticA() {
	a := &A{}
	snk(a.m(src_1()))
}

func staticB() {
	b := &B{}
	snk(b.m(src_2()))
}

func main() { viaInterface(); staticA(); staticB() }
"""
PROBE_IMPL_SPECS = [{"InterfaceId": "p1.I", "Methods": {"m": {"Args": [[], []], "Rets": [[], []]}}}]


def probe_impl_static(chk, work, stats):
    """A static call to a method implementing a contracted interface method: identical methods A.m and B.m, identical
    calls.  Any consistent reading gives both calls the same verdict."""
    d = os.path.join(work, "probe_impl_static")
    os.makedirs(d, exist_ok=True)
    open(os.path.join(d, "go.mod"), "w").write("module p1\n\ngo 1.22\n")
    open(os.path.join(d, "main.go"), "w").write(PROBE_IMPL_STATIC)
    json.dump(PROBE_IMPL_SPECS, open(os.path.join(d, "specs.json"), "w"), indent=1)
    open(os.path.join(d, "config.yaml"), "w").write(CONFIG)
    src = PROBE_IMPL_STATIC.split("\n")
    line = {name: n + 1 for n, l in enumerate(src) for name in ("src_0()", "src_1()", "src_2()") if "snk(" in l and name in l}
    verdicts = set()
    runs = 2
    for _ in range(runs):
        res = run_taint([d], par=1)
        fl, errs = res.get(d, (set(), ["no output"]))
        if errs:
            chk.notes.append("probe iface-impl-static: %s" % errs[:2])
        srcs = {s for (s, k) in fl}
        verdicts.add((line["src_0()"] in srcs, line["src_1()"] in srcs, line["src_2()"] in srcs))
    stats["probe_impl_static_verdicts"] = sorted(map(str, verdicts))
    bad = [v for v in verdicts if v[1] != v[2]]
    if any(v[0] for v in verdicts):
        rd = chk.replay_dir("iface-invoke-body-consulted")
        shutil.copytree(d, os.path.join(rd, "prog"))
        open(os.path.join(rd, "replay.txt"), "w").write(
            "interface invoke x.m(src_0()) under an interface contract listing no flow reported a flow: the body was consulted\n"
            "re-run: build/bin/c10taint %s/prog\n" % rd)
        chk.violation("iface-invoke-body-consulted", "interface invoke under a contract that lists no flow reports one", rd)
        return True
    if bad:
        rd = chk.replay_dir("iface-impl-static-call")
        shutil.copytree(d, os.path.join(rd, "prog"))
        open(os.path.join(rd, "replay.txt"), "w").write(
            "A.m and B.m are identical methods implementing the contracted interface method p1.I.m (contract: no flow);\n"
            "a.m(src_1()) and b.m(src_2()) are identical static calls.  Observed (viaInterface, staticA, staticB) reports over %d runs: %s\n"
            "-> one static call gets the contract (the method the contract graph was built on, chosen by map iteration order),\n"
            "   the other gets the body.  Model: Properties/C10.v static_impl_call_depends_on_representative.\n"
            "re-run (several times): build/bin/c10taint %s/prog\n" % (runs, sorted(verdicts), rd))
        chk.violation("iface-impl-static-call", "static calls to two identical implementations of a contracted interface "
                      "method get different verdicts (contract for the representative, body for the other); varies from run to run", rd)
        return True
    stats["stale_known_finding"] = stats.get("stale_known_finding", []) + ["iface-impl-static-call"]
    return False


PROBE_STUB = """package main

type T struct{ s string }

func snk(x any) {}

type I interface{ m(p1 *T) *T }

type A struct{ s string }
type Stub struct{ s string }

func (p0 *A) m(p1 *T) *T    { return &T{s: "c"} }
func (p0 *Stub) m(p1 *T) *T { panic("unimplemented") }

func src_0() *T { return &T{s: "tainted"} }

var sel int

func main() {
	var x I = &A{}
	if sel > 0 {
		x = &Stub{}
	}
	snk(x.m(src_0()))
}
"""
PROBE_STUB_SPECS = [{"InterfaceId": "p1.I", "Methods": {"m": {"Args": [[], []], "Rets": [[], [0]]}}}]


def probe_stub(chk, work, stats):
    """Interface contract 'argument 1 -> result 0'; one implementation is a stub that panics (no Return instruction).
    The spec lists the flow, so it must be reported on every run."""
    d = os.path.join(work, "probe_stub")
    os.makedirs(d, exist_ok=True)
    open(os.path.join(d, "go.mod"), "w").write("module p1\n\ngo 1.22\n")
    open(os.path.join(d, "main.go"), "w").write(PROBE_STUB)
    json.dump(PROBE_STUB_SPECS, open(os.path.join(d, "specs.json"), "w"), indent=1)
    open(os.path.join(d, "config.yaml"), "w").write(CONFIG)
    runs = 6
    counts = []
    for _ in range(runs):
        fl, errs = run_taint([d], par=1).get(d, (set(), ["no output"]))
        if errs:
            chk.notes.append("probe stub: %s" % errs[:2])
            continue
        counts.append(len(fl))
    stats["probe_stub_flow_counts"] = counts
    if counts and min(counts) == 0:
        rd = chk.replay_dir("iface-contract-noreturn-representative")
        shutil.copytree(d, os.path.join(rd, "prog"))
        open(os.path.join(rd, "replay.txt"), "w").write(
            "interface contract p1.I.m: Rets[1]=[0] (argument -> result).  Implementations: A (returns) and Stub (panics, no Return).\n"
            "snk(x.m(src_0())) must be reported.  Reported flows over %d runs: %s (0 = lost).\n"
            "The contract graph is built on an arbitrary implementation; on Stub there is no return node and addReturnEdgeByPos\n"
            "drops the edge silently.  Model: Properties/C10.v iface_contract_noreturn_representative.\n"
            "re-run (several times): build/bin/c10taint %s/prog\n" % (runs, counts, rd))
        chk.violation("iface-contract-noreturn-representative", "interface contract lists argument->result but the flow is reported in "
                      "only %d of %d runs: the result edge is dropped when the representative implementation is a panicking stub"
                      % (sum(1 for c in counts if c), len(counts)), rd)
        return True
    if counts:
        stats["stale_known_finding"] = stats.get("stale_known_finding", []) + ["iface-contract-noreturn-representative (not observed in %d runs)" % len(counts)]
    return False


# ------------------------------------------------------------------------------------------------ the check
def run(chk):
    tier = chk.tier
    phase = {}
    t0 = time.time()
    failed = chk.prove("theories/Properties/C10.v")
    phase["prove"] = round(time.time() - t0, 1); t0 = time.time()
    vlib.build_harness(["c10taint"])
    vlib.build_model("c10")
    phase["build_harness_and_model"] = round(time.time() - t0, 1); t0 = time.time()
    work = os.path.join(vlib.BUILD, "c10")
    shutil.rmtree(work, ignore_errors=True)
    os.makedirs(work)

    units, space = make_units(tier, chk.seed)
    byid = {u["id"]: u for u in units}
    pred = run_model(units)
    progs = []
    for b in range(0, len(units), BATCH):
        p = Prog()
        for u in units[b:b + BATCH]:
            p.unit(u)
        d = os.path.join(work, "b%03d" % (b // BATCH))
        p.finish(d)
        progs.append((d, p, units[b:b + BATCH]))
    phase["generate_and_model"] = round(time.time() - t0, 1); t0 = time.time()
    res = run_taint([d for d, _, _ in progs], par=4 if tier == "quick" else 6, timeout=1500 if tier == "quick" else 7200)
    phase["taint_runs"] = round(time.time() - t0, 1); t0 = time.time()

    stats = {"units": len(units), "programs": len(progs), "matrix_space_all_forms": space, "scenarios": 0, "sinks": 0,
             "flows_reported": 0, "spec_mismatch_units": 0, "model_mismatch_units": 0, "stray_flows": 0,
             "by_form": {f: 0 for f in FORMS}, "oob_units": 0, "decoy_units": 0, "analysis_errors": 0}
    distinct = set()
    found_concrete = False
    tie_broken = []
    for d, p, us in progs:
        fl, errs = res.get(d, (set(), ["FAIL no output for this program"]))
        hard = [e for e in errs if e.startswith(("FAIL", "PANIC"))]
        stats["analysis_errors"] += len(errs)
        if hard:
            found_concrete = True
            rd = chk.replay_dir("analysis-failed:" + os.path.basename(d))
            shutil.copytree(d, os.path.join(rd, "prog"))
            open(os.path.join(rd, "replay.txt"), "w").write("taint analysis failed on a generated contract program: %s\n"
                                                            "re-run: build/bin/c10taint %s/prog\n" % (hard[:3], rd))
            chk.violation("analysis-failed", "taint analysis fails/panics on generated dataflow-specs program: %s" % hard[0][:200], rd)
            continue
        obs, stray = observed_of(p, fl)
        stats["flows_reported"] += len(fl)
        stats["stray_flows"] += len(stray)
        if stray:
            found_concrete = True
            rd = chk.replay_dir("cross-scenario-flow")
            shutil.copytree(d, os.path.join(rd, "prog"))
            open(os.path.join(rd, "replay.txt"), "w").write("flows between unrelated scenarios (source line, sink line, ..): %s\n"
                                                            "re-run: build/bin/c10taint %s/prog\n" % (stray[:10], rd))
            chk.violation("cross-scenario-flow", "a flow is reported between independent scenarios (lines %s)" % (stray[0][:2],), rd)
        for u in us:
            stats["by_form"][u["form"]] += 1
            stats["scenarios"] += u["np"]
            stats["sinks"] += u["np"] * (u["nres"] + max(u["np"] - 1, 0))
            stats["oob_units"] += 1 if u.get("oob") else 0
            stats["decoy_units"] += 1 if u.get("decoy") else 0
            o = obs.get(u["id"], set())
            want = in_range_spec(u)
            m = pred.get(u["id"], set())
            if u["np"] > 0 and (want or complement(u)):
                distinct.add((u["form"], u["np"], u["nres"], mat(u["args"]), mat(u["rets"]), u["decoy"]))
            if len(chk.cov["samples"]) < 6 and u["np"] >= 2 and want and u["id"] % 37 == 5:
                chk.sample({"form": u["form"], "nparams": u["np"], "nresults": u["nres"], "Args": u["args"], "Rets": u["rets"],
                            "decoy_function_contract": u["decoy"], "body_flows(adversarial)": fmt_flows(complement(u)),
                            "spec_flows": fmt_flows(want), "model": fmt_flows(m), "reported": fmt_flows(o)})
            if o != want:
                stats["spec_mismatch_units"] += 1
                found_concrete = True
                extra, missing = o - want, want - o
                kind = ("extra-flow" if extra else "missing-flow")
                body = extra and extra <= complement(u)
                key = "%s:%s%s" % (kind, u["form"], ":oob" if u.get("oob") else "")
                rd = chk.replay_dir(key)
                write_unit_replay(rd, u, want, m, o, d)
                chk.violation(key, "%s contract Args=%s Rets=%s (%d params, %d results): spec lists {%s}, reported {%s}%s"
                              % (u["form"], u["args"], u["rets"], u["np"], u["nres"], fmt_flows(want), fmt_flows(o),
                                 " - the extra flows are flows of the BODY" if body else ""), rd)
            if o != m:
                stats["model_mismatch_units"] += 1
                tie_broken.append((u, m, o, d))

    found_concrete = probe_impl_static(chk, work, stats) or found_concrete
    found_concrete = probe_stub(chk, work, stats) or found_concrete
    phase["compare_and_probes"] = round(time.time() - t0, 1)
    stats["phase_seconds"] = phase

    if tie_broken and not (found_concrete and chk.has_new_concrete()):
        u, m, o, d = tie_broken[0]
        rd = chk.replay_dir("tie")
        write_unit_replay(rd, u, in_range_spec(u), m, o, d)
        chk.violation("tie-broken", "extracted model Model/Resolve.v and the implementation disagree on %d units (e.g. %s %s/%s) although "
                      "the implementation agrees with the spec reading" % (len(tie_broken), u["form"], u["args"], u["rets"]), rd, no_input=True)
    chk.proof_broken(failed, found_concrete)

    chk.cov["evaluations"] = stats["sinks"]
    chk.cov["distinct_nontrivial"] = len(distinct)
    chk.cov["rule"] = ("unit = (form, #params incl. receiver <=3, #results <=2, Args/Rets 0/1 matrix); quick: ALL matrices with <=2 params "
                       "for each of the 5 forms + seed-chosen 3-param sample + out-of-range specs, thorough: all %d; each unit = one contracted "
                       "function/method with adversarial body, one scenario per source position, one sink per result and per other "
                       "argument (evaluations = sinks checked for presence/absence of a report); non-trivial = >=1 param and a "
                       "non-empty spec or complement, distinct = distinct (form, arity, results, matrices, decoy)" % space)
    chk.cov["traces_validated_against_impl"] = stats["units"] - stats["model_mismatch_units"]
    chk.cov["exhaustive"] = tier == "thorough"
    chk.cov["distribution"] = stats
    chk.assumptions += ["parameters/results of the generated functions are pointers to a struct with a string field (pointer-like "
                        "targets, data copies in bodies: no aliasing between parameters and results, which the pointer analysis "
                        "would report independently of any contract)",
                        "each generated function has exactly one return statement and <= 2 results (the range the property names)",
                        "the diagonal Args[i] contains i is unobservable (same SSA value) and set at random"]
    return chk.finish()


def write_unit_replay(rd, u, want, m, o, batch_dir):
    """single-unit program reproducing the disagreement + the batch it was found in"""
    p = Prog()
    p.unit(u)
    p.finish(os.path.join(rd, "prog"))
    with open(os.path.join(rd, "replay.txt"), "w") as f:
        f.write("unit: %s\n" % json.dumps(u))
        f.write("spec (direct reading of the JSON): %s\nmodel (c10model):                  %s\nreported by the taint analysis:    %s\n"
                % (fmt_flows(want), fmt_flows(m), fmt_flows(o)))
        f.write("body of the callee does (adversarial): %s\n" % fmt_flows(complement(u)))
        f.write("flows are 'source position -> r<result> / a<argument>'; receiver = position 0\n")
        f.write("model input:\n%s\n" % model_case(u))
        f.write("found in batch program %s; single-unit program in ./prog (main.go, specs.json, config.yaml)\n" % batch_dir)
        f.write("re-run: build/bin/c10taint %s/prog   (prints FLOW <src> <snk> <source line> <sink line>)\n" % rd)


def replay(chk, path):
    t = os.path.join(path, "replay.txt") if os.path.isdir(path) else path
    print(open(t).read())
    pd = os.path.join(path, "prog")
    if os.path.isdir(pd):
        vlib.build_harness(["c10taint"])
        rc, out = vlib.sh([os.path.join(vlib.BIN, "c10taint"), pd], timeout=600)
        print("\n".join(l for l in out.splitlines() if l.startswith(("P ", "FLOW", "E ", "FAIL", "PANIC"))))
    return 0
