"""Shared engine of the C01 / C05 / C06 checks: generated scenario programs (harness/cmd/mugo), native ground truth,
in-process runs of the REAL analysis (harness/cmd/trun), classification and batch shrinking of misses."""
import json
import os
import re
import shutil
import subprocess
import concurrent.futures as cf

import vlib

MUGO = os.path.join(vlib.BIN, "mugo")
TRUN = os.path.join(vlib.BIN, "trun")

# the four sound configurations of C01 (field sensitivity x summarisation mode); rewrites on (the CLI default)
SOUND4 = ["fs=0,od=0", "fs=0,od=1", "fs=1,od=0", "fs=1,od=1"]


def build():
    vlib.build_harness(["mugo", "trun"])


def mugo(out, seed=None, n=50, spec=None, module="p1", stdx=False):
    """generate a program directory; returns its manifest (dict)"""
    shutil.rmtree(out, ignore_errors=True)
    os.makedirs(out)
    cmd = [MUGO, "-out", out, "-module", module]
    if spec is not None:
        sp = os.path.join(out, "spec.json")
        json.dump(spec, open(sp, "w"))
        cmd += ["-spec", sp]
    else:
        cmd += ["-seed", str(seed), "-n", str(n)]
    if stdx:
        cmd += ["-stdx"]
    rc, log = vlib.sh(cmd, timeout=120)
    if rc != 0:
        raise vlib.BuildError("mugo failed", log)
    return json.load(open(os.path.join(out, "manifest.json")))


def catalogue():
    rc, out, err = vlib.sh2([MUGO, "-list"], timeout=60)
    if rc != 0:
        raise vlib.BuildError("mugo -list failed", err)
    return json.loads(out)


def native(d, timeout=600):
    """go build + run the generated program under all valuations of its opaque conditions.
    Returns (hits: set of (sink id, marker id), panics: set of scenario ids)"""
    exe = os.path.join(d, "prog.bin")
    rc, log = vlib.sh(["go", "build", "-o", exe, "."], cwd=d, timeout=timeout)
    if rc != 0:
        raise vlib.BuildError("generated program does not compile: %s" % d, log)
    rc, out, err = vlib.sh2([exe], cwd=d, timeout=timeout)
    try:
        os.remove(exe)
    except OSError:
        pass
    if rc != 0:
        raise vlib.BuildError("generated program failed natively: %s" % d, err[-3000:])
    hits, panics = set(), set()
    for l in out.splitlines():
        p = l.split()
        if len(p) == 3 and p[0] == "HIT":
            hits.add((int(p[1]), int(p[2])))
        elif len(p) >= 2 and p[0] == "PANIC":
            panics.add(int(p[1]))
    return hits, panics


def trun(d, specs, timeout=180, cpus=None, config=None, patterns=None, reload=False, total_timeout=None, retry=True):
    """run the real analysis in-process under each spec; returns the parsed JSON (dict with 'runs')"""
    cmd = [TRUN, "-dir", d, "-timeout", str(timeout)]
    if cpus:
        cmd += ["-cpus", str(cpus)]
    if config:
        cmd += ["-config", config]
    if patterns:
        cmd += ["-patterns", patterns]
    if reload:
        cmd += ["-reload"]
    cmd += list(specs)
    nruns = sum(int((re.search(r"(?:^|,)n=(\d+)", s) or [0, 1])[1]) for s in specs)
    tt = total_timeout or (timeout * (nruns + 2) * 4 + 1800)
    rc, out, err = vlib.sh2(cmd, timeout=tt)
    try:
        res = json.loads(out)
    except ValueError:
        return {"dir": d, "runs": [], "fatal": "trun rc=%s: %s" % (rc, (err or out)[-2000:])}
    if retry and any(r.get("timeout") or r.get("skipped") for r in res.get("runs", [])):
        # a timeout leaves a runaway goroutine behind and skips the remaining specs: re-run each affected spec alone in a
        # fresh process with a tripled limit before believing it
        redo = []
        for r in res["runs"]:
            if (r.get("timeout") or r.get("skipped")) and r["spec"] not in redo:
                redo.append(r["spec"])
        fresh = {}
        for s in redo:
            r2 = trun(d, [s], timeout=timeout * 3, cpus=cpus, config=config, patterns=patterns, reload=reload, retry=False)
            fresh[s] = r2.get("runs", [])
        runs = [r for r in res["runs"] if r["spec"] not in redo]
        for s in redo:
            runs += fresh[s]
        res["runs"] = runs
    return res


def trun_many(jobs, workers=None):
    """jobs: list of (key, kwargs for trun) run concurrently in separate processes; returns {key: result}"""
    workers = workers or max(1, min(len(jobs), (vlib.NCPU or 4) // 4))
    res = {}
    with cf.ThreadPoolExecutor(max_workers=workers) as ex:
        futs = {ex.submit(trun, **kw): key for key, kw in jobs}
        for f in cf.as_completed(futs):
            res[futs[f]] = f.result()
    return res


def pairs_of(run):
    """canonical set of (source position, sink position)"""
    return set((p[0], p[1]) for p in run.get("pairs", []))


def reported_ids(run):
    """scenario ids i with a reported pair (source<i> call, sink<i> call), by callee name"""
    ids = set()
    for p in run.get("pairs", []):
        a = re.match(r"^source(\d+)$", p[2])
        b = re.match(r"^sink(\d+)$", p[3])
        if a and b and a.group(1) == b.group(1):
            ids.add(int(a.group(1)))
    return ids


def reported_pairs(run):
    """set of (source id, sink id) of the reported pairs whose callees are source<j> / sink<i>"""
    out = set()
    for p in run.get("pairs", []):
        a = re.match(r"^source(\d+)$", p[2])
        b = re.match(r"^sink(\d+)$", p[3])
        if a and b:
            out.add((int(a.group(1)), int(b.group(1))))
    return out


def expected_pairs(i, hits):
    """(source id, sink id) pairs that native execution demands for scenario i: its own source and, when the scenario has a
    second source (id 5000+i, atoms 2src-*), that one too - each only if its marker was observed at sink<i>"""
    return set((j, i) for j in (i, 5000 + i) if (i, j) in hits)


def scen_reported(i, hits, run):
    """every natively observed (source, sink<i>) pair of scenario i is reported in this run"""
    return expected_pairs(i, hits) <= reported_pairs(run)


def run_ok(run):
    return not (run.get("timeout") or run.get("panic") or run.get("skipped") or run.get("load_error"))


def atom_keys(sc):
    return [a.get("key") or (a["kind"] + ":" + a["variant"]) for a in sc["atoms"]]


def scen_label(sc):
    return "src=%s atoms=[%s] wrap=%s" % (sc.get("src", "direct"), " ".join(a["kind"] + ":" + a["variant"] for a in sc["atoms"]),
                                         sc.get("wrap", "direct"))


def strip_scen(sc, new_id=None, atoms=None, src=None, wrap=None):
    """scenario spec for mugo -spec (drops derived fields)"""
    return {"id": new_id if new_id is not None else sc["id"], "src": src if src is not None else sc.get("src", "direct"),
            "wrap": wrap if wrap is not None else sc.get("wrap", "direct"),
            "atoms": [{"kind": a["kind"], "variant": a["variant"], "c": a.get("c", 0), "d": a.get("d", 1)}
                      for a in (atoms if atoms is not None else sc["atoms"])]}


def missed(manifest, hits, runs_by_spec):
    """scenarios whose flow was observed natively but is not reported in at least one (completed) configuration.
    Returns list of (scenario, [specs that miss it])"""
    out = []
    for sc in manifest["scenarios"]:
        i = sc["id"]
        if (i, i) not in hits:
            continue
        bad = [s for s, r in runs_by_spec.items() if run_ok(r) and not scen_reported(i, hits, r)]
        if bad:
            out.append((sc, bad))
    return out


def cfg_class(bad_specs, all_specs):
    """'' when every configuration misses the flow, otherwise the class of configurations that do (stable names)"""
    if set(bad_specs) >= set(all_specs):
        return ""
    od = set("od=1" in s for s in bad_specs)
    fs = set("fs=1" in s for s in bad_specs)
    parts = []
    if od == {True}:
        parts.append("od")
    if fs == {True}:
        parts.append("fs")
    if od == {False}:
        parts.append("eager")
    if fs == {False}:
        parts.append("nofs")
    return ("+".join(parts) + "-only") if parts else "some-configs"


_TAGS = None


def atom_tags(kind, variant):
    global _TAGS
    if _TAGS is None:
        _TAGS = {(a["Kind"], a["Variant"]): set(a.get("Tags") or []) for a in catalogue()["atoms"]}
    return _TAGS.get((kind, variant), set())


def closure_result_family(minimal):
    """structural test on a MINIMISED scenario: some atom whose output is a value returned by a closure / bound-method call
    (tag returns-from-closure-call) is followed - at the same or a later position - by an atom that stores into / reads from
    closure state created in another function (tag closure-state-consumer), and the minimal chain consists of nothing but
    such atoms (an unrelated third component means the miss is not this family)"""
    atoms = minimal.get("atoms", [])
    if len(atoms) < 2 or minimal.get("src", "direct") != "direct" or minimal.get("wrap", "direct") != "direct":
        return False
    tags = [atom_tags(a["kind"], a["variant"]) for a in atoms]
    if not all(t for t in tags):
        return False
    for i, t in enumerate(tags):
        if "returns-from-closure-call" in t and any("closure-state-consumer" in u for u in tags[i + 1:]):
            return True
    return False


def miss_key(min_key, bad_specs, all_specs, minimal=None):
    """finding key of a minimised miss: [<config class>[-combo]:]<atom keys joined by +>.  Misses that need a combination of
    atoms AND occur only in one configuration class get the -combo infix (field-sensitive mode has an open-ended family
    of those, listed under one wildcard)."""
    c = cfg_class(bad_specs, all_specs)
    if minimal is not None and closure_result_family(minimal):
        return "closure-result-into-closure-state:%s:%s" % (c or "all-configs", min_key)
    if not c:
        return min_key
    return c + ("-combo:" if "+" in min_key else ":") + min_key


def shrink(work, misses, specs, timeout=240, max_rounds=7, module="p1"):
    """Batch delta-debugging.  misses: list of (scenario, bad_specs).  For every missed scenario find a minimal sub-chain
    (src, atoms, wrap) that is still missed (natively observed, not reported in one of the scenario's bad configurations).
    Every round generates ONE program holding all candidate reductions of all open scenarios and runs the tool once per
    needed configuration.  Returns list of dicts {scenario, bad, minimal (scenario spec), key, dir}."""
    state = []
    for m in misses:
        sc, bad = m[0], m[1]
        # optional third component: configurations under which a candidate must still be REPORTED (differential misses)
        state.append({"orig": sc, "bad": bad, "cur": strip_scen(sc), "done": False, "require": list(m[2]) if len(m) > 2 else []})
    rnd = 0
    while rnd < max_rounds and any(not s["done"] for s in state):
        rnd += 1
        cands = []   # (state index, candidate scenario)
        for k, st in enumerate(state):
            if st["done"]:
                continue
            cur = st["cur"]
            cs = []
            if rnd == 1:
                # every atom alone (with plain source/sink) and the plain chain / plain source / plain wrap
                for a in cur["atoms"]:
                    cs.append(strip_scen(cur, atoms=[a], src="direct", wrap="direct"))
                if cur["wrap"] != "direct" or cur["src"] != "direct":
                    cs.append(strip_scen(cur, atoms=[{"kind": "copy", "variant": "plain"}]))
                    cs.append(strip_scen(cur, src="direct", wrap="direct"))
            elif len(cur["atoms"]) == 1 and (cur["atoms"][0]["kind"], cur["atoms"][0]["variant"]) != ("copy", "plain") and \
                    (cur["wrap"] != "direct" or cur["src"] != "direct"):
                # the last atom may be irrelevant next to a failing source shape / sink wrap: try the neutral atom
                cs.append(strip_scen(cur, atoms=[{"kind": "copy", "variant": "plain"}]))
            # ... and, in every round, the current chain with one component removed
            if cur["src"] != "direct":
                cs.append(strip_scen(cur, src="direct"))
            if cur["wrap"] != "direct":
                cs.append(strip_scen(cur, wrap="direct"))
            if len(cur["atoms"]) > 1:
                for j in range(len(cur["atoms"])):
                    cs.append(strip_scen(cur, atoms=cur["atoms"][:j] + cur["atoms"][j + 1:]))
            if not cs:
                st["done"] = True
                continue
            for c in cs:
                cands.append((k, c))
        if not cands:
            break
        # dedupe identical candidates
        uniq = {}
        for k, c in cands:
            sig = json.dumps([c["src"], c["wrap"], [(a["kind"], a["variant"], a["c"], a["d"]) for a in c["atoms"]]])
            uniq.setdefault(sig, {"c": c, "owners": []})["owners"].append(k)
        spec = []
        for n, (sig, u) in enumerate(sorted(uniq.items())):
            u["id"] = n + 1
            spec.append(strip_scen(u["c"], new_id=n + 1))
        d = os.path.join(work, "shrink%d" % rnd)
        man = mugo(d, spec=spec, module=module)
        hits, _ = native(d)
        need = sorted(set(s for st in state if not st["done"] for s in st["bad"] + st["require"]))
        res = trun(d, need, timeout=timeout)
        runs = {r["spec"]: r for r in res.get("runs", [])}
        byid = {sc["id"]: sc for sc in man["scenarios"]}
        progressed = set()
        for sig, u in sorted(uniq.items(), key=lambda kv: (len(kv[1]["c"]["atoms"]), kv[0])):
            i = u["id"]
            if (i, i) not in hits:
                continue
            for k in u["owners"]:
                st = state[k]
                if st["done"] or k in progressed:
                    continue
                if any(s in runs and run_ok(runs[s]) and not scen_reported(i, hits, runs[s]) for s in st["bad"]) and \
                        all(s in runs and run_ok(runs[s]) and scen_reported(i, hits, runs[s]) for s in st["require"]):
                    st["cur"] = strip_scen(byid[i], new_id=st["orig"]["id"])
                    st["cur_keys"] = atom_keys(byid[i])
                    progressed.add(k)
                    if len(st["cur"]["atoms"]) == 1 and st["cur"]["src"] == "direct" and st["cur"]["wrap"] == "direct":
                        st["done"] = True
        for k, st in enumerate(state):
            if not st["done"] and k not in progressed:
                st["done"] = True     # no smaller candidate still fails: current is 1-minimal
    out = []
    for st in state:
        cur = st["cur"]
        keys = st.get("cur_keys") or atom_keys(st["orig"])
        parts = []
        if cur["src"] != "direct":
            parts.append("src:" + cur["src"])
        parts += keys
        if cur["wrap"] != "direct":
            parts.append("wrap:" + cur["wrap"])
        # a chain of only the neutral copy atom stands for "src/wrap alone"
        parts = [p for p in parts if p != "copy:plain"] or ["copy:plain"]
        out.append({"scenario": st["orig"], "bad": st["bad"], "minimal": cur, "key": "+".join(parts)})
    return out


def write_program_replay(d, minimal, bad_specs, what, module="p1"):
    """fill replay dir d with the minimised single-scenario program and instructions"""
    mugo(os.path.join(d, "prog"), spec=[strip_scen(minimal, new_id=1)], module=module)
    with open(os.path.join(d, "replay.txt"), "w") as f:
        f.write(what + "\n\nminimised scenario: %s\nconfigurations that miss it: %s\n\n" % (scen_label(minimal), ", ".join(bad_specs)))
        f.write("re-run:\n  cd %s/prog && go run .            # prints 'HIT 1 1' : the marker reaches sink1 natively\n" % d)
        f.write("  %s -dir %s/prog %s   # \"pairs\" lacks (source1, sink1)\n" % (TRUN, d, " ".join(bad_specs)))
        f.write("  (or: cd %s/prog && %s/argot taint -config config.yaml .)\n" % (d, vlib.BIN))


def copy_prog(d, rd):
    """copy program directory d into replay dir rd so that it still loads: generated programs are self-contained modules;
    staged testdata live inside a scratch module (go.mod some levels up) and are copied with their relative path.
    Returns the directory of the program inside rd."""
    root = d
    while root != "/" and not os.path.exists(os.path.join(root, "go.mod")):
        root = os.path.dirname(root)
    ign = shutil.ignore_patterns("*-report", "prog.bin", ".trun-*")
    if root == d or root == "/":
        shutil.copytree(d, os.path.join(rd, "prog"), ignore=ign)
        return os.path.join(rd, "prog")
    rel = os.path.relpath(d, root)
    dst = os.path.join(rd, "prog", rel)
    os.makedirs(os.path.dirname(dst), exist_ok=True)
    shutil.copytree(d, dst, ignore=ign)
    shutil.copy(os.path.join(root, "go.mod"), os.path.join(rd, "prog", "go.mod"))
    return dst


def _crash_of(res):
    """panic text of the first run of a trun result ('' when it did not panic)"""
    runs = res.get("runs", [])
    return (runs[0].get("panic") or "") if runs else ""


def isolate_crashers(work, scenarios, spec, timeout=200, module="p1", chunk=6, max_rounds=5):
    """The analysis panics on a program made of `scenarios` under configuration `spec`: find the scenarios that make it
    panic on their own (chunks -> single scenarios, each in its own generated program, run in parallel) and reduce each by
    dropping source shape / wrap / atoms while it still panics.
    Returns list of {scenario, minimal, key, panic}; empty when no single scenario reproduces the panic."""
    def evaluate(tag, groups):
        jobs = []
        for n, scs in enumerate(groups):
            d = os.path.join(work, "%s_%d" % (tag, n))
            mugo(d, spec=[strip_scen(sc, new_id=i + 1) for i, sc in enumerate(scs)], module=module)
            jobs.append((n, dict(d=d, specs=[spec], timeout=timeout, retry=False)))
        res = trun_many(jobs, workers=max(2, min(len(jobs), (vlib.NCPU or 4) // 2)))
        return [_crash_of(res[n]) for n in range(len(groups))]

    groups = [scenarios[k:k + chunk] for k in range(0, len(scenarios), chunk)]
    bad = [g for g, c in zip(groups, evaluate("crA", groups)) if c]
    singles = [[sc] for g in bad for sc in g]
    if not singles:
        return []
    out = []
    crashing = [(g[0], c) for g, c in zip(singles, evaluate("crB", singles)) if c]
    for n, (sc, ptxt) in enumerate(crashing):
        cur = strip_scen(sc)
        for rnd in range(max_rounds):
            cands = []
            if cur["src"] != "direct":
                cands.append(strip_scen(cur, src="direct"))
            if cur["wrap"] != "direct":
                cands.append(strip_scen(cur, wrap="direct"))
            if len(cur["atoms"]) > 1:
                for j in range(len(cur["atoms"])):
                    cands.append(strip_scen(cur, atoms=cur["atoms"][:j] + cur["atoms"][j + 1:]))
            if not cands:
                break
            verdicts = evaluate("crC%d_%d" % (n, rnd), [[c] for c in cands])
            nxt = [c for c, v in zip(cands, verdicts) if v]
            if not nxt:
                break
            cur = nxt[0]
        cat = {(a["Kind"], a["Variant"]): a["Key"] for a in catalogue()["atoms"]}
        parts = []
        if cur["src"] != "direct":
            parts.append("src:" + cur["src"])
        parts += [cat.get((a["kind"], a["variant"]), a["kind"] + ":" + a["variant"]) for a in cur["atoms"]]
        if cur["wrap"] != "direct":
            parts.append("wrap:" + cur["wrap"])
        out.append({"scenario": sc, "minimal": cur, "key": "crash:" + "+".join(parts), "panic": ptxt})
    return out
