"""C01 - the taint analysis reports every explicit source->sink flow and fails the process.

proof      : coq/theories/Properties/C01.v - generic worklist-closure theorems (Base/Closure.v) instantiated as "every key-graph
             path from a source key to a sink key is found", and the verdict model exit_code_spec (Model/TaintCli.v).
             The code-level models (traversal: builder trav, intra-procedural rules: builder c08) are separate files.
tie T-gt   : generated scenario programs (harness/cmd/mugo; ~45 scenarios each, chains of 1-6 atoms from source<i>() to
             sink<i>(x)) are executed natively under all 64 valuations of their opaque conditions (reflective deep walk at
             the sink prints HIT i marker) and analysed by the REAL taint analysis in-process (harness/cmd/trun) under the
             four sound configurations {field-sensitive} x {summarize-on-demand} (+ source rewrites off).
             observed natively  /\\  not reported in some sound configuration  =>  violation, minimised by batch
             delta-debugging to a single-scenario program and keyed by the atoms that remain.
tie exit   : the real CLI (vlib.build_argot) on a program with flows and on one without: exit status <> 0 <=> pairs <> {}
             (Model/TaintCli.exit_code).
"""
import json
import os
import shutil

import vlib
from props import c01_common as C

REGRESS = os.path.join(vlib.VERIF, "corpus", "mugo", "c01_regress.json")
NOFLOW = os.path.join(vlib.VERIF, "corpus", "mugo", "c01_noflow.json")
CRASH = os.path.join(vlib.VERIF, "corpus", "mugo", "c01_crash.json")
EXTRA = ["fs=0,od=0,rw=0", "fs=1,od=1,rw=0"]          # source rewrites off


def cli(argot, d, timeout=600):
    """run the real CLI; returns (exit status, saw 'Taint flows detected', saw 'No taint flows detected')"""
    rc, out = vlib.sh([argot, "taint", "-config", "config.yaml", "."], cwd=d, timeout=timeout)
    return rc, ("Taint flows detected" in out), ("No taint flows detected" in out), out[-1500:]


def run(chk):
    tier = chk.tier
    failed = chk.prove(["theories/Properties/C01.v", "theories/Properties/C01Sem.v"])
    from props import visit_tie
    visit_tie.run(chk)
    C.build()
    argot = vlib.build_argot()
    work = os.path.join(vlib.BUILD, "c01")
    shutil.rmtree(work, ignore_errors=True)
    os.makedirs(work)

    nprog = 2 if tier == "quick" else 10
    nscen = 30 if tier == "quick" else 50
    progs = []     # (name, dir, manifest)
    progs.append(("regress", os.path.join(work, "regress"), None))
    mans = {}
    mans["regress"] = C.mugo(progs[0][1], spec=json.load(open(REGRESS)))
    for k in range(nprog):
        name = "gen%d" % k
        d = os.path.join(work, name)
        mans[name] = C.mugo(d, seed=chk.seed * 1000 + k, n=nscen)
        progs.append((name, d, None))
    if tier != "quick":
        # std functions without predefined summaries: slow, small program
        name = "stdx"
        d = os.path.join(work, name)
        mans[name] = C.mugo(d, seed=chk.seed * 1000 + 999, n=12, stdx=True)
        progs.append((name, d, None))

    specs = C.SOUND4 + (EXTRA[:1] if tier == "quick" else EXTRA)
    stats = {"programs": len(progs), "scenarios": 0, "native_flows": 0, "native_noflow": 0, "judgments": 0, "reported_ok": 0,
             "missed_scenarios": 0, "true_negatives": 0, "reported_not_observed": 0, "cross_pairs": 0, "native_panics": 0,
             "tool_timeouts": 0, "tool_panics": 0, "expect_mismatch": 0, "per_config_pairs": {}}
    hits = {}
    for name, d, _ in progs:
        h, panics = C.native(d)
        hits[name] = h
        stats["native_panics"] += len(panics)
    jobs = [(name, dict(d=d, specs=specs, timeout=(150 if tier == "quick" else 600))) for name, d, _ in progs]
    results = C.trun_many(jobs, workers=min(len(jobs), max(2, vlib.NCPU // 4)))

    found_concrete = False
    distinct = set()
    all_misses = []          # (program name, scenario, bad specs)

    # ---- a panic of the analysis hides every scenario of the program: isolate the scenario(s) that cause it (each reduced to
    # a minimal single-scenario program, key crash:<atoms>), then judge the rest of the program without them
    crash_keys = {}
    for idx, (name, d, _) in enumerate(list(progs)):
        pan = [r for r in results[name].get("runs", []) if r.get("panic")]
        if not pan:
            continue
        crs = C.isolate_crashers(os.path.join(work, "crash-" + name), mans[name]["scenarios"], pan[0]["spec"],
                                 timeout=(200 if tier == "quick" else 600))
        for c in crs:
            found_concrete = True
            ent = crash_keys.setdefault(c["key"], dict(c, n=0, program=name, spec=pan[0]["spec"]))
            ent["n"] += 1
        if crs:
            gone = set(c["scenario"]["id"] for c in crs)
            keep = [C.strip_scen(sc) for sc in mans[name]["scenarios"] if sc["id"] not in gone]
            d2 = d + "-nocrash"
            mans[name] = C.mugo(d2, spec=keep)
            hits[name], _p = C.native(d2)
            results[name] = C.trun(d2, specs, timeout=(150 if tier == "quick" else 600))
            progs[idx] = (name, d2, None)
    for key, ent in sorted(crash_keys.items()):
        rd = chk.replay_dir(key)
        what = ("the taint analysis PANICS (%s) under %s on a program containing this scenario, so nothing is reported for the whole "
                "program although its flows are observed natively; minimised from %s in program %s"
                % (ent["panic"][:160], ent["spec"], C.scen_label(ent["scenario"]), ent["program"]))
        C.write_program_replay(rd, ent["minimal"], [ent["spec"]], what)
        chk.violation(key, what, rd)
    stats["crashing_scenarios"] = sum(e["n"] for e in crash_keys.values())
    for name, d, _ in progs:
        res = results[name]
        man = mans[name]
        if res.get("fatal"):
            raise vlib.BuildError("trun failed on %s" % name, res["fatal"])
        runs = {r["spec"]: r for r in res["runs"]}
        for s, r in runs.items():
            stats["per_config_pairs"][s] = stats["per_config_pairs"].get(s, 0) + len(r.get("pairs", []))
            if r.get("timeout") or r.get("panic") or r.get("load_error"):
                kind = "timeout" if r.get("timeout") else ("panic" if r.get("panic") else "load-error")
                stats["tool_timeouts" if r.get("timeout") else "tool_panics"] += 1
                found_concrete = True
                rd = chk.replay_dir("tool-%s:%s:%s" % (kind, name, s))
                shutil.copytree(d, os.path.join(rd, "prog"))
                with open(os.path.join(rd, "replay.txt"), "w") as f:
                    f.write("the taint analysis did not produce a result (%s) under configuration %s on the generated program prog/\n"
                            "%s\nre-run: %s -dir %s/prog %s\n" % (kind, s, "\n".join(r.get("errors", []))[:3000] + r.get("load_error", ""), C.TRUN, rd, s))
                chk.violation("tool-%s:%s" % (kind, s), "no analysis result (%s) under %s on generated program %s: natively observed flows "
                              "are not reported" % (kind, s, name), rd)
        for sc in man["scenarios"]:
            i = sc["id"]
            stats["scenarios"] += 1
            nat = (i, i) in hits[name]
            if nat != sc["expect_flow"]:
                stats["expect_mismatch"] += 1
            if nat:
                stats["native_flows"] += 1
                for k in C.atom_keys(sc):
                    distinct.add(k)
                distinct.add("src:" + sc["src"])
                distinct.add("wrap:" + sc["wrap"])
            else:
                stats["native_noflow"] += 1
            for s, r in runs.items():
                if not C.run_ok(r):
                    continue
                stats["judgments"] += 1
                rep = C.scen_reported(i, hits[name], r) if nat else (i in C.reported_ids(r))
                if nat and rep:
                    stats["reported_ok"] += 1
                elif not nat and not rep:
                    stats["true_negatives"] += 1
                elif not nat and rep:
                    stats["reported_not_observed"] += 1
        for s, r in runs.items():
            for p in r.get("pairs", []):
                a, b = p[2].replace("source", ""), p[3].replace("sink", "")
                if a != b and not (a.isdigit() and b.isdigit() and int(a) == 5000 + int(b)):
                    stats["cross_pairs"] += 1
        ms = C.missed(man, hits[name], runs)
        stats["missed_scenarios"] += len(ms)
        for sc, bad in ms:
            all_misses.append((name, sc, bad))
        if len(chk.cov["samples"]) < 6 and man["scenarios"]:
            sc = man["scenarios"][len(chk.cov["samples"]) % len(man["scenarios"])]
            chk.sample({"program": name, "scenario": C.scen_label(sc), "native_flow": (sc["id"], sc["id"]) in hits[name],
                        "reported": {s: C.scen_reported(sc["id"], hits[name], r) for s, r in runs.items()}})

    # ---- minimise and key the misses (one batch program per round for all of them)
    minimal_keys = {}
    if all_misses:
        # renumber: scenario ids must be unique across programs inside the shrinker
        ms = []
        for n, (name, sc, bad) in enumerate(all_misses):
            sc2 = dict(sc)
            sc2["id"] = n + 1
            # one failing configuration is enough to recognise a candidate reduction (prefer one with rewrites on, so that
            # the shrink programs are loaded once)
            ms.append((sc2, sorted(bad, key=lambda x: ("rw=0" in x, x))[:1]))
        shr = C.shrink(os.path.join(work, "shrink"), ms, specs, timeout=(200 if tier == "quick" else 600))
        for (name, sc, bad), m in zip(all_misses, shr):
            key = C.miss_key(m["key"], bad, specs, minimal=m["minimal"])
            ent = minimal_keys.setdefault(key, {"n": 0, "example": C.scen_label(sc), "minimal": m["minimal"], "bad": bad, "program": name})
            ent["n"] += 1
        for key, ent in sorted(minimal_keys.items()):
            found_concrete = True
            rd = chk.replay_dir(key)
            what = ("flow observed natively (marker reaches the sink under some valuation of the opaque conditions) but not reported "
                    "by the taint analysis under %s; minimised from %d generated scenario(s), e.g. %s in program %s"
                    % (", ".join(ent["bad"]), ent["n"], ent["example"], ent["program"]))
            C.write_program_replay(rd, ent["minimal"], ent["bad"], what)
            chk.violation(key, what, rd)

    # ---- committed crash scenarios (each in its own program: a panic hides everything else in the program)
    crash_specs = json.load(open(CRASH)) if os.path.exists(CRASH) else []
    stats["crash_corpus"] = len(crash_specs)
    stats["crash_corpus_panicking"] = 0
    cjobs = []
    cat = None
    for n, sc in enumerate(crash_specs):
        d = os.path.join(work, "crashcorpus%d" % n)
        C.mugo(d, spec=[C.strip_scen(sc, new_id=1)])
        cjobs.append((n, dict(d=d, specs=["fs=0,od=0"], timeout=(150 if tier == "quick" else 600), retry=False)))
    if cjobs:
        cres = C.trun_many(cjobs)
        cat = {(a["Kind"], a["Variant"]): a["Key"] for a in C.catalogue()["atoms"]}
        for n, sc in enumerate(crash_specs):
            ptxt = C._crash_of(cres[n])
            if not ptxt:
                continue
            stats["crash_corpus_panicking"] += 1
            found_concrete = True
            key = "crash:" + "+".join(cat.get((a["kind"], a["variant"]), a["kind"] + ":" + a["variant"]) for a in sc["atoms"])
            if key in crash_keys:
                continue
            rd = chk.replay_dir(key)
            what = ("the taint analysis PANICS (%s) under fs=0,od=0 on the single-scenario program of the committed crash corpus: "
                    "nothing is reported although the flow is observed natively" % ptxt[:160])
            C.write_program_replay(rd, C.strip_scen(sc, new_id=1), ["fs=0,od=0"], what)
            chk.violation(key, what, rd)

    # ---- exit status tie (real CLI)
    exit_stats = {"cli_runs": 0, "agree": 0}
    nf = os.path.join(work, "noflow")
    C.mugo(nf, spec=json.load(open(NOFLOW)))
    nf_hits, _ = C.native(nf)
    nf_res = C.trun(nf, ["fs=0,od=0"], timeout=200)
    cases = [("noflow", nf, nf_res["runs"][0] if nf_res.get("runs") else None)]
    cases.append(("regress", progs[0][1], {r["spec"]: r for r in results["regress"]["runs"]}.get("fs=0,od=0")))
    for name, d, r in cases:
        if r is None or not C.run_ok(r):
            continue
        rc, saw_flows, saw_none, tail = cli(argot, d)
        exit_stats["cli_runs"] += 1
        expect_fail = bool(r["pairs"]) or bool(r["escapes"]) or bool(r["errors"])
        model_exit = 2 if expect_fail else 0          # Model/TaintCli.exit_code
        ok = (rc == model_exit) and (saw_flows == bool(r["pairs"])) and (saw_none == (not r["pairs"]))
        if ok:
            exit_stats["agree"] += 1
        else:
            found_concrete = True
            rd = chk.replay_dir("exit-status:" + name)
            shutil.copytree(d, os.path.join(rd, "prog"))
            with open(os.path.join(rd, "replay.txt"), "w") as f:
                f.write("argot taint exit status %d (flows line: %s, no-flows line: %s); the in-process analysis reports %d pairs, %d escapes, "
                        "%d errors => expected exit status %d (Model/TaintCli.exit_code)\n\nre-run: cd %s/prog && %s taint -config config.yaml . ; echo $?\n\n%s\n"
                        % (rc, saw_flows, saw_none, len(r["pairs"]), len(r["escapes"]), len(r["errors"]), model_exit, rd, argot, tail))
            chk.violation("exit-status:" + ("flows" if expect_fail else "noflows"),
                          "CLI exit status %d but %d flow pairs reported (expected %d)" % (rc, len(r["pairs"]), model_exit), rd)
    if nf_res.get("runs") and C.run_ok(nf_res["runs"][0]) and nf_res["runs"][0]["pairs"]:
        chk.notes.append("the no-flow control program is reported with flows (imprecision): %s" % nf_res["runs"][0]["pairs"][:3])

    chk.proof_broken(failed, found_concrete)

    known = set(k["key"] for k in vlib.load_known() if k["property"] == "C01")
    stale = sorted(k for k in known if not k.endswith("*") and k not in minimal_keys and tier != "quick")
    chk.cov["evaluations"] = stats["judgments"]
    chk.cov["distinct_nontrivial"] = len(distinct)
    chk.cov["rule"] = ("one evaluation = one (generated scenario, configuration) judgment of native observation vs tool report; "
                       "non-trivial = the scenario's marker is observed at its sink natively; distinct = distinct atom variants / "
                       "source shapes / sink wraps occurring in such scenarios")
    chk.cov["traces_validated_against_impl"] = stats["reported_ok"]
    chk.cov["distribution"] = dict(stats, exit_tie=exit_stats, minimal_miss_keys={k: v["n"] for k, v in minimal_keys.items()},
                                   crash_keys={k: v["n"] for k, v in crash_keys.items()})
    if stale:
        chk.cov["stale_known_finding"] = stale
    chk.assumptions += [
        "ground truth = native execution of the generated program under all 64 valuations of its 6 opaque conditions; a flow is "
        "counted only when the marker string is found by the reflective deep walk at the scenario's own sink",
        "the body of report() (reflective walk behind every sink) is declared opaque by a user dataflow contract (specs.json)",
        "Properties/C01.v is about the abstract worklist and the verdict model; the hypothesis 'the visitor is a seen-set worklist over "
        "a key graph whose successors depend only on the key' is not proved of the Go code (builder trav's Model/Visit.v)",
    ]
    return chk.finish()


def replay(chk, path):
    d = os.path.join(path, "prog")
    print(open(os.path.join(path, "replay.txt")).read())
    if os.path.isdir(d):
        C.build()
        h, _ = C.native(d)
        res = C.trun(d, C.SOUND4 + EXTRA, timeout=300)
        print("native hits:", sorted(h))
        for r in res.get("runs", []):
            print(r["spec"], "pairs:", [(p[2], p[3]) for p in r["pairs"]], "errors:", r["errors"][:1], "timeout:", r["timeout"])
    return 0
