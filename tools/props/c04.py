"""C04 - every code location matching a specification is identified, and only those.

proof      : coq/theories/Properties/C04.v  (model Model/CodeId.v, lemmas Proofs/CodeId.v); regex engine = Section variable
tie T-dump : harness/cmd/c04dump calls the REAL classification (taint.IsSourceNode -> analysisutil.IsEntrypointNode,
             isSink / isSanitizer / isValidatorCondition through the hook taint.VerifIs*, IsMatchingCodeIDWithCallee,
             backtrace.IsInterProceduralEntryPoint, TaintSpec.Is* for the bare matcher, populateConfigInterfaces) on
             generated programs (call forms x package layouts) with generated specifications loaded by the real
             config.LoadFromFiles, and dumps raw SSA descriptors; the extracted model (build/bin/c04model) is evaluated on
             the descriptors with the verdict table of Go's regexp as `rmatch`; verdicts must be EQUAL
spec       : `ideal` = the property's executable spec (callee package path + name [+ receiver / context / value-match]
             matched by some specification, independent of the call form; named type with its package path for the type
             kinds), evaluated here in Python (and by the extracted classify_ideal as a cross-check) and compared with
             the implementation; a deviation that is not a listed finding is a violation
e2e        : taint.Analyze on the same program: a flow src-site -> sink-site of a straight-line scenario is reported
             iff the real classification says source and sink (the classification is what the analysis uses)
"""
import json
import os
import shutil

import vlib

FIELDS = ["context", "package", "interface", "method", "receiver", "field", "type", "kind", "value-match"]
REGEX_FIELDS = [f for f in FIELDS if f != "kind"]
ROLES_T = ["source", "sink", "sanitizer", "validator"]
CFGKEY = {"source": "sources", "sink": "sinks", "sanitizer": "sanitizers", "validator": "validators",
          "backtrace": "backtracepoints"}

# ---------------------------------------------------------------------------------------------------- layouts
LAYOUTS = [
    # module path, callee package sub directory ("" = everything in package main), callee package name
    {"name": "main-only", "mods": ["p1", "m7x", "app"], "subs": [""], "pn": ["main"]},
    {"name": "sub-package", "mods": ["q3", "svc2", "tool"], "subs": ["sub", "lib_x", "internal/impl"], "pn": None},
    {"name": "dotted-path", "mods": ["example.com/a_b/c.d", "git.host.io/x_y/mod.v2", "ex.org/u-v/w_1"],
     "subs": ["in_ner/pk.g", "deep/er_1/v.2"], "pn": ["inner", "pkg_x", "v2x"]},
]


def esc(s):
    out = ""
    for c in s:
        out += ("\\" + c) if c in "\\.+*?()|[]{}^$" else c
    return out


class Layout:
    def __init__(self, rnd, li):
        L = LAYOUTS[li % len(LAYOUTS)]
        self.kind = L["name"]
        self.mod = L["mods"][rnd(len(L["mods"]))]
        self.sub = L["subs"][rnd(len(L["subs"]))]
        if self.sub == "":
            self.P = self.mod
            self.pn = "main"
        else:
            self.P = self.mod + "/" + self.sub
            self.pn = L["pn"][rnd(len(L["pn"]))] if L["pn"] else self.sub.split("/")[-1]
        self.q = "" if self.sub == "" else "cal."      # qualifier in main for the callee package
        sfx = ["", "1", "X", "_a"][rnd(4)]
        self.n = {k: k + sfx for k in ["Src", "Snk", "San", "Val", "MSrc", "MSnk", "MSan", "MVal", "Gen"]}
        self.T = ["T", "Tok", "Rec"][rnd(3)]
        self.U = ["U", "Uq"][rnd(2)]
        self.I = ["I", "Iface"][rnd(2)]
        self.J = ["J", "Jx"][rnd(2)]
        self.Ch = "Ch"


def gen_program(lay, d):
    """writes the Go module; returns (scen, ops): scen = {(file, line): site expectation}"""
    n = lay.n
    T, U, I, J, Ch, q = lay.T, lay.U, lay.I, lay.J, lay.Ch, lay.q
    callee_src = """
type %(T)s struct {
	F string
	G string
	H int
}

type %(U)s struct{ F string }

type %(I)s interface {
	%(MSrc)s() string
	%(MSnk)s(string)
	%(MSan)s(string) string
	%(MVal)s(string) bool
}

type %(Ch)s chan %(T)s

func %(Src)s() string          { return "x" }
func %(Snk)s(s string)         {}
func %(San)s(s string) string  { return s }
func %(Val)s(s string) bool    { return len(s) > 1 }
func Other%(Src)s() string     { return "o" }
func Other%(Snk)s(s string)    {}
func %(Gen)s[X any](x X) X     { return x }

type W struct {
	F string
	G string
}

type V struct{ A int }

type SCh chan string

func Dump(x any) {}

func (t *%(T)s) %(MSrc)s() string         { return t.F }
func (t *%(T)s) %(MSnk)s(s string)        { t.G = s }
func (t *%(T)s) %(MSan)s(s string) string { return s }
func (t *%(T)s) %(MVal)s(s string) bool   { return len(s) > 1 }
func (u %(U)s) %(MSrc)s() string          { return u.F }
func (u %(U)s) %(MSnk)s(s string)         {}
""" % dict(n, T=T, U=U, I=I, Ch=Ch)
    os.makedirs(d, exist_ok=True)
    open(os.path.join(d, "go.mod"), "w").write("module %s\n\ngo 1.22\n" % lay.mod)
    main = ["package main", ""]
    if lay.sub:
        os.makedirs(os.path.join(d, lay.sub), exist_ok=True)
        open(os.path.join(d, lay.sub, "cal.go"), "w").write("package %s\n%s" % (lay.pn, callee_src))
        main += ['import cal "%s"' % lay.P, ""]
    else:
        main += callee_src.split("\n")
    scen = {}
    P = lay.P
    Tq = q + T

    def fnk(name):       # callee descriptor of a function of the callee package
        return {"pkg": P, "name": name, "recv": "", "recv_type": "", "str": P + "." + name}

    def mk(name, recv=None, ptr=True):
        recv = recv or T
        rt = ("*" if ptr else "") + P + "." + recv
        return {"pkg": P, "name": name, "recv": recv, "recv_type": rt, "str": "(%s).%s" % (rt, name)}

    def add(line_text, form, callees, role, **kw):
        main.append(line_text)
        scen[("main.go", len(main))] = dict(form=form, callees=callees, role=role, **kw)

    main += ["type %s interface {" % J, "\t%s() string" % n["MSrc"], "\t%s(string)" % n["MSnk"], "}", "",
             "var cond bool", "var keep []any", "", "func use(x any) { keep = append(keep, x) }", ""]
    roles4 = [("source", "Src"), ("sink", "Snk"), ("sanitizer", "San"), ("validator", "Val")]

    def call_lines(form, prefix_f, prefix_m, method, extra=None, instr=""):
        """the four calls (source, sink, sanitizer, validator) of a scenario in a direct-call form"""
        for role, base in roles4:
            nm = n[("M" if method else "") + base]
            k = mk(nm) if method else fnk(nm)
            tgt = (prefix_m + nm) if method else (prefix_f + nm)
            kw = dict(extra or {})
            if role == "source":
                if instr:
                    add("\t%s %s()" % (instr, tgt), form, [k], role, **kw)
                    main.append("\ta := \"s\"")
                else:
                    add("\ta := %s()" % tgt, form, [k], role, pair="a", **kw)
            elif role == "sink":
                add("\t%s%s(a)" % (instr + " " if instr else "", tgt), form, [k], role, pair="a", **kw)
            elif role == "sanitizer":
                if instr:
                    add("\t%s %s(a)" % (instr, tgt), form, [k], role, **kw)
                    main.append("\tb := a")
                else:
                    add("\tb := %s(a)" % tgt, form, [k], role, **kw)
            elif not instr:
                add("\tif %s(b) {" % tgt, form, [k], role, **kw)
                main.extend(["\t\tuse(b)", "\t}"])
        main.append("\tuse(b)")

    # --- Static
    main.append("func scStatic() {")
    call_lines("Static", q, "", False)
    main += ["}", ""]
    # --- Method (static call of a method of a concrete type)
    main.append("func scMethod() {")
    main.append("\tt := &%s{}" % Tq)
    call_lines("Method", "", "t.", True)
    main += ["}", ""]
    # --- IfaceInvoke, interface declared in the callee package
    main.append("func scInvoke(t *%s) {" % Tq)
    main.append("\tvar i %s%s = t" % (q, I))
    call_lines("IfaceInvoke", "", "i.", True, extra={"iface_pkg": P, "iface_type": P + "." + I, "iface": I})
    main += ["}", ""]
    # --- IfaceInvoke, interface declared in package main
    main.append("func scInvokeJ(t *%s) {" % Tq)
    main.append("\tvar j %s = t" % J)
    add("\ta := j.%s()" % n["MSrc"], "IfaceInvoke", [mk(n["MSrc"])], "source", pair="a",
        iface_pkg=lay.mod, iface_type=lay.mod + "." + J, iface=J)
    add("\tj.%s(a)" % n["MSnk"], "IfaceInvoke", [mk(n["MSnk"])], "sink", pair="a",
        iface_pkg=lay.mod, iface_type=lay.mod + "." + J, iface=J)
    main += ["}", ""]
    # --- FuncValue through a parameter
    main += ["func fvSrc(f func() string) string {"]
    add("\tr := f()", "FuncValue", [fnk(n["Src"])], "source", pair="fv")
    main += ["\treturn r", "}", "func fvSnk(f func(string), s string) {"]
    add("\tf(s)", "FuncValue", [fnk(n["Snk"])], "sink", pair="fv")
    main += ["}", "func fvSan(f func(string) string, s string) string {"]
    add("\tr := f(s)", "FuncValue", [fnk(n["San"])], "sanitizer")
    main += ["\treturn r", "}", "func fvVal(f func(string) bool, s string) {"]
    add("\tif f(s) {", "FuncValue", [fnk(n["Val"])], "validator")
    main += ["\t\tuse(s)", "\t}", "}",
             "func scFuncValue() {", "\ta := fvSrc(%s%s)" % (q, n["Src"]), "\tfvSnk(%s%s, a)" % (q, n["Snk"]),
             "\tb := fvSan(%s%s, a)" % (q, n["San"]), "\tfvVal(%s%s, b)" % (q, n["Val"]), "}", ""]
    # --- FuncValue through a phi (two possible callees)
    main += ["func scFuncPhi() {", "\tfs := %sOther%s" % (q, n["Src"]), "\tfk := %sOther%s" % (q, n["Snk"]),
             "\tif cond {", "\t\tfs = %s%s" % (q, n["Src"]), "\t\tfk = %s%s" % (q, n["Snk"]), "\t}"]
    add("\ta := fs()", "FuncValue", [fnk(n["Src"]), fnk("Other" + n["Src"])], "source", pair="a")
    add("\tfk(a)", "FuncValue", [fnk(n["Snk"]), fnk("Other" + n["Snk"])], "sink", pair="a")
    main += ["}", ""]
    # --- MethodValue
    main += ["func scMethodValue() {", "\tt := &%s{}" % Tq, "\tmsrc := t.%s" % n["MSrc"], "\tmsnk := t.%s" % n["MSnk"],
             "\tmsan := t.%s" % n["MSan"], "\tmval := t.%s" % n["MVal"]]
    add("\ta := msrc()", "MethodValue", [mk(n["MSrc"])], "source", pair="a")
    add("\tmsnk(a)", "MethodValue", [mk(n["MSnk"])], "sink", pair="a")
    add("\tb := msan(a)", "MethodValue", [mk(n["MSan"])], "sanitizer")
    add("\tif mval(b) {", "MethodValue", [mk(n["MVal"])], "validator")
    main += ["\t\tuse(b)", "\t}", "}", ""]
    # --- MethodExpr
    main += ["func scMethodExpr() {", "\tt := &%s{}" % Tq, "\tesrc := (*%s).%s" % (Tq, n["MSrc"]),
             "\tesnk := (*%s).%s" % (Tq, n["MSnk"]), "\tesan := (*%s).%s" % (Tq, n["MSan"]),
             "\teval := (*%s).%s" % (Tq, n["MVal"])]
    add("\ta := esrc(t)", "MethodExpr", [mk(n["MSrc"])], "source", pair="a")
    add("\tesnk(t, a)", "MethodExpr", [mk(n["MSnk"])], "sink", pair="a")
    add("\tb := esan(t, a)", "MethodExpr", [mk(n["MSan"])], "sanitizer")
    add("\tif eval(t, b) {", "MethodExpr", [mk(n["MVal"])], "validator")
    main += ["\t\tuse(b)", "\t}", "}", ""]
    # --- Deferred / Go (function and method callees)
    main.append("func scDeferred() {")
    call_lines("Deferred", q, "", False, instr="defer")
    main += ["}", "", "func scDeferredM() {", "\tt := &%s{}" % Tq]
    call_lines("Deferred", "", "t.", True, instr="defer")
    main += ["}", "", "func scGo() {"]
    call_lines("GoCall", q, "", False, instr="go")
    main += ["}", "", "func scGoM() {", "\tt := &%s{}" % Tq]
    call_lines("GoCall", "", "t.", True, instr="go")
    main += ["}", ""]
    # --- a source whose value reaches a deferred / go sink (for the end-to-end part)
    main += ["func scDeferSink() {"]
    add("\ta := %s%s()" % (q, n["Src"]), "Static", [fnk(n["Src"])], "source", pair="ds")
    add("\tdefer %s%s(a)" % (q, n["Snk"]), "Deferred", [fnk(n["Snk"])], "sink", pair="ds")
    main += ["}", "func scGoSink() {"]
    add("\ta := %s%s()" % (q, n["Src"]), "Static", [fnk(n["Src"])], "source", pair="gs")
    add("\tgo %s%s(a)" % (q, n["Snk"]), "GoCall", [fnk(n["Snk"])], "sink", pair="gs")
    main += ["}", ""]
    # --- InClosure
    main += ["func scClosure() {", "\tfunc() {"]
    save = len(main)
    call_lines("InClosure", q, "", False)
    for i in range(save, len(main)):
        main[i] = "\t" + main[i]
    main += ["\t}()", "}", "", "func scClosureM(t *%s) {" % Tq, "\tg := func() {"]
    save = len(main)
    call_lines("InClosure", "", "t.", True)
    for i in range(save, len(main)):
        main[i] = "\t" + main[i]
    main += ["\t}", "\tg()", "}", ""]
    # --- other receiver with the same method names; combinations outside the nine forms
    main += ["func scOther(t *%s, u %s%s) {" % (Tq, q, U)]
    add("\ta := u.%s()" % n["MSrc"], "Method", [mk(n["MSrc"], U, False)], "source", pair="a")
    add("\tu.%s(a)" % n["MSnk"], "Method", [mk(n["MSnk"], U, False)], "sink", pair="a")
    main.append("\tvar i %s%s = t" % (q, I))
    add("\tdefer i.%s(a)" % n["MSnk"], "extra:DeferredInvoke", [mk(n["MSnk"])], "sink",
        iface_pkg=P, iface_type=P + "." + I, iface=I)
    add("\tgo i.%s(a)" % n["MSnk"], "extra:GoInvoke", [mk(n["MSnk"])], "sink", iface_pkg=P, iface_type=P + "." + I, iface=I)
    add("\tg := %s%s(a)" % (q, n["Gen"]), "extra:GenericInst", [fnk(n["Gen"])], "source")
    main += ["\tuse(g)", "}", ""]
    # --- non-call identifiers end to end: field-read / channel-receive / alloc sources and a store sink
    nc = []
    main += ["func scNonCall(sch %sSCh) {" % q, "\tw := &%sW{}" % q]
    main.append("\tx := w.F")
    l_field = len(main)
    main.append("\t%sDump(x)" % q)
    nc.append(("field-read->call", l_field, len(main)))
    main.append("\tw.G = x")
    nc.append(("field-read->store", l_field, len(main)))
    main.append("\tv := <-sch")
    l_recv = len(main)
    main.append("\t%sDump(v)" % q)
    nc.append(("recv->call", l_recv, len(main)))
    main.append("\tp := &%sV{}" % q)
    l_alloc = len(main)
    main.append("\t%sDump(p)" % q)
    nc.append(("alloc->call", l_alloc, len(main)))
    main += ["}", ""]
    # --- an invoke whose interface method has no package (error.Error): FindSafeCalleePkg yields nothing
    main += ["type errT struct{}", "", "func (errT) Error() string { return \"e\" }", "",
             "func scErr(e error, s string) string {", "\tdefer e.Error()", "\treturn e.Error() + s", "}", ""]
    # --- type kinds
    ops = {}

    def addop(text, kinds):
        main.append(text)
        ops[("main.go", len(main))] = kinds

    main += ["type local%s struct{ F string }" % T, "", "func retU() %s%s { return %s%s{} }" % (q, U, q, U), "",
             "func getF() string {"]
    addop("\treturn retU().F", ["field"])
    main += ["}", "", "func scOps() {"]
    addop("\tt := &%s{}" % Tq, ["alloc"])
    addop("\tx := t.F", ["fieldaddr"])
    addop("\tt.G = x", ["fieldaddr", "store"])
    addop("\tt.H = 3", ["fieldaddr", "store"])
    addop("\tch := make(%s%s, 1)" % (q, Ch), [])
    addop("\tv := <-ch", ["recv"])
    addop("\tch2 := make(chan %s, 1)" % Tq, [])
    addop("\tv2 := <-ch2", ["recv"])
    addop("\tch3 := make(chan *%s, 1)" % Tq, [])
    addop("\tv3 := <-ch3", ["recv"])
    addop("\tsl := make([]%s, 2)" % Tq, [])
    addop("\tsl[0].F = x", ["fieldaddr", "store"])
    addop("\tarr := new([3]%s)" % Tq, ["alloc"])
    addop("\tmp := new(map[string]%s)" % Tq, ["alloc"])
    addop("\tpe := new(error)", ["alloc"])
    addop("\tse := new([]error)", ["alloc"])
    addop("\tlt := &local%s{}" % T, ["alloc"])
    addop("\tlt.F = x", ["fieldaddr", "store"])
    addop("\tst := new(struct{ A int })", ["alloc"])
    addop("\tni := new(int)", ["alloc"])
    addop("\tpu := &%s%s{}" % (q, U), ["alloc"])
    addop("\ty := pu.F", ["fieldaddr"])
    main += ["\tuse(v)", "\tuse(v2)", "\tuse(v3)", "\tuse(arr)", "\tuse(mp)", "\tuse(pe)", "\tuse(se)", "\tuse(lt)",
             "\tuse(st)", "\tuse(ni)", "\tuse(y)", "\tuse(getF())", "}", ""]
    main += ["func main() {", "\tt := &%s{}" % Tq, "\tscStatic()", "\tscMethod()", "\tscInvoke(t)", "\tscInvokeJ(t)",
             "\tscFuncValue()", "\tscFuncPhi()", "\tscMethodValue()", "\tscMethodExpr()", "\tscDeferred()",
             "\tscDeferredM()", "\tscGo()", "\tscGoM()", "\tscDeferSink()", "\tscGoSink()", "\tscClosure()",
             "\tscClosureM(t)", "\tscOther(t, %s%s{})" % (q, U), "\tscOps()", "\tuse(scErr(errT{}, \"x\"))", "\tscNonCall(make(%sSCh, 1))" % q, "}", ""]
    open(os.path.join(d, "main.go"), "w").write("\n".join(main))
    lay.noncall = nc
    return scen, ops


# ---------------------------------------------------------------------------------------------------- specifications
def pick(rnd, pool, empty_weight=0):
    k = rnd(len(pool) + empty_weight)
    return "" if k >= len(pool) else pool[k]


def gen_problems(rnd, lay, nprob):
    """taint problems (one list of identifiers per role) and slicing problems"""
    P, M, pn, n = lay.P, lay.mod, lay.pn, lay.n
    last = P.split("/")[-1]
    pkg_pool = [P, "^" + esc(P) + "$", "^" + P + "$", last, "^" + esc(M), P[1:], "package " + P, "^package ", "age " + P[:2],
                M, "^" + esc(M) + "$", "nomatch", ".*", "(" + esc(P) + "|zz)", pn, "^" + esc(pn) + "$", esc(P) + "$",
                "^" + esc(P)]

    def name_pool(base):
        nm, mn = n[base], n["M" + base]
        return [nm, "^" + nm + "$", "^" + nm, nm + "$", base, "^(" + nm + "|" + mn + ")$", "^M?" + base, mn, "^" + mn + "$",
                "\\$bound", mn + "\\$thunk$", "^f$", "^(f|fs|fk)$", "^t[0-9]+$", "nomatch", "Other", "^" + n["Gen"] + "$",
                n["Gen"], "^[A-Z][A-Za-z0-9_]*$"]
    recv_pool = [lay.T, "^" + lay.T + "$", "\\*", lay.U, "^" + lay.U + "$", lay.I, "^" + lay.I + "$", esc(P) + "\\." + lay.I,
                 "^t[0-9]+$", "^(i|j|t)$", lay.J, "^$", ".*"]
    ctx_pool = ["main", "^" + esc(M) + "\\.sc", "\\$1$", "scStatic", "scMethod", "fv(Src|Snk)", "nomatch", "^$", esc(M) + "\\.sc[A-Z]"]
    vm_pool = ["invoke", "^defer ", "^go ", "\\(t[0-9]+\\)", n["Snk"], "nomatch", "^t[0-9]+\\(", "\\$thunk"]
    probs = []
    for pi in range(nprob):
        prob = {}
        for role, base in [("source", "Src"), ("sink", "Snk"), ("sanitizer", "San"), ("validator", "Val")]:
            specs = []
            for _ in range(1 + (1 if rnd(5) == 0 else 0) + (1 if rnd(9) == 0 else 0)):
                s = {}
                style = rnd(10)
                s["package"] = pick(rnd, pkg_pool, 2)
                s["method"] = pick(rnd, name_pool(base), 1)
                if style >= 5:
                    s["receiver"] = pick(rnd, recv_pool, 6)
                if style >= 7:
                    s["context"] = pick(rnd, ctx_pool, 8)
                    s["value-match"] = pick(rnd, vm_pool, 10)
                if style == 9:
                    s["field"] = pick(rnd, [".*", "^$", "F"], 3)
                    s["type"] = pick(rnd, [".*", "^$", "T"], 3)
                    s["kind"] = pick(rnd, ["store", "channel receive", "bogus"], 6)
                if role == "sink" and rnd(6) == 0:
                    s = {"package": pick(rnd, [P, last, "", ".*", "^" + esc(P) + "$", M], 0),
                         "interface": pick(rnd, [lay.I, lay.J, "^" + lay.I + "$", lay.I + "$", "nomatch"], 0)}
                specs.append({k: v for k, v in s.items() if v != ""})
            prob[role] = specs
        probs.append(prob)
    # type-kind identifiers
    tpkg = [pn, P, "^" + esc(pn) + "$", "^" + esc(P) + "$", "", "main", last, M, "^" + esc(M) + "$", "^$"]
    ttype = [lay.T, "^" + lay.T + "$", "^\\*" + lay.T + "$", "\\*" + lay.T, lay.U, lay.Ch, "chan " + lay.T, "^chan ", "\\[\\]",
             "map\\[string\\]", "^\\*\\[3\\]", "error", ".*", "^\\*error$", "^error$", "local", "^\\*\\[\\]"]
    tfield = ["F", "^F$", "G", "H", "^(F|G)$"]
    tops = []
    for pi in range(max(6, nprob // 2)):
        prob = {}
        for role in ROLES_T:
            specs = []
            if role in ("source", "sink"):
                for _ in range(1 + (1 if rnd(6) == 0 else 0)):
                    s = {"package": pick(rnd, tpkg, 0), "type": pick(rnd, ttype, 1), "field": pick(rnd, tfield, 4),
                         "kind": pick(rnd, ["store", "channel receive"], 2 if role == "source" else 0) if rnd(3) else
                         ("store" if role == "sink" else ""), "context": pick(rnd, ["scOps", "getF", "nomatch"], 12)}
                    specs.append({k: v for k, v in s.items() if v != ""})
            prob[role] = specs
        tops.append(prob)
    taint = probs + tops
    slicing = []
    for p in taint:
        bp = [dict(s) for s in (p["sink"] if rnd(3) else p["source"])]
        bp = [s for s in bp if "interface" not in s] or [{"package": P, "method": n["Snk"]}]
        slicing.append({"backtrace": bp})
    return taint, slicing


def config_json(taint, slicing):
    return json.dumps({"log-level": 1,
                       "taint-tracking-problems": [{CFGKEY[r]: p.get(r, []) for r in ROLES_T} for p in taint],
                       "slicing-problems": [{CFGKEY["backtrace"]: p["backtrace"]} for p in slicing]}, indent=1)


# ---------------------------------------------------------------------------------------------------- regex table
class Rx:
    """verdicts of Go's regexp (MatchString of the compiled pattern), obtained from `c04dump -regex`"""

    def __init__(self, work):
        self.t = {}
        self.work = work
        self.queries = 0

    def ensure(self, pairs):
        need = sorted(set(p for p in pairs if p not in self.t))
        if not need:
            return
        inp = os.path.join(self.work, "rx_in.json")
        outp = os.path.join(self.work, "rx_out.json")
        json.dump([list(p) for p in need], open(inp, "w"))
        rc, out = vlib.sh([os.path.join(vlib.BIN, "c04dump"), "-regex", inp, "-o", outp], timeout=300)
        if rc != 0:
            raise vlib.BuildError("c04dump -regex failed", out)
        res = json.load(open(outp))
        for p, r in zip(need, res):
            if r == 2:
                raise vlib.BuildError("generated pattern does not compile: %r" % (p[0],), "")
            self.t[p] = (r == 1)
        self.queries += len(need)

    def m(self, pat, s):
        return self.t[(pat, s)]


def cid_get(c, f):
    return c.get(f, "")


def ideal_pairs(specs, ids):
    return [(cid_get(sp, f), cid_get(c, f)) for sp in specs for c in ids for f in REGEX_FIELDS if cid_get(sp, f) != ""]


def match_ideal(rx, sp, c):
    for f in REGEX_FIELDS:
        p = cid_get(sp, f)
        if p != "" and not rx.m(p, cid_get(c, f)):
            return False
    return cid_get(sp, "kind") == cid_get(c, "kind")


def classify_ideal(rx, specs, ids):
    return any(match_ideal(rx, sp, c) for c in ids for sp in specs)


# ---------------------------------------------------------------------------------------------------- model input
def o(s):
    return "-" if s is None else "+" + s


def clean(s):
    assert "\t" not in s and "\n" not in s, repr(s)
    return s


def spec_line(role, sp, compiled=True):
    return "\t".join(["SP", role, "1" if compiled else "0"] + [clean(cid_get(sp, f)) for f in FIELDS])


def cid_line(tag, c):
    return "\t".join([tag] + [clean(cid_get(c, f)) for f in FIELDS])


def fn_cols(f):
    if f is None:
        return ["-", "", "", ""]
    return ["+", f["pkg"], f["name"], f["str"]]


def ty_cols(t):
    ws = []
    while t["k"] in ("ptr", "slice", "chan", "array", "map"):
        if t["k"] == "array":
            ws.append("array=%d" % t.get("n", 0))
        elif t["k"] == "map":
            ws.append("map=" + t.get("key", ""))
        else:
            ws.append(t["k"])
        t = t["e"]
    assert all("|" not in w for w in ws)
    return ["|".join(ws), t["k"], o(t.get("pkgname")), o(t.get("pkgpath")), t.get("name", "")]


def alias_lines(al):
    return ["\t".join(["A", "1" if a["vkind"] == "*ssa.Function" else "0", a["name"], o(a["pkg"])]) for a in al]


def site_lines(sid, s):
    al = s["aliases"] if s["has_query"] else None
    L = ["\t".join(["SITE", sid, s["instr"], "1" if s["invoke"] else "0", s["value_name"], s["parent"], o(s["static_pkg"]),
                    o(s["inv_pkg"]), s["inv_method"], s["recv_type"], o(s["sig_recv"]), clean(s["str"]),
                    str(len(al)) if al is not None else "-1"])]
    if al is not None:
        L += alias_lines(al)
    return L


def run_model(model, rx, body, work, tag):
    """runs the extracted model with the regex table as rmatch; pairs it asks for and that are not in the table yet are
    obtained from Go's regexp and the model is re-run"""
    for _ in range(20):
        table = "".join("R\t%s\t%s\t%d\n" % (clean(p), clean(s), 1 if v else 0) for (p, s), v in rx.t.items())
        open(os.path.join(work, tag + ".in"), "w").write(table + body)
        rc, mout, merr = vlib.sh2([model], inp=table + body, timeout=600)
        if rc != 0:
            raise vlib.BuildError("c04model failed on %s" % tag, merr[-3000:])
        miss = [tuple(l.split("\t")[1:3]) for l in mout.split("\n") if l.startswith("MISSING\t")]
        if not miss:
            open(os.path.join(work, tag + ".out"), "w").write(mout)
            return mout
        rx.ensure(miss)
    raise vlib.BuildError("regex table did not converge", "")


# ---------------------------------------------------------------------------------------------------- known deviations
def finding_key(role, site, scn, specs, impl):
    """stable key of the input class of a deviation impl != ideal that the faithful model reproduces (impl == model);
    anything that falls through to an `unexplained` key is not a listed finding"""
    form = scn["form"] if scn else "?"
    has = lambda f: any(sp.get(f, "") != "" for sp in specs)  # noqa: E731
    method_callee = any(c["recv"] for c in scn["callees"])
    if form == "extra:GenericInst":
        return "generic-instance"
    if role in ("source", "backtrace"):
        if site["instr"] in ("go", "defer"):
            return "entry-defer-go"
        if form in ("MethodValue", "MethodExpr"):
            return "method-wrapper-entry"
        if has("value-match"):
            return "entry-valuematch-empty"
        if form == "FuncValue":
            return "funcvalue-context-empty" if has("context") else "funcvalue-package-string"
        if site["invoke"]:
            return "invoke-receiver-register" if has("receiver") else "invoke-interface-package"
        if has("receiver") and method_callee:
            return "entry-receiver-empty"
        if has("context"):
            # static call of an address-taken function: its points-to candidate has an empty Context (same cause as for
            # function values), e.g. `context: "^$"` identifies the call
            return "funcvalue-context-empty"
        return "static-alias-candidate"
    # sink / sanitizer / validator
    if form in ("MethodValue", "MethodExpr"):
        return "method-wrapper-name"
    if form == "FuncValue":
        return "funcvalue-validator" if role == "validator" else "funcvalue-callee-variable-name"
    if site["invoke"]:
        return "invoke-receiver-type-string" if has("receiver") else "invoke-interface-package"
    if impl and role != "validator" and (has("receiver") or has("context")):
        return "arg-param-candidate"
    return "unexplained:%s:%s" % (role, form)


# ---------------------------------------------------------------------------------------------------- one layout
def prepare_layout(chk, li, work, tier):
    """generates the program and the configs of layout li and runs the dumper on them (thread-safe)"""
    rnd = vlib.lcg(chk.seed * 7919 + li * 104729 + 17)
    lay = Layout(rnd, li)
    d = os.path.join(work, "prog%d" % li)
    shutil.rmtree(d, ignore_errors=True)
    scen, opsx = gen_program(lay, d)
    nprob = 40 if tier == "quick" else 160
    taint, slicing = gen_problems(rnd, lay, nprob)
    # problem 0 doubles as the end-to-end problem
    n, P = lay.n, lay.P
    e2e = {"source": [{"package": "^" + esc(P) + "$", "method": "^(%s|%s)$" % (n["Src"], n["MSrc"])}],
           "sink": [{"package": esc(P) + "$", "method": "^(%s|%s)$" % (n["Snk"], n["MSnk"])}], "sanitizer": [], "validator": []}
    # order of the problems in the configuration: identifiers of the type kinds (field / alloc / store / receive) come
    # first, in the middle and last but one; call problems in between and last; the end-to-end call problem in the middle
    ncall = nprob
    call_idx = list(range(ncall))
    type_idx = list(range(ncall, len(taint)))
    h = ncall // 2
    tail = [type_idx[-1], call_idx[-1]] if li % 2 == 0 else [call_idx[-1], type_idx[-1]]
    order = [type_idx[0]] + call_idx[:h] + type_idx[1:-1] + ["e2e"] + call_idx[h:-1] + tail
    taint = [e2e if k == "e2e" else taint[k] for k in order]
    slicing = [{"backtrace": e2e["sink"]} if k == "e2e" else slicing[k] for k in order]
    e2e_idx = order.index("e2e")
    if li % 2 == 1:
        # make sure the LAST problem of this layout selects field reads, receives, allocations and a field store
        tpn = "^" + esc(lay.pn) + "$"
        taint[-1] = {"source": [{"package": tpn, "type": lay.T, "field": "^F$"}, {"package": tpn, "type": "^chan ", "kind": "channel receive"},
                                {"package": tpn, "type": "^\\*" + lay.U + "$"}],
                     "sink": [{"type": lay.T, "field": "^G$", "kind": "store"}], "sanitizer": [], "validator": []}
    cfgp = os.path.join(work, "config%d.yaml" % li)
    open(cfgp, "w").write(config_json(taint, slicing))
    e2ep = os.path.join(work, "e2e%d.yaml" % li)
    # the end-to-end configuration has three problems: the NON-CALL identifiers (field read, channel receive, allocation
    # as sources, field store as sink) come first, the call problem in the middle, a decoy last - the position of a
    # problem in the configuration must not matter
    tp = "^" + esc(lay.pn) + "$"
    noncall = {"source": [{"package": tp, "type": "^\\*W$", "field": "^F$"},
                          {"package": tp, "type": "^SCh$", "kind": "channel receive"},
                          {"package": tp, "type": "^\\*V$"}],
               "sink": [{"package": tp, "type": "^\\*W$", "field": "^G$", "kind": "store"},
                        {"package": "^" + esc(P) + "$", "method": "^Dump$"}], "sanitizer": [], "validator": []}
    decoy = {"source": [{"package": "nomatch", "method": "nomatch"}], "sink": [{"package": "nomatch", "method": "nomatch"}],
             "sanitizer": [], "validator": []}
    open(e2ep, "w").write(config_json([noncall, e2e, decoy], []))
    dump = os.path.join(work, "dump%d.json" % li)
    rc, out = vlib.sh([os.path.join(vlib.BIN, "c04dump"), "-dir", d, "-config", cfgp, "-e2e", e2ep, "-o", dump], timeout=900)
    return dict(lay=lay, d=d, scen=scen, opsx=opsx, taint=taint, slicing=slicing, e2e=e2e, cfgp=cfgp, e2ep=e2ep, dump=dump,
                rc=rc, out=out, li=li, e2e_idx=e2e_idx)


def run_layout(chk, ctx, work, model, stats, distinct, tier):
    lay, d, scen, opsx, taint, slicing, e2e = (ctx[k] for k in ("lay", "d", "scen", "opsx", "taint", "slicing", "e2e"))
    cfgp, e2ep, dump, li, e2e_idx = ctx["cfgp"], ctx["e2ep"], ctx["dump"], ctx["li"], ctx["e2e_idx"]
    if ctx["rc"] != 0:
        raise vlib.BuildError("c04dump failed on layout %d (%s)" % (li, lay.P), ctx["out"])
    D = json.load(open(dump))
    nT, nS = D["ntaint"], D["nslice"]
    assert nT == len(taint) and nS == len(slicing), (nT, nS)
    fvp = D.get("fvp") or []
    if fvp and all(g == p for p, g in fvp):
        fv_mode = "path"
    else:
        fv_mode = "pkgstring"
        if fvp and not all(g == "package " + p for p, g in fvp):
            chk.notes.append("FindValuePackage returns neither the path nor 'package <path>': %s" % fvp[:2])
    stats["fvpkg_mode"] = fv_mode
    rx = Rx(work)

    # ---- model input
    L = ["FVPKG\t" + fv_mode]
    for p in taint:
        L.append("PT")
        for r in ROLES_T:
            L += [spec_line(r, sp) for sp in p.get(r, [])]
    for p in slicing:
        L.append("PS")
        L += [spec_line("backtrace", sp) for sp in p["backtrace"]]
    for im in D["impls"] or []:
        L.append("\t".join(["IMPL", im["key"], str(len(im["impls"]))]))
        for f in im["impls"]:
            # the type string of the first parameter of a method = its receiver type
            L.append("\t".join(["I", f["pkg"], f["name"], f["str"], f["recv"]]))
    sites = {}
    ideal_ids = {}
    for k, s in enumerate(D["sites"]):
        sid = "s%d" % k
        sites[sid] = s
        L += site_lines(sid, s)
        for j, nd in enumerate(s["nodes"] or []):
            L.append("\t".join(["NODE", sid, str(j)] + fn_cols(nd["callee"]) + fn_cols(nd["param_fn"])))
        scn = scen.get((s["file"], s["line"]))
        if scn is None:
            continue
        s["_scn"] = scn
        form = scn["form"]
        # identities the property speaks about: every possible callee (+ the interface method for an invoke)
        ids = [{"context": s["parent"], "package": c["pkg"], "method": c["name"], "receiver": c["recv"], "value-match": s["str"]}
               for c in scn["callees"]]
        if "iface" in scn:
            ids.append({"context": s["parent"], "package": scn["iface_pkg"], "method": scn["callees"][0]["name"],
                        "receiver": scn["iface"], "value-match": s["str"]})
        ideal_ids[sid] = ids
        if not form.startswith("extra:"):
            c = scn["callees"][0]
            others = [{"vkind": "*ssa.Function", "name": x["name"], "pkg": x["pkg"]} for x in scn["callees"][1:]]
            L.append("\t".join(["FORM", sid, form, c["pkg"], c["name"], c["recv"], c["recv_type"], c["str"], s["parent"],
                                s["value_name"], clean(s["str"]), "1" if s["has_query"] else "0", scn.get("iface_pkg", ""),
                                scn.get("iface_type", ""), str(len(others))]))
            L += alias_lines(others)
        for role in ROLES_T + ["backtrace"]:
            L.append("\t".join(["IDS", sid, role, str(len(ids))]))
            L += [cid_line("C", c) for c in ids]
    ops = {}
    for k, op in enumerate(D["ops"]):
        if op["op"] == "store-other" or op["ty"] is None:
            continue
        oid = "o%d" % k
        ops[oid] = op
        L.append("\t".join(["OP", oid, op["op"], op["parent"], op["field"]] + ty_cols(op["ty"])))
    for k, f in enumerate(D["funcs"]):
        L.append("\t".join(["FN", "f%d" % k, f["fn"]["pkg"], f["fn"]["name"], f["fn"]["str"]]))
    L.append("X")
    body = "\n".join(L) + "\n"
    # seed the regex table with (pattern of field f) x (strings a candidate can carry in field f); whatever else the
    # model asks for is added by run_model
    S = {f: {""} for f in REGEX_FIELDS}
    for s in D["sites"]:
        S["context"].add(s["parent"])
        for x in [s["static_pkg"], s["inv_pkg"]] + [a["pkg"] for a in s["aliases"] or []]:
            if x is not None:
                S["package"] |= {x, "package " + x}
        S["method"] |= {s["value_name"], s["inv_method"]} | {a["name"] for a in s["aliases"] or []}
        S["receiver"] |= {s["value_name"], s["recv_type"]}
        if s["sig_recv"]:
            S["receiver"].add(s["sig_recv"].replace("*", "").split(".")[-1])
        S["value-match"].add(s["str"])
        for nd in s["nodes"] or []:
            for f in (nd["callee"], nd["param_fn"]):
                if f:
                    S["package"].add(f["pkg"])
                    S["method"].add(f["name"])
                    S["value-match"].add(f["str"])
    for f in D["funcs"]:
        S["package"].add(f["fn"]["pkg"])
        S["method"].add(f["fn"]["name"])
    for op in D["ops"]:
        S["context"].add(op["parent"])
        S["field"].add(op["field"])
    allspecs = [sp for p in taint for r in ROLES_T for sp in p.get(r, [])] + [sp for p in slicing for sp in p["backtrace"]]
    seed = set()
    for sp in allspecs:
        for f in REGEX_FIELDS:
            if sp.get(f, "") != "":
                seed |= {(sp[f], x) for x in S[f]}
        if sp.get("interface", "") != "":
            seed.add((sp.get("package", ""), ""))
    for sid, ids in ideal_ids.items():
        seed |= set(ideal_pairs(allspecs, ids))
    rx.ensure(seed)
    mo = run_model(model, rx, body, work, "model%d" % li)
    M = {"E": {}, "N": {}, "O": {}, "F": {}, "X": {}, "FORMCHK": {}, "ID": {}}
    for l in mo.split("\n"):
        p = l.split("\t")
        if p[0] == "E":
            M["E"][p[1]] = p[2:]
        elif p[0] == "N":
            M["N"][(p[1], int(p[2]))] = p[3:]
        elif p[0] == "O":
            M["O"][p[1]] = p[2:]
        elif p[0] == "F":
            M["F"][p[1]] = p[2]
        elif p[0] == "X":
            M["X"].setdefault(int(p[1]), []).append(tuple(p[3:]))
        elif p[0] == "FORMCHK":
            M["FORMCHK"][p[1]] = p[2:]
        elif p[0] == "ID":
            M["ID"][(p[1], p[2])] = p[3]

    found = [False]

    def replay(key, what, detail):
        rd = chk.replay_dir(key)
        shutil.copytree(d, os.path.join(rd, "prog"))
        shutil.copy(cfgp, rd)
        shutil.copy(e2ep, rd)
        with open(os.path.join(rd, "replay.txt"), "w") as f:
            f.write(what + "\n\n" + json.dumps(detail, indent=1, default=str) + "\n\nre-run:\n  build/bin/c04dump -dir %s/prog "
                    "-config %s/%s -e2e %s/%s -o /tmp/dump.json   (problem indices refer to the config's lists)\n"
                    "  or: tools/check.py C04 --replay %s\n" % (rd, rd, os.path.basename(cfgp), rd, os.path.basename(e2ep), rd))
        return rd

    def violate(key, what, detail):
        if chk.violation(key, what, "") is False:
            stats["known"][key] = stats["known"].get(key, 0) + 1
            if len(stats["known_examples"].setdefault(key, [])) < 2:
                stats["known_examples"][key].append(what[:300])
            return
        chk.viol.pop()
        found[0] = True     # a concrete failing input that is not a listed finding
        stats["violations"][key] = stats["violations"].get(key, 0) + 1
        if stats["violations"][key] == 1:
            chk.violation(key, what, replay(key, what, detail))

    def specs_of(role, pi):
        return (slicing[pi]["backtrace"] if role == "backtrace" else taint[pi].get(role, []))

    # ---- interface expansion: model vs the sink lists after the real preamble
    for pi in range(nT):
        real = sorted(tuple(c.get(f, "") for f in FIELDS) for c in (D["sinks_post"][pi] or []))
        mod = sorted(M["X"].get(pi, []))
        stats["evaluations"] += 1
        if real != mod:
            stats["model_mismatch"] += 1
            violate("unexplained:interface-expansion", "sink list after populateConfigInterfaces differs from the model for problem %d" % pi,
                    {"layout": lay.P, "problem": taint[pi], "real": real, "model": mod})

    # ---- python ideal: collect the regex pairs first
    pairs = []
    for sid, ids in ideal_ids.items():
        for pi in range(nT):
            for r in ROLES_T:
                pairs += ideal_pairs(taint[pi].get(r, []), ids)
        for pi in range(nS):
            pairs += ideal_pairs(slicing[pi]["backtrace"], ids)
    rx.ensure(pairs)

    def bit(s, i):
        return s[i] == "1" if s else False

    # ---- call sites
    for sid, s in sites.items():
        scn = s.get("_scn")
        me = M["E"][sid]
        impl_e = [s["src"], s["bt"], s["val"] or "0" * nT, s["dir_sink"], s["entry_sink"], "1" if s["noi"] else "0"]
        # config-wide oracles: IsNodeOfInterest (IsSomeSource / IsSomeSink of the real Config) must hold iff SOME problem,
        # in whatever position, accepts the instruction as source or (entry-candidate) sink
        noi_spec = ("1" in s["src"]) or ("1" in s["entry_sink"])
        stats["noi_checked"] += 1
        if s["noi"] != noi_spec:
            violate("unexplained:node-of-interest:call", "IsNodeOfInterest(%s) = %s but the per-problem oracles say %s (problems accepting it: sources %s, sinks %s)"
                    % (s["pos"], s["noi"], noi_spec, [i for i, c in enumerate(s["src"]) if c == "1"], [i for i, c in enumerate(s["entry_sink"]) if c == "1"]),
                    {"layout": lay.P, "site": {k: v for k, v in s.items() if not k.startswith("_")}})
        # (b) tie: faithful model == impl on every observable, for every site (scenario or not)
        for name, a, b in zip(["source", "backtrace", "validator", "sink-direct", "entry-sink", "node-of-interest"], impl_e, me):
            stats["evaluations"] += len(a)
            if name == "validator" and s["instr"] != "call":
                continue
            if a != b:
                stats["model_mismatch"] += 1
                s.setdefault("_mm", set()).add(name)
        for j, nd in enumerate(s["nodes"] or []):
            mn = M["N"][(sid, j)]
            arg_sink = nd["arg_sink"] or []
            arg_san = nd["arg_san"] or []
            obs = [(nd["sink"], mn[0], "sink"), (nd["san"], mn[1], "sanitizer")] + \
                  [(a, mn[2], "sink") for a in arg_sink] + [(a, mn[3], "sanitizer") for a in arg_san]
            for a, b, name in obs:
                stats["evaluations"] += len(a)
                if a != b:
                    stats["model_mismatch"] += 1
                    s.setdefault("_mm", set()).add(name)
        if scn is None:
            if s.get("_mm"):
                violate("unexplained:site:" + "+".join(sorted(s["_mm"])),
                        "classification of %s (%s) differs from the faithful model" % (s["pos"], s["str"]),
                        {"layout": lay.P, "site": s, "model_E": me})
            continue
        form = scn["form"]
        stats["forms"][form] = stats["forms"].get(form, 0) + 1
        # (c) the form table of the model (site_of) reproduces the real SSA shape
        fc = M["FORMCHK"].get(sid)
        if fc is not None:
            stats["formchk"] += 1
            okc = fc[0] == "ok"
            want_nodes = sorted((nd["callee"] or {}).get("name", "") for nd in s["nodes"] or [])
            if okc and len(scn["callees"]) == 1 and want_nodes and fc[2] not in want_nodes:
                okc = False
                fc[0] = "diff:node_callee(%s not in %s)" % (fc[2], want_nodes)
            if not okc:
                stats["formchk_bad"] += 1
                violate("unexplained:form-shape:" + form, "the SSA shape of form %s at %s is not what Model/CodeId.v site_of says: %s"
                        % (form, s["pos"], fc[0]), {"layout": lay.P, "site": s, "scenario": scn})
        ids = ideal_ids[sid]
        # effective sink / sanitizer verdict of the call: any argument node (or the call node when it has no argument)
        def eff(field_arg, field_node, mi_arg, mi_node):
            impl, mod = [], []
            for pi in range(nT):
                iv = mv = False
                for j, nd in enumerate(s["nodes"] or []):
                    mn = M["N"][(sid, j)]
                    args = nd[field_arg] or []
                    if args:
                        iv = iv or any(bit(a, pi) for a in args)
                        mv = mv or bit(mn[mi_arg], pi)
                    else:
                        iv = iv or bit(nd[field_node], pi)
                        mv = mv or bit(mn[mi_node], pi)
                impl.append(iv)
                mod.append(mv)
            return impl, mod
        sink_i, sink_m = eff("arg_sink", "sink", 2, 0)
        san_i, san_m = eff("arg_san", "san", 3, 1)
        per_role = {"source": ([bit(s["src"], i) for i in range(nT)], [bit(me[0], i) for i in range(nT)]),
                    "backtrace": ([bit(s["bt"], i) for i in range(nS)], [bit(me[1], i) for i in range(nS)]),
                    "sink": (sink_i, sink_m), "sanitizer": (san_i, san_m)}
        if s["instr"] == "call":
            per_role["validator"] = ([bit(s["val"], i) for i in range(nT)], [bit(me[2], i) for i in range(nT)])
        for role, (impl, mod) in per_role.items():
            for pi in range(len(impl)):
                specs = specs_of(role, pi)
                if not specs:
                    continue
                if any(sp.get("interface", "") != "" for sp in specs):
                    # interface identifiers are outside the property's statement (they are expanded to implementations by
                    # populateConfigInterfaces): tie to the model only (raw observables above, expansion, bare matcher)
                    stats["interface_spec_cases"] += 1
                    continue
                idl = classify_ideal(rx, specs, ids)
                stats["ideal_evals"] += 1
                # cross-check of the two implementations of the executable spec (Python, extracted Coq)
                if bit(M["ID"][(sid, role)], pi) != idl:
                    violate("unexplained:ideal-cross-check", "extracted classify_ideal and the Python spec disagree", {"site": s, "specs": specs})
                if impl[pi] or idl:
                    distinct.add((lay.kind, form, role, json.dumps(specs, sort_keys=True), impl[pi], idl))
                if impl[pi] == idl:
                    stats["agree"] += 1
                    if impl[pi]:
                        stats["agree_pos"] += 1
                        if stats["agree_pos"] % 97 == 1:
                            chk.sample({"form": form, "role": role, "layout": lay.P, "specs": specs, "pos": s["pos"],
                                        "instr": s["str"], "impl": True, "ideal": True, "model": mod[pi]}, limit=4)
                    if mod[pi] != impl[pi]:
                        stats["stale"] += 1       # implementation closer to the spec than the faithful model: no alarm
                        stats["stale_forms"][form + "/" + role] = stats["stale_forms"].get(form + "/" + role, 0) + 1
                    continue
                stats["deviations"] += 1
                detail = {"layout": lay.P, "form": form, "role": role, "problem_index": pi, "specifications": specs,
                          "site": {k: v for k, v in s.items() if not k.startswith("_")}, "possible_callees": scn["callees"],
                          "identities": ids, "impl": impl[pi], "ideal": idl, "faithful_model": mod[pi]}
                if stats["deviations"] % 211 == 1:
                    chk.sample({"form": form, "role": role, "layout": lay.P, "specs": specs, "pos": s["pos"], "instr": s["str"],
                                "impl": impl[pi], "ideal": idl, "model": mod[pi]}, limit=8)
                if mod[pi] != impl[pi]:
                    violate("unexplained:%s:%s" % (role, form),
                            "%s %s at %s: implementation says %s, the property (callee %s matched by %s) says %s; the faithful model says %s"
                            % (form, role, s["pos"], impl[pi], scn["callees"][0]["str"], json.dumps(specs), idl, mod[pi]), detail)
                else:
                    key = finding_key(role, s, scn, specs, impl[pi])
                    violate(key, "%s %s at %s (%s): implementation %s, property %s for %s" %
                            (form, role, s["pos"], lay.P, impl[pi], idl, json.dumps(specs)), detail)
        if s.get("_mm"):
            # raw observables differ from the model although the effective verdicts were explained above
            violate("unexplained:site:" + form + ":" + "+".join(sorted(s["_mm"])),
                    "raw classification of %s (%s) differs from the faithful model" % (s["pos"], s["str"]),
                    {"layout": lay.P, "site": {k: v for k, v in s.items() if not k.startswith("_")}, "model_E": me,
                     "model_N": [M["N"][(sid, j)] for j in range(len(s["nodes"] or []))]})

    # ---- functions as backtrace entry points
    for k, f in enumerate(D["funcs"]):
        stats["evaluations"] += nS
        if f["bt"] != M["F"]["f%d" % k]:
            stats["model_mismatch"] += 1
            violate("unexplained:function-backtrace-point", "IsInterProceduralEntryPoint(%s) differs from the model" % f["fn"]["str"],
                    {"layout": lay.P, "fn": f, "model": M["F"]["f%d" % k]})

    # ---- type kinds
    seen_ops = set()
    for oid, op in ops.items():
        mo_ = M["O"][oid]
        key = (op["file"], op["line"])
        inscn = key in opsx and op["op"] in opsx[key]
        seen_ops.add((key, op["op"]))
        for name, a, b, idl in [("source", op["src"], mo_[0], mo_[3]), ("sink", op["sink"], mo_[1], mo_[4]),
                                ("backtrace", op["bt"], mo_[2], mo_[5])]:
            stats["evaluations"] += len(a)
            for pi in range(len(a)):
                specs = specs_of(name, pi)
                if not specs:
                    continue
                if a[pi] == "1" or idl[pi] == "1":
                    distinct.add((lay.kind, "op:" + op["op"], name, json.dumps(specs, sort_keys=True), a[pi], idl[pi]))
                if a[pi] != b[pi] and a[pi] != idl[pi]:
                    stats["model_mismatch"] += 1
                    violate("unexplained:type-kind:%s:%s" % (op["op"], name),
                            "%s at %s as %s: implementation %s, model %s, property %s for %s" % (op["op"], op["pos"], name, a[pi], b[pi], idl[pi], json.dumps(specs)),
                            {"layout": lay.P, "op": op, "specifications": specs})
                elif a[pi] != idl[pi]:
                    stats["deviations"] += 1
                    violate("type-package-name", "%s of %s at %s as %s: implementation %s, property (package PATH of the named type) %s for %s"
                            % (op["op"], op["str"], op["pos"], name, a[pi], idl[pi], json.dumps(specs)),
                            {"layout": lay.P, "op": op, "specifications": specs})
                else:
                    stats["agree"] += 1
                    if a[pi] == "1":
                        stats["agree_pos"] += 1
                    if a[pi] != b[pi]:
                        stats["stale"] += 1
        noi_spec = ("1" in op["src"]) or ("1" in op["entry_sink"])
        stats["noi_checked"] += 1
        if op["noi"]:
            stats["noi_true"] += 1
            stats["noi_positions"].update(("first" if i == 0 else "last" if i == nT - 1 else "middle")
                                          for i, c in enumerate(op["src"]) if c == "1" or op["entry_sink"][i] == "1")
        if op["noi"] != noi_spec or op["noi"] != bool(op.get("synthetic_node")):
            violate("unexplained:node-of-interest:" + op["op"],
                    "%s at %s: IsNodeOfInterest = %s, graph node present = %s, but the per-problem oracles say %s (accepting problems: sources %s, sinks %s of %d)"
                    % (op["op"], op["pos"], op["noi"], bool(op.get("synthetic_node")), noi_spec, [i for i, c in enumerate(op["src"]) if c == "1"],
                       [i for i, c in enumerate(op["entry_sink"]) if c == "1"], nT), {"layout": lay.P, "op": op})
        if op["entry_sink"] != mo_[6] or ("1" if op["noi"] else "0") != mo_[7]:
            stats["model_mismatch"] += 1
            violate("unexplained:type-kind:%s:node-of-interest" % op["op"], "entry-sink / node-of-interest verdicts of %s at %s differ from the model"
                    % (op["op"], op["pos"]), {"layout": lay.P, "op": op, "model": mo_})
        if op.get("synthetic_node") and op["syn_sink"] != op["sink"]:
            violate("unexplained:synthetic-node-sink", "isSink on the synthetic node of %s differs from the instruction-level verdict" % op["pos"],
                    {"op": op})
    missing_ops = [(k, kk) for k, kinds in opsx.items() for kk in kinds if (k, kk) not in seen_ops]
    if missing_ops:
        chk.notes.append("layout %d: generated operations without a matching SSA instruction: %s" % (li, missing_ops[:5]))
    stats["ops"] += len(ops)

    # ---- end to end: flows of taint.Analyze vs the real classification of the call problem (index e2e_idx)
    flows = set()
    for f in D["flows"] or []:
        a, b = f["src_pos"].rsplit(":", 1)[0], f["sink_pos"].rsplit(":", 1)[0]
        flows.add((a, b))
    pairs_ = {}
    for sid, s in sites.items():
        scn = s.get("_scn")
        if scn and scn.get("pair"):
            pairs_.setdefault((s["parent"].split("$")[0] if scn["pair"] in ("a",) else scn["pair"], scn["pair"]), {})[scn["role"]] = (sid, s)
    for (grp, _), pr in sorted(pairs_.items()):
        if "source" not in pr or "sink" not in pr:
            continue
        (ssid, ss), (ksid, ks) = pr["source"], pr["sink"]
        is_src = bit(ss["src"], e2e_idx)
        is_sink = any(bit(a, e2e_idx) for nd in ks["nodes"] or [] for a in (nd["arg_sink"] or []))
        want = is_src and is_sink
        got = ("%s:%d" % (ss["file"], ss["line"]), "%s:%d" % (ks["file"], ks["line"])) in flows
        stats["e2e_pairs"] += 1
        if got:
            stats["e2e_flows"] += 1
        form = ss["_scn"]["form"] + "->" + ks["_scn"]["form"]
        if want != got:
            violate("e2e:" + form, "taint.Analyze %s the flow %s -> %s although the classification says source=%s sink=%s"
                    % ("reports" if got else "does not report", ss["pos"], ks["pos"], is_src, is_sink),
                    {"layout": lay.P, "source_site": {k: v for k, v in ss.items() if not k.startswith("_")},
                     "sink_site": {k: v for k, v in ks.items() if not k.startswith("_")}, "flows": sorted(flows), "e2e_problem": e2e})
    # non-call identifiers in the FIRST of three problems: the flows must be reported
    for label, l1, l2 in lay.noncall:
        stats["e2e_noncall"] += 1
        if ("main.go:%d" % l1, "main.go:%d" % l2) not in flows:
            violate("e2e:noncall:" + label, "taint.Analyze does not report the %s flow main.go:%d -> main.go:%d; the field-read / channel-receive / "
                    "allocation sources and the field-store sink are identifiers of the first of three taint-tracking problems" % (label, l1, l2),
                    {"layout": lay.P, "flows": sorted(flows), "e2e_config": open(e2ep).read()})
        else:
            stats["e2e_noncall_found"] += 1
    if D.get("errors"):
        chk.notes.append("layout %d analysis errors: %s" % (li, D["errors"][:2]))
    stats["sites"] += len(sites)
    stats["scenario_sites"] += len(ideal_ids)
    stats["regex_pairs"] += len(rx.t)
    stats["problems"] += nT + nS
    return found[0], ctx


# ---------------------------------------------------------------------------------------------------- bare matcher tie
def run_matcher(chk, work, model, stats, distinct, tier):
    """equalOnNonEmptyFields / ExistsCid through TaintSpec.Is*, SlicingSpec.IsBacktracePoint, Config.IsSome* on generated
    (specification list, candidate) pairs: each field empty / non-empty, compiled and uncompiled identifiers, all kinds"""
    rnd = vlib.lcg(chk.seed * 31337 + 5)
    vals = ["", "a", "ab", "b", "pkg/x", "x", "store", "T"]
    pats = ["", "a", "^a$", "b", "^ab", "x$", "a|x", ".*", "^$", "pkg", "[a-b]+", "T"]
    kinds = ["", "store", "channel receive", "x"]
    roles = ["source", "sink", "sanitizer", "validator", "backtrace", "some-source", "some-sink", "some-sanitizer",
             "some-validator", "some-backtrace"]
    cases = []
    N = 4000 if tier == "quick" else 40000
    for i in range(N):
        specs = []
        for _ in range(1 + (rnd(3) == 0) + (rnd(7) == 0)):
            sp = {}
            for f in REGEX_FIELDS:
                if rnd(3) == 0:
                    sp[f] = pats[rnd(len(pats))]
            if rnd(3) == 0:
                sp["kind"] = kinds[rnd(len(kinds))]
            specs.append(sp)
        cand = {f: (vals[rnd(len(vals))] if rnd(2) else "") for f in REGEX_FIELDS}
        cand["kind"] = kinds[rnd(len(kinds))] if rnd(2) else ""
        # bias towards near-matches: copy literal patterns of the first specification into the candidate
        if rnd(2):
            for f in REGEX_FIELDS:
                v = specs[0].get(f, "")
                if v and v.isalnum() and rnd(4):
                    cand[f] = v
            if rnd(4):
                cand["kind"] = specs[0].get("kind", "")
        role = roles[rnd(len(roles))]
        case = {"specs": specs, "compiled": rnd(5) != 0, "role": role, "cand": cand}
        if role.startswith("some-"):
            # config-wide oracle: the interesting identifier list is the FIRST, a MIDDLE or the LAST of 1..4 problems
            k = 1 + rnd(4)
            pos = rnd(k)
            probs = []
            for j in range(k):
                if j == pos:
                    probs.append(specs)
                else:
                    probs.append([{f: pats[1 + rnd(len(pats) - 1)] for f in REGEX_FIELDS if rnd(4) == 0} for _ in range(rnd(3))])
            case["problems"] = probs
            case["pos"] = "only" if k == 1 else "first" if pos == 0 else "last" if pos == k - 1 else "middle"
        cases.append(case)
    # systematic part: one field at a time, empty / matching / non-matching, for every field
    for f in FIELDS:
        for pv in ["", "a", "^a$"]:
            for cv in ["", "a", "ba"]:
                for comp in (True, False):
                    for other in ("", "zz"):
                        sp = {f: pv}
                        c = {f: cv}
                        if f != "package":
                            sp["package"] = other
                            c["package"] = other
                        cases.append({"specs": [sp], "compiled": comp, "role": "source", "cand": c})
    # systematic part for the config-wide oracles: call and NON-CALL identifier kinds (field read, allocation of a type,
    # channel receive, field store) in the first / middle / last problem of 2 and 3 problems
    kinds_sc = [({"package": "^pkg$", "method": "^a$"}, {"package": "pkg", "method": "a", "context": "x"}),
                ({"package": "pkg", "type": "^T$", "field": "^a$"}, {"package": "pkg", "type": "T", "field": "a", "context": "x"}),
                ({"package": "pkg", "type": "T"}, {"package": "pkg", "type": "T"}),
                ({"type": "T", "kind": "channel receive"}, {"package": "pkg", "type": "T", "kind": "channel receive"}),
                ({"type": "T", "field": "a", "kind": "store"}, {"package": "pkg", "type": "T", "field": "a", "kind": "store"})]
    for role in [r for r in roles if r.startswith("some-")]:
        for k in (2, 3):
            for pos in range(k):
                for sp, cand in kinds_sc:
                    for filler in ([], [{"method": "zz"}]):
                        for comp in (True, False):
                            if not comp:
                                sp2 = {f: v.strip("^$") for f, v in sp.items()}
                            else:
                                sp2 = sp
                            probs = [([sp2] if j == pos else list(filler)) for j in range(k)]
                            cases.append({"specs": [sp2], "problems": probs, "compiled": comp, "role": role, "cand": cand,
                                          "pos": "first" if pos == 0 else "last" if pos == k - 1 else "middle"})
    inp = os.path.join(work, "match_in.json")
    outp = os.path.join(work, "match_out.json")
    json.dump(cases, open(inp, "w"))
    rc, out = vlib.sh([os.path.join(vlib.BIN, "c04dump"), "-match", inp, "-o", outp], timeout=600)
    if rc != 0:
        raise vlib.BuildError("c04dump -match failed (the matcher crashed?)", out)
    real = json.load(open(outp))
    rx = Rx(work)
    rx.ensure([(p, v) for p in pats for v in set(vals) | {"ba", "zz"}] + [("zz", v) for v in set(vals) | {"ba", "zz"}])
    L = []
    for i, c in enumerate(cases):
        L.append("MB")
        if "problems" in c:
            for j, pl in enumerate(c["problems"]):
                if j:
                    L.append("MP")
                L += [spec_line("tmp", sp, c["compiled"]) for sp in pl]
            L.append(cid_line("MS\t%d" % i, c["cand"]))
        else:
            L += [spec_line("tmp", sp, c["compiled"]) for sp in c["specs"]]
            L.append(cid_line("MC\t%d" % i, c["cand"]))
    mout = run_model(model, rx, "\n".join(L) + "\n", work, "matcher")
    rx.ensure([pp for c in cases if c["compiled"] for pl in c.get("problems", [c["specs"]]) for pp in ideal_pairs(pl, [c["cand"]])])
    mod = {}
    for l in mout.split("\n"):
        p = l.split("\t")
        if p[0] == "M":
            mod[int(p[1])] = int(p[2])
    found = False
    for i, c in enumerate(cases):
        stats["matcher_cases"] += 1
        # the property's reading of one specification list (compiled identifiers): every non-empty field matched by
        # its own pattern, kinds equal
        # for the config-wide oracles: IsSomeX cid <=> EXISTS a problem (in any position) whose list accepts cid
        idl = False
        for pl in c.get("problems", [c["specs"]]):
            if c["compiled"]:
                idl = idl or classify_ideal(rx, pl, [c["cand"]])
            else:
                idl = idl or any(all(sp.get(f, "") in ("", c["cand"].get(f, "")) for f in REGEX_FIELDS)
                                 and sp.get("kind", "") == c["cand"].get("kind", "") for sp in pl)
        if "problems" in c:
            stats["some_cases"] += 1
            if real[i]:
                stats["some_pos"][c["pos"]] = stats["some_pos"].get(c["pos"], 0) + 1
        if real[i] or idl:
            distinct.add(("matcher", json.dumps(c, sort_keys=True)))
        if real[i] == int(idl):
            stats["agree"] += 1
            if real[i] != mod[i]:
                stats["stale"] += 1
            continue
        detail = dict(c, impl=real[i], faithful_model=mod[i], ideal=idl)
        if real[i] != mod[i]:
            stats["model_mismatch"] += 1
            key = "unexplained:config-wide-oracle:" + c["role"] if "problems" in c else "unexplained:matcher"
        else:
            allsp = [sp for pl in c.get("problems", [c["specs"]]) for sp in pl]
            key = "interface-vs-package-regex" if any(sp.get("interface", "") != "" for sp in allsp) else "unexplained:matcher-ideal"
        what = "TaintSpec/SlicingSpec matcher (%s, %s): implementation %s, property %s, model %s for specs %s candidate %s" % (
            c["role"], "compiled" if c["compiled"] else "uncompiled", real[i], idl, mod[i],
            ("problems (in config order) " + json.dumps(c["problems"])) if "problems" in c else json.dumps(c["specs"]), json.dumps(c["cand"]))
        if chk.violation(key, what, "") is False:
            stats["known"][key] = stats["known"].get(key, 0) + 1
        else:
            chk.viol.pop()
            found = True
            stats["violations"][key] = stats["violations"].get(key, 0) + 1
            if stats["violations"][key] > 1:
                continue
            rd = chk.replay_dir(key)
            json.dump([c], open(os.path.join(rd, "case.json"), "w"), indent=1)
            open(os.path.join(rd, "replay.txt"), "w").write(what + "\n\n" + json.dumps(detail, indent=1) +
                                                            "\n\nre-run: build/bin/c04dump -match %s/case.json -o -\n" % rd)
            chk.violation(key, what, rd)
    return found


# ---------------------------------------------------------------------------------------------------- the check
def run(chk):
    tier = chk.tier
    failed = chk.prove("theories/Properties/C04.v")
    vlib.build_harness(["c04dump"])
    model = vlib.build_model("c04")
    work = os.path.join(vlib.BUILD, "c04")
    shutil.rmtree(work, ignore_errors=True)
    os.makedirs(work)
    stats = {"evaluations": 0, "ideal_evals": 0, "agree": 0, "agree_pos": 0, "deviations": 0, "model_mismatch": 0, "stale": 0,
             "sites": 0, "scenario_sites": 0, "ops": 0, "formchk": 0, "formchk_bad": 0, "e2e_pairs": 0, "e2e_flows": 0,
             "regex_pairs": 0, "problems": 0, "interface_spec_cases": 0, "noi_checked": 0, "noi_true": 0, "noi_positions": set(),
             "e2e_noncall": 0, "e2e_noncall_found": 0, "some_cases": 0, "some_pos": {}, "matcher_cases": 0, "forms": {}, "known": {}, "stale_forms": {}, "violations": {},
             "known_examples": {}}
    distinct = set()
    nlay = 3 if tier == "quick" else 9
    from concurrent.futures import ThreadPoolExecutor
    with ThreadPoolExecutor(max_workers=3) as ex:
        futs = [ex.submit(prepare_layout, chk, li, work, tier) for li in range(nlay)]
        found = run_matcher(chk, work, model, stats, distinct, tier)
        for fu in futs:
            f, _ = run_layout(chk, fu.result(), work, model, stats, distinct, tier)
            found = found or f
    chk.proof_broken(failed, found)
    chk.cov["evaluations"] = stats["evaluations"] + stats["matcher_cases"]
    chk.cov["distinct_nontrivial"] = len(distinct)
    chk.cov["rule"] = ("generated programs: 9 call forms (+3 combinations) x {source, sink, sanitizer, validator, backtrace point} sites and "
                       "field/alloc/store/receive instructions, in 3 package layouts (everything in main; sub-package; module path with "
                       "dots/underscores and a package name different from its directory), x seed-generated specification lists "
                       "(anchored/unanchored/alternation patterns per field, each field empty or not, all kinds, interface identifiers), "
                       "plus generated (specification list, candidate) pairs for the bare matcher; evaluations = verdict bits compared with the "
                       "model; non-trivial = the implementation or the property classifies positively; distinct = distinct (layout kind, "
                       "form or instruction kind, role, specification list, verdicts) resp. distinct matcher cases")
    chk.cov["traces_validated_against_impl"] = stats["evaluations"] + stats["matcher_cases"] - stats["model_mismatch"]
    stats["noi_positions"] = sorted(stats["noi_positions"])
    chk.cov["distribution"] = stats
    if stats["stale"]:
        chk.cov["stale_known_finding"] = stats["stale_forms"]
        chk.notes.append("the implementation agrees with the property where the faithful model does not (%d verdicts): a listed finding "
                         "seems repaired; retire the corresponding _refuted lemma" % stats["stale"])
    if stats.get("fvpkg_mode") == "path":
        chk.notes.append("FindValuePackage returns the package path (fix C04-funcvalue-pkgpath applied): the model instance entry_cands pkg_path "
                         "is the faithful one; funcvalue_package_string_refuted no longer describes this tree")
    chk.assumptions += ["Go's regexp (RE2) is trusted: the model's rmatch is the finite table of its verdicts on the (pattern, string) pairs involved",
                        "x/tools SSA construction and the pointer analysis are trusted inputs: descriptors are read off the real SSA / points-to sets; "
                        "the form table site_of of the model is compared with them on every generated site (%d checked, %d differ)"
                        % (stats["formchk"], stats["formchk_bad"]),
                        "the possible callees of a generated site are known by construction (generator ground truth)"]
    return chk.finish()


def replay(chk, path):
    p = os.path.join(path, "replay.txt") if os.path.isdir(path) else path
    print(open(p).read())
    if os.path.isdir(path) and os.path.isdir(os.path.join(path, "prog")):
        vlib.build_harness(["c04dump"])
        cfgs = sorted(f for f in os.listdir(path) if f.startswith("config"))
        e2es = sorted(f for f in os.listdir(path) if f.startswith("e2e"))
        out = os.path.join(path, "dump.json")
        rc, log = vlib.sh([os.path.join(vlib.BIN, "c04dump"), "-dir", os.path.join(path, "prog"), "-config", os.path.join(path, cfgs[0]),
                           "-e2e", os.path.join(path, e2es[0]), "-o", out], timeout=900)
        print("c04dump rc=%d -> %s" % (rc, out))
    return 0
