"""C03 - backtrace reports every backward data flow from a backtrace point.

proof      : coq/theories/Properties/C03.v  (model: Model/Back.v, proofs: Proofs/Back.v)
tie T-dump : harness/cmd/c03dump runs the REAL backtrace.Analyze, dumps the linked graph it walked, the entry points,
             the reported traces and the run's event log (every visit(arg), every addNext push and every popped node
             with its call and closure trace, taken from the analysis' own trace log, so Go's map iteration order is
             observed).  The extracted model (build/bin/c03model) replays the run on the dumped graph with the
             observed order: its push sequence and the contexts of its popped nodes must be identical to the
             implementation's, and so must the trace sets per entry argument.
tie T-cert : the extracted verified checker trace_wfb (Theorem trace_wf) is run on every trace the implementation reported.
spec       : the ideal successor relation of the model (tuple filter and seen-pruning off) is evaluated on every run;
             nodes it reaches that lie on no reported trace are the candidates for a missed flow (evidence only).
search T-gt: generated scenario programs (origin<i>() / constants -> copies, concats, fields, pointers, slices, maps,
             channels, helpers, call chains, closures, globals, interfaces, tuples, deferred / go backtrace points)
             executed natively with marker strings; "marker reaches bt<i> natively and no reported trace of that
             argument contains the origin" is a violation with the program as replay.  The taint analysis with
             source=origin, sink=bt is run on the same programs (forward/backward agreement).
"""
import collections
import concurrent.futures
import os
import re
import shutil

import vlib

CORPUS_QUICK = ["analysis/backtrace/testdata/closures", "analysis/backtrace/testdata/tuples"]
CORPUS_THOROUGH = ["analysis/backtrace/testdata/" + d for d in (
    "backtrace", "basic", "builtins", "closures", "closures_flowprecise", "closures_paper", "defers", "example0",
    "example1", "example2", "fields", "filters", "globals", "implicit-flow", "interface-summaries", "interfaces",
    "intra-procedural", "panics", "parameters", "playground", "selects", "stdlib", "tuples", "validators",
    "with-context")]

# ---------------------------------------------------------------------------------- scenario catalogue
# every shape: name -> function(i, rnd) -> (declarations, body of func s<i>(), params)
# origins are o<i>a(), o<i>b() returning "M<i>a" / "M<i>b"; constants are "K<i>"; the backtrace point is bt<i>.
# `want` is decided by native execution, not by the generator.

def _chain(rnd, v):
    """a few value-preserving steps on string variable v; returns (lines, final var)"""
    lines = []
    cur = v
    for k in range(rnd(3)):
        nv = "%s_%d" % (v, k)
        c = rnd(4)
        if c == 0:
            lines.append('%s := %s + "-"' % (nv, cur))
        elif c == 1:
            lines.append('%s := %s' % (nv, cur))
        elif c == 2:
            lines.append('%s := strings.ToUpper(%s)' % (nv, cur))
        else:
            lines.append('%s := fmt.Sprintf("<%%s>", %s)' % (nv, cur))
        cur = nv
    return lines, cur


def sh_direct(i, rnd):
    ls, v = _chain(rnd, "x")
    return "", ["x := o%da()" % i] + ls + ["bt%d(%s)" % (i, v)], "string"


def sh_concat2(i, rnd):
    return "", ["x := o%da()" % i, "y := o%db()" % i, 'z := x + ":" + y', "bt%d(z)" % i], "string"


def sh_helper(i, rnd):
    depth = 1 + rnd(3)
    d = ""
    for k in range(depth):
        inner = "p" if k == depth - 1 else "id%d_%d(p)" % (i, k + 1)
        d += "func id%d_%d(p string) string { return %s }\n" % (i, k, inner)
    return d, ["bt%d(id%d_0(o%da()))" % (i, i, i)], "string"


def sh_down(i, rnd):
    depth = 1 + rnd(3)
    d = ""
    for k in range(depth):
        inner = "bt%d(p)" % i if k == depth - 1 else "dn%d_%d(p)" % (i, k + 1)
        d += "func dn%d_%d(p string) { %s }\n" % (i, k, inner)
    return d, ["dn%d_0(o%da())" % (i, i)], "string"


def sh_const_down(i, rnd):
    depth = 1 + rnd(3)
    d = ""
    for k in range(depth):
        inner = "bt%d(p)" % i if k == depth - 1 else "dc%d_%d(p)" % (i, k + 1)
        d += "func dc%d_%d(p string) { %s }\n" % (i, k, inner)
    return d, ['dc%d_0("K%dZ")' % (i, i)], "string"


def sh_const_direct(i, rnd):
    return "", ['x := "K%dZ"' % i, 'y := x + "!"', "bt%d(y)" % i], "string"


def sh_field(i, rnd):
    d = "type T%d struct { a string; b string }\n" % i
    if rnd(2) == 0:
        return d, ["t := &T%d{}" % i, "t.a = o%da()" % i, "t.b = \"n\"", "bt%d(t.a)" % i], "string"
    return d, ["t := T%d{a: o%da(), b: \"n\"}" % (i, i), "u := t", "bt%d(u.a)" % i], "string"


def sh_struct_ptr(i, rnd):
    d = "type P%d struct { a string }\n" % i
    return d, ["t := &P%d{}" % i, "t.a = o%da()" % i, "bt%d(t)" % i], "*P%d" % i


def sh_pointer(i, rnd):
    return "", ["p := new(string)", "*p = o%da()" % i, "q := p", "bt%d(*q)" % i], "string"


def sh_slice(i, rnd):
    if rnd(2) == 0:
        return "", ["s := []string{\"n\", o%da()}" % i, "bt%d(s[1])" % i], "string"
    return "", ["s := make([]string, 0)", "s = append(s, o%da())" % i, "bt%d(s)" % i], "[]string"


def sh_map(i, rnd):
    return "", ["m := map[string]string{}", "m[\"k\"] = o%da()" % i, "bt%d(m[\"k\"])" % i], "string"


def sh_chan(i, rnd):
    return "", ["c := make(chan string, 1)", "c <- o%da()" % i, "bt%d(<-c)" % i], "string"


def sh_iface_arg(i, rnd):
    return "", ["x := o%da()" % i, "bt%d(x)" % i], "interface{}"


def sh_closure_read(i, rnd):
    return "", ["x := o%da()" % i, "f := func() string { return x + \".\" }", "bt%d(f())" % i], "string"


def sh_closure_write(i, rnd):
    return "", ["var x string", "f := func() { x = o%da() }" % i, "f()", "bt%d(x)" % i], "string"


def sh_closure_arg(i, rnd):
    return "", ["f := func(p string) string { return p }", "bt%d(f(o%da()))" % (i, i)], "string"


def sh_closure_bt_inside(i, rnd):
    return "", ["x := o%da()" % i, "f := func() { bt%d(x) }" % i, "f()"], "string"


def sh_global(i, rnd):
    d = "var G%d string\nfunc w%d() { G%d = o%da() }\n" % (i, i, i, i)
    return d, ["w%d()" % i, "bt%d(G%d)" % (i, i)], "string"


def sh_iface_call(i, rnd):
    d = ("type I%d interface { Get() string }\ntype A%d struct{}\nfunc (A%d) Get() string { return o%da() }\n"
         % (i, i, i, i))
    return d, ["var v I%d = A%d{}" % (i, i), "bt%d(v.Get())" % i], "string"


def sh_fill(i, rnd):
    d = "func fill%d(p *string) { *p = o%da() }\n" % (i, i)
    return d, ["var x string", "fill%d(&x)" % i, "bt%d(x)" % i], "string"


def sh_two_ctx(i, rnd):
    d = "func idc%d(p string) string { return p }\n" % i
    return d, ["a := idc%d(o%da())" % (i, i), "b := idc%d(o%db())" % (i, i), "_ = b", "bt%d(a)" % i], "string"


def sh_rec(i, rnd):
    d = ("func rec%d(n int, p string) string {\n\tif n == 0 {\n\t\treturn p\n\t}\n\treturn rec%d(n-1, p)\n}\n" % (i, i))
    return d, ["bt%d(rec%d(2, o%da()))" % (i, i, i)], "string"


def sh_tuple_first(i, rnd):
    d = "func two%d() (string, string) { return o%da(), o%db() }\n" % (i, i, i)
    return d, ["a, b := two%d()" % i, "_ = b", "bt%d(a)" % i], "string"


def sh_tuple_second(i, rnd):
    d = "func two%d() (string, string) { return o%da(), o%db() }\n" % (i, i, i)
    return d, ["a, b := two%d()" % i, "_ = a", "bt%d(b)" % i], "string"


def sh_tuple_sum(i, rnd):
    d = "func two%d() (string, string) { return o%da(), o%db() }\n" % (i, i, i)
    return d, ["a, b := two%d()" % i, "bt%d(a + b)" % i], "string"


def sh_tuple_err(i, rnd):
    d = "func te%d() (string, error) { return o%da(), nil }\n" % (i, i)
    return d, ["a, err := te%d()" % i, "if err != nil {\n\t\treturn\n\t}", "bt%d(a)" % i], "string"


def sh_defer_bt(i, rnd):
    return "", ["x := o%da()" % i, "defer bt%d(x)" % i], "string"


def sh_go_bt(i, rnd):
    return "", ["x := o%da()" % i, "go bt%d(x)" % i], "string"


def sh_two_args(i, rnd):
    return "", ["x := o%da()" % i, "y := o%db()" % i, "bt%d(x, y)" % i], "string,string"


def sh_loop(i, rnd):
    return "", ["x := \"\"", "for k := 0; k < 2; k++ {\n\t\tx = x + o%da()\n\t}" % i, "bt%d(x)" % i], "string"


def sh_branch(i, rnd):
    return "", ["x := o%da()" % i, "if len(os.Args) > 5 {\n\t\tx = o%db()\n\t}" % i, "bt%d(x)" % i], "string"


def sh_method(i, rnd):
    d = "type M%d struct { v string }\nfunc (m *M%d) set(s string) { m.v = s }\nfunc (m *M%d) get() string { return m.v }\n" % (i, i, i)
    return d, ["m := &M%d{}" % i, "m.set(o%da())" % i, "bt%d(m.get())" % i], "string"


def sh_ret_struct(i, rnd):
    d = "type R%d struct { a string }\nfunc mk%d() R%d { return R%d{a: o%da()} }\n" % (i, i, i, i, i)
    return d, ["r := mk%d()" % i, "bt%d(r.a)" % i], "string"


def sh_rec_arg_origin(i, rnd):
    """the second origin enters ONLY through an argument of the recursive call"""
    d = ("func build%d(s string, n int) string {\n\tif n == 0 {\n\t\treturn s\n\t}\n\treturn build%d(s+o%db(), n-1)\n}\n" % (i, i, i))
    return d, ["bt%d(build%d(o%da(), %d))" % (i, i, i, 2 + rnd(2))], "string"


def sh_rec_mutual(i, rnd):
    d = ("func ping%d(s string, n int) string {\n\tif n == 0 {\n\t\treturn s\n\t}\n\treturn pong%d(s+o%db(), n-1)\n}\n"
         "func pong%d(s string, n int) string {\n\tif n == 0 {\n\t\treturn s\n\t}\n\treturn ping%d(s+\"~\", n-1)\n}\n" % (i, i, i, i, i))
    return d, ["bt%d(ping%d(o%da(), 3))" % (i, i, i)], "string"


def sh_rec_acc_down(i, rnd):
    """recursion that carries the value DOWN to the backtrace point; an origin is added at every level"""
    d = ("func walk%d(s string, n int) {\n\tif n == 0 {\n\t\tbt%d(s)\n\t\treturn\n\t}\n\twalk%d(s+o%db(), n-1)\n}\n" % (i, i, i, i))
    return d, ["walk%d(o%da(), 2)" % (i, i)], "string"


def sh_glob_2w_self(i, rnd):
    """global written in the function holding the backtrace point and in another function; read after both"""
    d = "var GS%d string\nfunc gw%d() { GS%d = o%db() }\n" % (i, i, i, i)
    return d, ["GS%d = o%da()" % (i, i), "gw%d()" % i, "bt%d(GS%d)" % (i, i)], "string"


def sh_glob_2w_self_after(i, rnd):
    """the bt-holding function writes the global AFTER the read; the value read comes from the other writer"""
    d = "var GA%d string\nfunc ga%d() { GA%d = o%db() }\n" % (i, i, i, i)
    return d, ["ga%d()" % i, "bt%d(GA%d)" % (i, i), "GA%d = o%da()" % (i, i)], "string"


def sh_glob_2w_concat(i, rnd):
    """both writers' origins reach the backtrace point natively"""
    d = "var GC%d string\nfunc gc%d() { GC%d = GC%d + o%db() }\n" % (i, i, i, i, i)
    return d, ["GC%d = o%da()" % (i, i), "gc%d()" % i, "bt%d(GC%d)" % (i, i)], "string"


def sh_glob_3w(i, rnd):
    d = ("var GT%d string\nfunc gt%d_1() { GT%d = GT%d + o%db() }\nfunc gt%d_2() { GT%d = GT%d + o%dc() }\n"
         % (i, i, i, i, i, i, i, i, i))
    if rnd(2) == 0:
        return d, ["GT%d = o%da()" % (i, i), "gt%d_1()" % i, "gt%d_2()" % i, "bt%d(GT%d)" % (i, i)], "string"
    return d, ["gt%d_1()" % i, "GT%d = GT%d + o%da()" % (i, i, i), "gt%d_2()" % i, "bt%d(GT%d)" % (i, i)], "string"


def sh_glob_2w_other(i, rnd):
    """two writers, neither is the function holding the backtrace point"""
    d = ("var GO%d string\nfunc go%d_1() { GO%d = o%da() }\nfunc go%d_2() { GO%d = GO%d + o%db() }\n"
         % (i, i, i, i, i, i, i, i))
    return d, ["go%d_1()" % i, "go%d_2()" % i, "bt%d(GO%d)" % (i, i)], "string"


def sh_glob_reader_helper(i, rnd):
    """the read is in a helper whose caller (holding bt) also writes the global; a third function writes too"""
    d = ("var GR%d string\nfunc gr%d_w() { GR%d = GR%d + o%db() }\nfunc gr%d_r() string { return GR%d }\n"
         % (i, i, i, i, i, i, i))
    return d, ["GR%d = o%da()" % (i, i), "gr%d_w()" % i, "bt%d(gr%d_r())" % (i, i)], "string"


def sh_glob_struct(i, rnd):
    """a global struct whose field is written in two functions"""
    d = ("type GF%d struct { a string }\nvar GV%d GF%d\nfunc gv%d() { GV%d.a = GV%d.a + o%db() }\n" % (i, i, i, i, i, i, i))
    return d, ["GV%d.a = o%da()" % (i, i), "gv%d()" % i, "bt%d(GV%d.a)" % (i, i)], "string"


def sh_closure_relay_twice(i, rnd):
    """two captured variables relay the origin: x = y inside the closure, y assigned from the origin in the same closure"""
    return "", ["var x, y string", "c := func() {\n\t\tx = y\n\t\ty = o%da()\n\t}" % i, "c()", "c()", "bt%d(x)" % i], "string"


def sh_closure_relay_nested(i, rnd):
    return "", ["var x, y string",
                "outer := func() {\n\t\tinner := func() {\n\t\t\tx = y\n\t\t\ty = o%da()\n\t\t}\n\t\tinner()\n\t\tinner()\n\t}" % i,
                "outer()", "bt%d(x)" % i], "string"


def sh_closure_relay_returned(i, rnd):
    d = ("func mkr%d() (func(), func() string) {\n\tvar x, y string\n\treturn func() {\n\t\t\tx = y\n\t\t\ty = o%da()\n\t\t}, "
         "func() string { return x }\n}\n" % (i, i))
    return d, ["c, get := mkr%d()" % i, "c()", "c()", "bt%d(get())" % i], "string"


def sh_closure_relay_three(i, rnd):
    """three captured variables, the closure called three times"""
    return "", ["var x, y, z string", "c := func() {\n\t\tx = y\n\t\ty = z\n\t\tz = o%da()\n\t}" % i, "c()", "c()", "c()",
                "bt%d(x)" % i], "string"


# calls of functions WITH predefined summaries / dataflow contracts where several parameters flow to the same result
def sh_std_replaceall(i, rnd):
    return "", ["bt%d(strings.ReplaceAll(o%da()+\"-q\", \"q\", o%db()))" % (i, i, i)], "string"


def sh_std_replaceall_first(i, rnd):
    return "", ["bt%d(strings.ReplaceAll(o%da(), \"q\", \"r\"))" % (i, i)], "string"


def sh_std_replace(i, rnd):
    return "", ["bt%d(strings.Replace(o%da()+\"-q\", \"q\", o%db(), 1))" % (i, i, i)], "string"


def sh_std_trimprefix(i, rnd):
    return "", ["bt%d(strings.TrimPrefix(o%da(), o%db()))" % (i, i, i)], "string"


def sh_std_join(i, rnd):
    return "", ["bt%d(strings.Join([]string{o%da(), \"x\"}, o%db()))" % (i, i, i)], "string"


def sh_std_sprintf(i, rnd):
    if rnd(2) == 0:
        return "", ["bt%d(fmt.Sprintf(\"%%s-%%s-%%s\", o%da(), o%db(), o%dc()))" % (i, i, i, i)], "string"
    return "", ["bt%d(fmt.Sprintf(o%da()+\"%%s\", o%db()))" % (i, i, i)], "string"


def sh_std_filepath_join(i, rnd):
    return "", ["bt%d(filepath.Join(o%da(), \"m\", o%db()))" % (i, i, i)], "string"


def sh_std_repeat(i, rnd):
    return "", ["bt%d(strings.Repeat(o%da(), 2))" % (i, i)], "string"


def sh_contract3(i, rnd):
    """user function summarised by a dataflow contract (dataflows.json): all three parameters flow to the result"""
    d = "// contract ext%d 3\nfunc ext%d(a, b, c string) string { return a + b + c }\n" % (i, i)
    return d, ["bt%d(ext%d(o%da(), o%db(), o%dc()))" % (i, i, i, i, i)], "string"


def sh_contract_append(i, rnd):
    d = "// contract app%d 2\nfunc app%d(l []string, e string) []string { return append(l, e) }\n" % (i, i)
    return d, ["l := app%d([]string{o%da()}, o%db())" % (i, i, i), "bt%d(l)" % i], "[]string"


def sh_nested_closure(i, rnd):
    d = ("func h%d() string {\n\tz := \"z\"\n\ty := o%da()\n\tc2 := func() string { return z + y }\n\treturn c2()\n}\n" % (i, i))
    return d, ["x := \"\"", "c1 := func() { x = h%d() }" % i, "c1()", "bt%d(x)" % i], "string"


# shapes on which the pinned analysis panics are generated into programs of their own (a panic hides every other result)
ISOLATED = collections.OrderedDict([])

SHAPES = collections.OrderedDict([
    ("direct", sh_direct), ("concat2", sh_concat2), ("helper", sh_helper), ("down", sh_down),
    ("const-down", sh_const_down), ("const-direct", sh_const_direct), ("field", sh_field), ("struct-ptr", sh_struct_ptr),
    ("pointer", sh_pointer), ("slice", sh_slice), ("map", sh_map), ("chan", sh_chan), ("iface-arg", sh_iface_arg),
    ("closure-read", sh_closure_read), ("closure-write", sh_closure_write), ("closure-arg", sh_closure_arg),
    ("closure-bt-inside", sh_closure_bt_inside), ("global", sh_global), ("iface-call", sh_iface_call), ("fill", sh_fill),
    ("two-ctx", sh_two_ctx), ("rec", sh_rec), ("tuple-first", sh_tuple_first), ("tuple-second", sh_tuple_second),
    ("tuple-sum", sh_tuple_sum), ("tuple-err", sh_tuple_err), ("defer-bt", sh_defer_bt), ("go-bt", sh_go_bt),
    ("two-args", sh_two_args), ("loop", sh_loop), ("branch", sh_branch), ("method", sh_method),
    ("ret-struct", sh_ret_struct), ("nested-closure", sh_nested_closure),
    ("rec-arg-origin", sh_rec_arg_origin), ("rec-mutual", sh_rec_mutual), ("rec-acc-down", sh_rec_acc_down),
    ("glob-2w-self", sh_glob_2w_self), ("glob-2w-self-after", sh_glob_2w_self_after), ("glob-2w-concat", sh_glob_2w_concat),
    ("glob-3w", sh_glob_3w), ("glob-2w-other", sh_glob_2w_other), ("glob-reader-helper", sh_glob_reader_helper),
    ("glob-struct", sh_glob_struct),
    ("closure-relay-twice", sh_closure_relay_twice), ("closure-relay-nested", sh_closure_relay_nested),
    ("closure-relay-returned", sh_closure_relay_returned), ("closure-relay-three", sh_closure_relay_three),
    ("std-replaceall", sh_std_replaceall), ("std-replaceall-first", sh_std_replaceall_first), ("std-replace", sh_std_replace),
    ("std-trimprefix", sh_std_trimprefix), ("std-join", sh_std_join), ("std-sprintf", sh_std_sprintf),
    ("std-filepath-join", sh_std_filepath_join), ("std-repeat", sh_std_repeat), ("contract3", sh_contract3),
    ("contract-append", sh_contract_append),
])

# stable keys of the failing input classes (known_findings.txt)
MISS_KEYS = {"defer-bt": "deferred-backtrace-point", "go-bt": "go-backtrace-point"}

PRELUDE = """package main

import (
	"fmt"
	"os"
	"path/filepath"
	"reflect"
	"strings"
	"sync"
	"time"
)

var mu sync.Mutex
var _ = strings.ToUpper
var _ = os.Args
var _ = filepath.Join
var hits = map[string]bool{}

func walk(v reflect.Value, d int, f func(string)) {
	if d > 6 || !v.IsValid() {
		return
	}
	switch v.Kind() {
	case reflect.String:
		f(v.String())
	case reflect.Ptr, reflect.Interface:
		if !v.IsNil() {
			walk(v.Elem(), d+1, f)
		}
	case reflect.Struct:
		for i := 0; i < v.NumField(); i++ {
			walk(v.Field(i), d+1, f)
		}
	case reflect.Slice, reflect.Array:
		for i := 0; i < v.Len(); i++ {
			walk(v.Index(i), d+1, f)
		}
	case reflect.Map:
		for _, k := range v.MapKeys() {
			walk(k, d+1, f)
			walk(v.MapIndex(k), d+1, f)
		}
	}
}

var markerRe = []string{}

// every scenario has its own hit<i> (a shared one would connect all backtrace points with nillable parameters through
// the parameter of the shared function, which multiplies the size of every traversal)
func note(i int, j int, s string) {
	up := strings.ToUpper(s)
	for _, m := range markerRe {
		if strings.Contains(up, m) {
			mu.Lock()
			hits[fmt.Sprintf("HIT %d %d %s", i, j, m)] = true
			mu.Unlock()
		}
	}
}
"""


def gen_program(seed, nscen, pkg, shapes=None):
    """returns (source, [(index, shape name, variant signature)])"""
    rnd = vlib.lcg(seed)
    table = dict(SHAPES)
    table.update(ISOLATED)
    names = list(shapes or SHAPES.keys())
    src = [PRELUDE]
    scen = []
    markers = []
    calls = []
    for i in range(nscen):
        # the catalogue in order first (every shape at least once when nscen >= len), then seed-chosen repeats
        name = names[i] if i < len(names) else names[rnd(len(names))]
        decls, body, ptypes = table[name](i, rnd)
        pts = ptypes.split(",")
        params = ", ".join("x%d %s" % (j, t) for j, t in enumerate(pts))
        hitl = "; ".join("hit%d(%d, x%d)" % (i, j, j) for j in range(len(pts)))
        src.append("func hit%d(j int, v interface{}) {\n\twalk(reflect.ValueOf(v), 0, func(s string) { note(%d, j, s) })\n}" % (i, i))
        src.append('func o%da() string { return "M%dA" }\nfunc o%db() string { return "M%dB" }\nfunc o%dc() string { return "M%dC" }'
                   % (i, i, i, i, i, i))
        src.append("func bt%d(%s) { %s }" % (i, params, hitl))
        if decls:
            src.append(decls.rstrip("\n"))
        src.append("func s%d() {\n\t%s\n}" % (i, "\n\t".join(body)))
        markers += ["M%dA" % i, "M%dB" % i, "M%dC" % i, "K%dZ" % i]
        calls.append("s%d()" % i)
        scen.append((i, name, "%s|%s" % (name, re.sub(r"\d+", "#", "\n".join(body) + decls))))
    src.append("func main() {\n\tmarkerRe = []string{%s}\n\t%s\n\ttime.Sleep(50 * time.Millisecond)\n\tfor h := range hits {\n\t\tfmt.Println(h)\n\t}\n}"
               % (", ".join('"%s"' % m for m in markers), "\n\t".join(calls)))
    return "\n\n".join(src) + "\n", scen


CONFIG = """slicing-problems:
  - backtracepoints:
      - package: "%(pkg)s"
        method: "^bt[0-9]+$"
taint-tracking-problems:
  - sources:
      - package: "%(pkg)s"
        method: "^o[0-9]+[abc]$"
    sinks:
      - package: "%(pkg)s"
        method: "^bt[0-9]+$"
dataflow-specs:
  - "dataflows.json"
options:
  log-level: 1
"""


def contracts_json(src, pkg):
    """dataflow contracts for the functions marked `// contract <name> <n>`: every parameter flows to the result"""
    methods = []
    for m in re.finditer(r"// contract (\w+) (\d+)", src):
        n = int(m.group(2))
        methods.append('"%s": { "Args": [ %s ], "Rets": [ %s ] }' % (
            m.group(1), ", ".join("[ %d ]" % k for k in range(n)), ", ".join("[ 0 ]" for _ in range(n))))
    return '[ { "ObjectPath": "%s", "Methods": { %s } } ]\n' % (pkg, ", ".join(methods))



# ---------------------------------------------------------------------------------- dump / model output parsing
def parse_sections(path):
    secs = []
    cur = None
    for l in open(path, errors="replace"):
        l = l.rstrip("\n")
        p = l.split(" ")
        t = p[0]
        if t == "P":
            cur = {"dir": p[1], "mode": p[2] if len(p) > 2 else "", "N": {}, "E": [], "T": collections.defaultdict(set),
                   "M": collections.defaultdict(set), "S": collections.defaultdict(set), "X": [], "Q": [], "R": {},
                   "I": {}, "H": [], "W": collections.Counter(), "Wbad": [], "F": set(), "nA": 0, "nB": 0, "GAP": 0}
            secs.append(cur)
        elif cur is None:
            continue
        elif t == "N":
            cur["N"][p[1]] = (p[2], " ".join(p[14:]), p[14] if len(p) > 14 else "-")
        elif t == "E":
            cur["E"].append((p[1], [] if p[2] == "-" else p[2].split(",")))
        elif t in ("T", "M", "S"):
            cur[t][p[1]].add(p[2])
        elif t == "X":
            cur["X"].append(l[2:])
        elif t == "Q":
            cur["Q"].append((p[1], p[2], p[3], p[4] if len(p) > 4 else "noctx"))
        elif t == "R":
            cur["R"][p[1]] = p[2:]
        elif t == "I":
            cur["I"][p[1]] = (p[2], p[3], set(p[4].split(",")) if len(p) > 4 and p[4] else set())
        elif t == "H":
            cur["H"].append((p[1], p[2], p[3]))
        elif t == "GAP":
            cur["GAP"] += 1
        elif t == "W":
            cur["W"][p[2]] += 1
            if p[2] != "ok":
                cur["Wbad"].append((p[1], p[2], p[3]))
        elif t == "F":
            cur["F"].add((p[1], p[3]))
        elif t == "VARIANT":
            cur["variant"] = " ".join(p[1:])
        elif t == "A":
            cur["nA"] += 1
        elif t == "B":
            cur["nB"] += 1
    return secs


def trace_nodes(traces):
    out = set()
    for t in traces:
        out.update(t.split(","))
    return out


# ---------------------------------------------------------------------------------- the check
def run(chk):
    tier = chk.tier
    import time as _time
    _t = [_time.time()]
    phases = {}

    def lap(name):
        phases[name] = round(_time.time() - _t[0], 1)
        _t[0] = _time.time()
    failed = chk.prove("theories/Properties/C03.v")
    lap("prove")
    vlib.build_harness(["c03dump"])
    lap("go_build")
    model = vlib.build_model("c03")
    lap("model_build")
    work = os.path.join(vlib.BUILD, "c03")
    shutil.rmtree(work, ignore_errors=True)
    os.makedirs(work)
    dumpexe = os.path.join(vlib.BIN, "c03dump")

    stats = collections.Counter()
    distinct = set()
    found_concrete = False
    tie_broken = []           # (what, dir, mode)
    shape_dist = collections.Counter()
    variants = set()
    mode_diffs = []

    # ---- generated scenario programs
    nprog = 1 if tier == "quick" else 5
    nscen = 64 if tier == "quick" else 80
    gens = []
    isolated = []
    for k in range(nprog):
        pkg = "c03gen%d" % k
        d = os.path.join(work, pkg)
        os.makedirs(d)
        src, scen = gen_program(chk.seed * 7919 + k, nscen, pkg)
        open(os.path.join(d, "go.mod"), "w").write("module %s\n\ngo 1.22\n" % pkg)
        open(os.path.join(d, "main.go"), "w").write(src)
        open(os.path.join(d, "config.yaml"), "w").write(CONFIG % {"pkg": pkg})
        open(os.path.join(d, "dataflows.json"), "w").write(contracts_json(src, pkg))
        gens.append((d, scen))
    for k, name in enumerate(ISOLATED):
        pkg = "c03iso%d" % k
        d = os.path.join(work, pkg)
        os.makedirs(d)
        src, scen = gen_program(chk.seed * 7919 + 100 + k, 2, pkg, shapes=["direct", name])
        open(os.path.join(d, "go.mod"), "w").write("module %s\n\ngo 1.22\n" % pkg)
        open(os.path.join(d, "main.go"), "w").write(src)
        open(os.path.join(d, "config.yaml"), "w").write(CONFIG % {"pkg": pkg})
        open(os.path.join(d, "dataflows.json"), "w").write(contracts_json(src, pkg))
        gens.append((d, scen))
        isolated.append(d)

    def analyse(dirs, tag, taint, both=True):
        dump = os.path.join(work, tag + ".dump")
        env = dict(vlib.GOENV, GOMAXPROCS=str(min(8, vlib.NCPU)))
        rc, out = vlib.sh([dumpexe] + (["-both"] if both else []) + (["-taint"] if taint else []) + ["-o", dump] + dirs,
                          timeout=3000, env=env)
        if rc not in (0, 2, 3) or not os.path.exists(dump):
            raise vlib.BuildError("c03dump failed on %s" % tag, out)
        # the tree now carries the two repairs (5c50586, a7dccfe): the repaired model variant is tried first, the driver
        # falls back to the other variants when it does not stay in sync
        rc, mout, merr = vlib.sh2([model, "-fix-tuple", "-fix-ctrace"], inp=open(dump, errors="replace").read(), timeout=3000)
        if rc != 0:
            raise vlib.BuildError("c03model failed on %s" % tag, merr)
        mp = os.path.join(work, tag + ".model")
        open(mp, "w").write(mout)
        return parse_sections(dump), parse_sections(mp)

    def tie(isec, msec):
        """model == implementation on this run?  returns list of problems"""
        probs = []
        for x in isec["X"]:
            stats["analysis_errors"] += 1
        if isec["nB"] == 0 and sum(len(v) for v in isec["T"].values()) > 0:
            # the run's trace log carries no "==> Node" / "Adding" lines (log statements reworded?): the exact replay is
            # impossible; the run is still covered by the trace certificate and the native ground truth
            stats["runs_without_event_log"] += 1
            chk.notes.append("event log unavailable for %s (%s): exact replay skipped" % (isec["dir"], isec["mode"]))
            return probs
        for (a, o, sy, cx) in msec["Q"]:
            stats["visits_replayed"] += 1
            if sy != "sync":
                probs.append("visit of arg %s: push sequences differ (%s, outcome %s)" % (a, sy, o))
            elif cx.startswith("CTXDIFF"):
                probs.append("visit of arg %s: call/closure traces of the popped nodes differ (%s)" % (a, cx))
            elif o != "done":
                stats["visits_not_done"] += 1
            if cx == "ctx":
                stats["visits_contexts_equal"] += 1
        stats["push_events"] += isec["nA"]
        if msec.get("variant") and msec["variant"] != "fix_tuple=1 fix_ctrace=1":
            stats["runs_tied_to_other_model_variant"] += 1
            variants.add(msec["variant"])
        args = set(a for _, al in isec["E"] for a in al)
        stats["entry_args"] += len(args)
        for a in sorted(args | set(isec["T"].keys()), key=int):
            it = isec["T"].get(a, set())
            mt = msec["M"].get(a, set())
            stats["impl_traces"] += len(it)
            if it != mt:
                probs.append("entry arg %s (%s): trace sets differ: impl-only %s model-only %s" % (
                    a, isec["N"].get(a, ("", "?"))[1][:80], sorted(it - mt)[:2], sorted(mt - it)[:2]))
            else:
                stats["args_traces_equal"] += 1
        return probs

    def cert(isec, msec, d):
        nonlocal found_concrete
        stats["traces_checked"] += sum(msec["W"].values())
        stats["traces_wf"] += msec["W"]["ok"] + msec["W"]["NOTSTRICT"]
        stats["traces_not_strict"] += msec["W"]["NOTSTRICT"]
        for (a, verdict, tr) in msec["Wbad"]:
            if verdict != "BAD":
                continue
            key = "trace-not-wf:%s" % os.path.basename(d)
            rd = chk.replay_dir(key)
            with open(os.path.join(rd, "replay.txt"), "w") as f:
                f.write("a trace reported by backtrace.Analyze is not a connected sequence of backward dataflow steps ending at "
                        "the entry argument (verified checker trace_wfb = false)\nprogram: %s (%s)\nentry arg: %s\ntrace:\n" % (d, isec["mode"], isec["N"].get(a)))
                for n in tr.split(","):
                    f.write("  %s %s\n" % (n, isec["N"].get(n, ("?", "?"))[1]))
                f.write("re-run: build/bin/c03dump -both %s | build/bin/c03model | grep '^W'\n" % d)
            for fn in ("main.go", "config.yaml", "go.mod", "dataflows.json"):
                if os.path.exists(os.path.join(d, fn)) and d.startswith(work):
                    shutil.copy(os.path.join(d, fn), rd)
            if chk.violation(key, "reported trace is not well-formed in %s (%s)" % (d, isec["mode"]), rd):
                found_concrete = True

    def spec_stats(isec, msec):
        for a, (n, cap, ideal) in msec["I"].items():
            stats["ideal_evaluated_args"] += 1
            tn = trace_nodes(isec["T"].get(a, set()))
            miss = ideal - tn
            if not miss:
                stats["ideal_fully_on_traces"] += 1
            else:
                stats["ideal_nodes_on_no_trace"] += len(miss)
                if any(isec["N"].get(x, ("",))[0] == "C" for x in miss):
                    stats["args_with_ideal_call_on_no_trace"] += 1
        for (a, closed, gaps) in msec["H"]:
            stats["runs_closed" if closed == "closed=1" else "runs_not_closed"] += 1
        stats["silent_leaves"] += sum(len(v) for v in msec["S"].values())
        stats["runs_without_silent_leaf"] += sum(1 for a in msec["R"] if not msec["S"].get(a))

    # the repository corpus is analysed concurrently with the generated programs
    corpus = [os.path.join(vlib.REPO, p) for p in (CORPUS_QUICK if tier == "quick" else CORPUS_THOROUGH)]
    corpus = [p for p in corpus if os.path.isdir(p)]
    pool = concurrent.futures.ThreadPoolExecutor(max_workers=3)
    corpus_job = pool.submit(analyse, corpus, "corpus", False) if corpus else None
    # programs on which the pinned analysis panics: one mode is enough in the quick tier
    iso_job = pool.submit(analyse, isolated, "iso", False, tier != "quick") if isolated else None

    # ---- 1. generated programs: tie, certificate, spec, native ground truth, forward/backward agreement
    isecs, msecs = analyse([d for d, _ in gens if d not in isolated], "gen", taint=True)
    if iso_job is not None:
        i2, m2 = iso_job.result()
        isecs, msecs = isecs + i2, msecs + m2
    lap("analyse_generated")
    bydir = collections.defaultdict(dict)
    for s, m in zip(isecs, msecs):
        bydir[s["dir"]][s["mode"]] = (s, m)

    def entries_of(isec):
        entry = collections.defaultdict(dict)     # scenario -> arg index -> [arg ids]
        for c, al in isec["E"]:
            m = re.search(r"call: bt(\d+)\(", isec["N"].get(c, ("", ""))[1])
            if m:
                for j, a in enumerate(al):
                    entry[int(m.group(1))].setdefault(j, []).append(a)
        return entry

    def origins_of(isec, entry):
        om = {}                                   # (scenario, arg index) -> origin callee names on its traces
        for i, byj in entry.items():
            for j, al in byj.items():
                st = om.setdefault((i, j), set())
                for a in al:
                    for t in isec["T"].get(a, set()):
                        for n in t.split(","):
                            nd = isec["N"].get(n)
                            mm = nd and nd[0] == "C" and re.search(r"call: (o\d+[abc])\(\)", nd[1])
                            if mm:
                                st.add(mm.group(1))
        return om

    for d, scen in gens:
        rc, out, err = vlib.sh2(["go", "run", "."], cwd=d, timeout=900)
        if rc != 0:
            raise vlib.BuildError("generated program does not run: %s" % d, err)
        stats["native_runs"] += 1
        hitset = set()
        for l in out.splitlines():
            p = l.split()
            if len(p) == 4 and p[0] == "HIT":
                hitset.add((int(p[1]), int(p[2]), p[3]))
        taint_pairs = bydir[d].get("taint", ({"F": set()}, None))[0]["F"]
        origins_by_mode = {}       # mode -> {(scenario, arg index): set of origin callee names on its traces}
        for mode in ("eager", "ondemand"):
            if mode in bydir[d] and not any(x.startswith("PANIC") for x in bydir[d][mode][0]["X"]):
                origins_by_mode[mode] = origins_of(bydir[d][mode][0], entries_of(bydir[d][mode][0]))
        for mode in ("eager", "ondemand"):
            if mode not in bydir[d]:
                if d in isolated and mode == "ondemand":
                    continue
                raise vlib.BuildError("no %s section for %s" % (mode, d), "")
            isec, msec = bydir[d][mode]
            if any("FAIL" in x or "HARNESS" in x for x in isec["X"]):
                raise vlib.BuildError("c03dump could not analyse %s" % d, "\n".join(isec["X"]))
            panics = [x for x in isec["X"] if x.startswith("PANIC")]
            if panics:
                # the analysis crashed: nothing is reported for any entry point of this program
                stats["analysis_panics"] += 1
                m = re.search(r"\.s(\d+)(\$|\b)", panics[0]) or re.search(r"[a-z]+(\d+)\b", panics[0])
                shape = None
                if m:
                    shape = dict((i, n) for i, n, _ in scen).get(int(m.group(1)))
                if shape is None and len(scen) == 2:
                    shape = scen[1][1]
                key = "panic:%s" % (shape or "unknown")
                rd = chk.replay_dir(key + mode)
                for fn in ("main.go", "config.yaml", "go.mod", "dataflows.json"):
                    shutil.copy(os.path.join(d, fn), rd)
                with open(os.path.join(rd, "replay.txt"), "w") as f:
                    f.write("backtrace.Analyze panics on this program (%s): %s\nno trace is reported for any backtrace point, although "
                            "natively %d origin markers reach their backtrace points.\nre-run: cd <this dir> && argot backtrace -config config.yaml .\n"
                            % (mode, panics[0], len(hitset)))
                if chk.violation(key, "analysis panics (%s): %s" % (mode, panics[0][:120]), rd):
                    found_concrete = True
                continue
            probs = tie(isec, msec)
            for pr in probs:
                tie_broken.append((pr, d, mode))
            cert(isec, msec, d)
            spec_stats(isec, msec)
            entry = entries_of(isec)
            for (i, name, sig) in scen:
                shape_dist[name] += 1
                distinct.add(sig)
                for (hi, hj, mk) in sorted(hitset):
                    if hi != i:
                        continue
                    stats["native_flows"] += 1
                    if mk.startswith("M"):
                        pat = "call: o%d%s()" % (i, mk[-1].lower())
                        kinds = ("C",)
                    else:
                        pat = mk
                        kinds = ("A", "C", "S", "R", "P", "W", "V", "F", "K", "L")
                    on = False
                    for a in entry.get(i, {}).get(hj, []):
                        for t in isec["T"].get(a, set()):
                            for n in t.split(","):
                                nd = isec["N"].get(n)
                                if nd and nd[0] in kinds and pat in nd[1]:
                                    on = True
                    if on:
                        stats["native_flows_on_a_trace"] += 1
                        continue
                    key = MISS_KEYS.get(name, "miss:%s" % name)
                    rd = chk.replay_dir(key + mode)
                    for fn in ("main.go", "config.yaml", "go.mod", "dataflows.json"):
                        shutil.copy(os.path.join(d, fn), rd)
                    fwd = ("o%d%s" % (i, mk[-1].lower()), "bt%d" % i) in taint_pairs if mk.startswith("M") else None
                    other = "ondemand" if mode == "eager" else "eager"
                    other_has = None
                    if mk.startswith("M") and other in origins_by_mode:
                        other_has = ("o%d%s" % (i, mk[-1].lower())) in origins_by_mode[other].get((i, hj), set())
                    with open(os.path.join(rd, "replay.txt"), "w") as f:
                        f.write("scenario s%d (shape %s, %s): native execution delivers marker %s to argument %d of bt%d, but no trace "
                                "reported by backtrace.Analyze for that argument contains the origin (%s); entry args found: %s; "
                                "taint analysis (source=origin, sink=bt) reports the pair: %s; the %s run has the origin on a trace: %s\n"
                                "re-run: cd <this dir> && go run . | grep 'HIT %d ' ; argot backtrace -config config.yaml .   "
                                "(or build/bin/c03dump -both <dir> | build/bin/c03model)\n"
                                % (i, name, mode, mk, hj, i, pat, entry.get(i, {}), fwd, other, other_has, i))
                    if chk.violation(key, "shape %s (%s): origin %s reaches bt%d natively, no reported trace contains it"
                                     % (name, mode, mk, i), rd):
                        found_concrete = True
            # forward / backward agreement (context-insensitive): (origin call, bt) pairs
            back_pairs = set()
            for c, al in isec["E"]:
                m = re.search(r"call: bt(\d+)\(", isec["N"].get(c, ("", ""))[1])
                if not m:
                    continue
                for a in al:
                    for t in isec["T"].get(a, set()):
                        for n in t.split(","):
                            nd = isec["N"].get(n)
                            mm = nd and nd[0] == "C" and re.search(r"call: (o\d+[abc])\(\)", nd[1])
                            if mm:
                                back_pairs.add((mm.group(1), "bt" + m.group(1)))
            stats["fwd_pairs"] = len(taint_pairs)
            stats["back_pairs_" + mode] = len(back_pairs)
            stats["fwd_only_pairs_" + mode] = len(taint_pairs - back_pairs)
            stats["back_only_pairs_" + mode] = len(back_pairs - taint_pairs)
            if len(chk.cov["samples"]) < 4:
                chk.sample({"program": os.path.basename(d), "mode": mode, "entry_args": sum(len(al) for _, al in isec["E"]),
                            "traces": sum(len(v) for v in isec["T"].values()), "push_events": isec["nA"],
                            "native_hits": len(hitset), "fwd_only": sorted(taint_pairs - back_pairs)[:6]})

        # eager vs on-demand: origin sets per (scenario, argument).  A difference is evidence (the alarm is the native
        # judgement above, made in both modes); read-only globals such as os.Args differ by design of isBaseCase.
        if "eager" in origins_by_mode and "ondemand" in origins_by_mode:
            names = dict((i, n) for i, n, _ in scen)
            keys = set(origins_by_mode["eager"]) | set(origins_by_mode["ondemand"])
            for k in sorted(keys):
                e_, o_ = origins_by_mode["eager"].get(k, set()), origins_by_mode["ondemand"].get(k, set())
                stats["mode_compared_args"] += 1
                if e_ == o_:
                    stats["mode_equal_origin_sets"] += 1
                else:
                    if e_ - o_:
                        mode_diffs.append("%s: eager-only %s" % (names.get(k[0]), sorted(e_ - o_)))
                    if o_ - e_:
                        mode_diffs.append("%s: ondemand-only %s" % (names.get(k[0]), sorted(o_ - e_)))

    # ---- 2. repository testdata: tie + certificate + spec statistics
    lap("judge_generated")
    if corpus_job is not None:
        isecs, msecs = corpus_job.result()
        lap("wait_corpus")
        for isec, msec in zip(isecs, msecs):
            if isec["mode"] not in ("eager", "ondemand"):
                continue
            stats["corpus_runs"] += 1
            for pr in tie(isec, msec):
                tie_broken.append((pr, isec["dir"], isec["mode"]))
            cert(isec, msec, isec["dir"])
            spec_stats(isec, msec)
            if len(chk.cov["samples"]) < 8:
                chk.sample({"program": isec["dir"].replace(vlib.REPO, ""), "mode": isec["mode"],
                            "entry_args": sum(len(al) for _, al in isec["E"]),
                            "traces": sum(len(v) for v in isec["T"].values()), "push_events": isec["nA"]})

    if tie_broken and not (found_concrete and chk.has_new_concrete()):
        pr, d, mode = tie_broken[0]
        rd = chk.replay_dir("tie")
        with open(os.path.join(rd, "replay.txt"), "w") as f:
            f.write("T-dump tie broken: the extracted model Model/Back.v, replaying the run of backtrace.Analyze on the dumped graph with "
                    "the observed iteration order, no longer behaves like the implementation (%d disagreements); the theorems of "
                    "Properties/C03.v no longer cover this code.  No generated scenario lost an origin.\nfirst: %s\nprogram: %s (%s)\n"
                    "re-run: build/bin/c03dump -both %s | build/bin/c03model | grep '^Q'\n" % (len(tie_broken), pr, d, mode, d))
            for x in tie_broken[1:10]:
                f.write("also: %s [%s %s]\n" % x)
        chk.violation("tie-broken", "model/implementation correspondence broken (%d disagreements), e.g. %s" % (len(tie_broken), pr[:160]),
                      rd, no_input=True)
    chk.proof_broken(failed, found_concrete)

    chk.cov["evaluations"] = stats["visits_replayed"]
    chk.cov["distinct_nontrivial"] = len(distinct)
    chk.cov["rule"] = ("evaluation = one visit(entry argument) of the real backward traversal replayed push-by-push in the extracted model; "
                       "distinct non-trivial = distinct generated scenario bodies (shape + seed-chosen variation, identifiers normalised), "
                       "each with >=1 origin natively reaching or not reaching its backtrace point")
    chk.cov["traces_validated_against_impl"] = stats["traces_wf"]
    stats["tie_disagreements"] = len(tie_broken)
    chk.cov["distribution"] = dict(stats)
    chk.cov["shapes"] = dict(shape_dist)
    chk.cov["phase_seconds"] = phases
    chk.cov["eager_vs_ondemand_origin_differences"] = mode_diffs[:40]
    if variants:
        chk.notes.append("runs in sync only with model variant(s) other than fix_tuple=1 fix_ctrace=1: %s" % sorted(variants))
    hit = set(k for k, _ in chk.known_hit)
    stale = [k["key"] for k in vlib.load_known() if k["property"] == chk.prop and k["key"] not in hit]
    if stale:
        chk.cov["stale_known_finding"] = stale
        chk.notes.append("listed findings not exhibited by this tree (repaired?): %s" % stale)
    chk.assumptions += [
        "the linked graph is dumped after the run (on-demand summaries included); summaries built in the middle of a run are seen as built from the start",
        "Go map iteration order is taken from the run's own trace log (\"Adding\" / \"==> Node\" lines), not modelled",
        "ideal successor relation = the traversal's own rules without tuple filter / seen / depth stops (executable spec of 'backward reachable along a realizable path')",
        "native ground truth: one execution per generated program, reflective deep walk of the backtrace point's arguments, substring markers",
    ]
    return chk.finish()


def replay(chk, path):
    p = os.path.join(path, "replay.txt") if os.path.isdir(path) else path
    print(open(p).read())
    return 0
