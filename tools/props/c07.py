"""C07 - the analyses terminate without crashing on every well-typed program.

proof      : coq/theories/Properties/C07.v
               visit_terminates        (Proofs/VisitTerm.v)  forward traversal model never runs out of fuel_bound(g) fuel:
                                        all path-insensitive graphs, taint problems, configs, sources, iteration orders
               dispatch_total_partial  finite theorem over coq/gen/GenInstr.v (regenerated on every run by
                                        harness/cmd/gentables/gen_instr.go from the Go sources + pinned x/tools)
tie        : tools/props/travlib.py  (Model/Visit.v == analysis/taint/dataflow_visitor.go on the taint testdata programs:
               every recorded expansion of the real Visit/addNext, whole-BFS runs under several iteration orders)
search     : crash / timeout corpus: corpus/c07/* (hand-written: recursion, recursive types, defers in loops, generics with
               conversions on type parameters, bodiless functions, big switch CFGs, goroutines/select, closures, nil go
               statements, field-sensitive shapes, the F3 program) + seed-generated call-graph programs, run through every
               analysis entry point in-process (harness/cmd/c07run: recover + wall-clock budget = 20 x baseline of the same
               program, re-run to confirm).  A panic or a confirmed timeout is a violation with the program as replay.
known      : field-sensitive-accesspath-divergence (F3): classified by the MODEL - the faithful model runs out of fuel on the
               program's dumped graph with growing access-path lists while the repaired variant (dedupe+sort) terminates.
"""
import os
import re
import shutil

import vlib
try:
    from props import travlib
except ImportError:  # run from tools/props directly
    import travlib

CORPUS = os.path.join(vlib.VERIF, "corpus", "c07")
QUICK_ANALYSES = "taint,taint-fs,taint-ondemand,backtrace,backtrace-fs,reachability,defers,maypanic"
# quick tier: the (slow) entry points with escape analysis only on the programs whose go statements they are about
EXTRA_QUICK = {"gonil": "escape", "goroutines": "escape"}
# quick tier: programs with their own list of entry points.  gocallee (go/defer on every callee form) is about the escape-enabled
# entry points; its field-sensitive variants do not return (known finding timeout:gocallee:taint-fs*) and backtrace takes ~10 x taint
ONLY_QUICK = {"gocallee": "taint,taint-ondemand,escape,taint-escape,reachability,defers,maypanic"}
THOROUGH_ONLY = {"bigswitch"}                      # programs on which a baseline does not return (each costs its full budget twice)
VARIANTS = {"taint": ["taint-fs", "taint-ondemand", "taint-fs-ondemand", "taint-escape"], "backtrace": ["backtrace-fs", "backtrace-ondemand"],
            "escape": ["taint-escape"]}
ALL_ANALYSES = ("taint,taint-fs,taint-ondemand,taint-fs-ondemand,backtrace,backtrace-fs,backtrace-ondemand,"
                "escape,taint-escape,reachability,defers,maypanic")
F3_KEY = "field-sensitive-accesspath-divergence"
# corpus programs that put a value of the given concrete type in the position the escape `go`-statement switch looks at
WITNESS_PROGRAM = {"*ssa.Builtin": "gocallee", "*ssa.Function": "gocallee", "*ssa.Global": "gocallee", "*ssa.Parameter": "gocallee",
                   "*ssa.FreeVar": "gocallee", "*ssa.MakeClosure": "gocallee", "*ssa.Phi": "gocallee", "*ssa.Extract": "gocallee",
                   "*ssa.Call": "gocallee", "*ssa.UnOp": "gocallee", "*ssa.Lookup": "gocallee", "*ssa.Field": "gocallee",
                   "*ssa.TypeAssert": "gocallee", "*ssa.ChangeType": "gocallee", "*ssa.Const": "gonil", "*ssa.MultiConvert": "generics"}


# ---------------------------------------------------------------------------------- T-gen
def gen_instr(chk):
    """build the instr generator on its own (independent of the other builders' generators) and regenerate GenInstr.v"""
    exe = os.path.join(vlib.BIN, "gentables-instr")
    with vlib._Lock("go"):
        rc, log = vlib.sh(["go", "build", "-tags", "verif"] +
                          (["-modfile", os.path.join(vlib.BUILD, "go.alt.mod")] if vlib.REPO != "/repo" and os.path.exists(os.path.join(vlib.BUILD, "go.alt.mod")) else []) +
                          ["-o", exe, "cmd/gentables/main.go", "cmd/gentables/gen_instr.go"], timeout=900, cwd=vlib.HARNESS)
    if rc != 0:
        raise vlib.BuildError("go build of gentables (instr) failed", log)
    tmp = os.path.join(vlib.BUILD, "gen.c07")
    shutil.rmtree(tmp, ignore_errors=True)
    os.makedirs(tmp)
    rc, log = vlib.sh([exe, "-repo", vlib.REPO, "-out", tmp, "-only", "instr"], timeout=900, cwd=vlib.HARNESS)
    if rc != 0:
        raise vlib.BuildError("gentables instr failed", log)
    txt = open(os.path.join(tmp, "GenInstr.v")).read()
    with vlib._Lock("gen"):
        vlib._write_if_changed(os.path.join(vlib.COQ, "gen", "GenInstr.v"), txt)
    # summary of the table for the evidence / side conditions
    table = []
    for m in re.finditer(r'mkSw "([^"]*)" "([^"]*)" "([^"]*)" (\w+) (\w+)\n\s*\[(.*?)\]\n\s*\[(.*?)\]', txt):
        pos, fn, iface, hd, pan, dom, cov = m.groups()
        D = re.findall(r'"([^"]*)"', dom)
        C = set(re.findall(r'"([^"]*)"', cov))
        table.append({"pos": pos, "func": fn, "iface": iface, "panics": pan == "true", "domain": len(D),
                      "uncovered": [d for d in D if d not in C]})
    return table


# ---------------------------------------------------------------------------------- generated programs
def gen_program(seed, nfun=7):
    """random call graph over a struct type: recursion (direct/mutual), loops re-assigning through calls, closures, defers,
    pointer fields.  Every function has signature f_i(x T, n int) T."""
    rnd = vlib.lcg(seed)
    out = ["package main", "", 'import "fmt"', "", "type T struct {", "\tA, B string", "\tP    *T", "\tL    []string", "}", "",
           'func source() T     { return T{A: "secret", B: "b"} }', "func sink(x any)    { fmt.Println(x) }", ""]
    for i in range(nfun):
        body = []
        for _ in range(2 + rnd(4)):
            j = rnd(nfun)
            k = rnd(9)
            if k == 0:
                body.append("\tif n > 0 {\n\t\tx = f%d(x, n-1)\n\t}" % j)
            elif k == 1:
                body.append("\tx.A, x.B = x.B, x.A")
            elif k == 2:
                body.append("\tfor k := 0; k < n; k++ {\n\t\tx = f%d(x, 0)\n\t}" % j)
            elif k == 3:
                body.append("\tg%d := func(y T) T {\n\t\tif n > 0 {\n\t\t\treturn f%d(y, n-1)\n\t\t}\n\t\treturn y\n\t}\n\tx = g%d(x)" % (len(body), j, len(body)))
            elif k == 4:
                body.append("\tdefer func() { x.B = x.A }()")
            elif k == 5:
                body.append("\tx.P = &T{A: x.B}\n\tx.L = append(x.L, x.P.A)")
            elif k == 6:
                body.append("\tif x.P != nil {\n\t\tx.A = x.P.A\n\t}")
            elif k == 7:
                body.append("\tfor _, s := range x.L {\n\t\tx.B += s\n\t}")
            else:
                body.append("\tif n > 1 {\n\t\treturn f%d(f%d(x, n-2), n-1)\n\t}" % (j, rnd(nfun)))
        out.append("func f%d(x T, n int) T {" % i)
        out.extend(body)
        out.append("\treturn x\n}\n")
    out.append("func main() {\n\tx := source()\n\tx = f0(x, 3)\n\tsink(x.A)\n\tsink(x.B)\n\tsink(x.L)\n}")
    return "\n".join(out) + "\n"


def write_generated(work, seed, k):
    d = os.path.join(work, "gen%d" % k)
    os.makedirs(d)
    open(os.path.join(d, "go.mod"), "w").write("module c07gen%d\n\ngo 1.22\n" % k)
    open(os.path.join(d, "main.go"), "w").write(gen_program(seed * 7919 + k))
    shutil.copy(os.path.join(CORPUS, "rec", "config.yaml"), d)
    return d


# ---------------------------------------------------------------------------------- running the entry points
def parse_res(path):
    res = {}
    starts = []
    gen = {}
    init = None
    if not os.path.exists(path):
        return res, starts, gen, init
    for l in open(path, errors="replace"):
        p = l.split(None, 6)
        if not p:
            continue
        if p[0] == "RES" and len(p) >= 6:
            res[p[2]] = {"status": p[3], "secs": float(p[4]), "budget": float(p[5]), "detail": p[6].strip() if len(p) > 6 else ""}
        elif p[0] == "START":
            starts.append(p[2])
        elif p[0] == "GEN":
            for kv in l.split()[2:]:
                k, v = kv.split("=")
                gen[k] = int(v)
        elif p[0] == "INIT":
            init = float(p[2])
    return res, starts, gen, init


def run_entry_points(d, analyses, work, floor):
    """runs c07run on one program; handles timeouts (confirm by re-run, then continue with the remaining analyses) and
    process-level crashes.  Returns (results {analysis: dict}, gen stats)."""
    exe = os.path.join(vlib.BIN, "c07run")
    name = os.path.basename(d)
    out = os.path.join(work, name + ".res")
    todo = analyses.split(",")
    results = {}
    gen = {}
    base = {}
    rounds = 0
    while todo and rounds < 8:
        rounds += 1
        if os.path.exists(out):
            os.remove(out)
        cmd = [exe, "-o", out, "-only", ",".join(todo), "-floor", str(floor)]
        if base:
            cmd += ["-base", ",".join("%s=%.2f" % kv for kv in base.items())]
        rc, so, se = vlib.sh2(cmd + [d], timeout=3600)
        res, starts, g, init = parse_res(out)
        gen.update(g)
        if init is not None:
            base["init"] = init
        for a, r in res.items():
            if r["status"] in ("ok", "err"):
                base[a] = r["secs"]
        if "load" in res:
            results["load"] = res["load"]
            return results, gen
        progressed = False
        for a in list(todo):
            if a in res and res[a]["status"] != "timeout":
                results[a] = res[a]
                todo.remove(a)
                progressed = True
        timed = [a for a in todo if a in res and res[a]["status"] == "timeout"]
        if timed:
            a = timed[0]
            # re-run to confirm
            out2 = out + ".confirm"
            if os.path.exists(out2):
                os.remove(out2)
            cmd2 = [exe, "-o", out2, "-only", a, "-floor", str(floor), "-base", ",".join("%s=%.2f" % kv for kv in base.items())]
            vlib.sh2(cmd2 + [d], timeout=3600)
            res2, _, _, _ = parse_res(out2)
            if a in res2 and res2[a]["status"] == "timeout":
                results[a] = dict(res[a], confirmed=True)
                # a baseline that does not return: its configuration variants would only repeat the finding
                for v in VARIANTS.get(a, []):
                    if v in todo:
                        todo.remove(v)
                        results[v] = {"status": "skipped", "secs": 0.0, "budget": 0.0, "detail": "baseline %s timed out" % a}
            elif a in res2:
                results[a] = dict(res2[a], flaky_timeout=res[a]["secs"])
            else:
                results[a] = dict(res[a], confirmed=False)
            todo.remove(a)
            continue
        if rc not in (0, 3):
            # the process died: a panic in a worker goroutine cannot be recovered in-process
            started = [a for a in starts if a not in res]
            a = started[-1] if started else (todo[0] if todo else "?")
            txt = se or so
            m = re.search(r"^(?:panic|fatal error): (.*)$", txt, flags=re.M)
            # message line first (it names the violation), then the goroutine dump from the panic on
            results[a] = {"status": "panic", "secs": 0.0, "budget": 0.0,
                          "detail": ((m.group(1) + "\n" + txt[m.start():m.start() + 1500]) if m else "process died: " + txt[-1500:])}
            if a in todo:
                todo.remove(a)
            continue
        if not progressed:
            break
    for a in todo:
        results.setdefault(a, {"status": "notrun", "secs": 0.0, "budget": 0.0, "detail": ""})
    return results, gen


def diagnose_fs_timeout(d, work):
    """Is a field-sensitive timeout the access-path duplication (F3, fixed in /repo by d51dcca)?  The model of the ORIGINAL addNext
    (-oldaps) must run out of fuel on the dumped graph with access-path lists longer than the number of distinct paths, and the
    model of the current addNext (canonical access paths) must terminate."""
    name = os.path.basename(d)
    dump = os.path.join(work, name + ".f3.dump")
    rc, out = vlib.sh([os.path.join(vlib.BIN, "travdump"), "-novisit", "-fs", "1", "-o", dump, d], timeout=300)
    if rc != 0 or not os.path.exists(dump):
        return False, "travdump -novisit failed: " + out[-300:]
    npaths = sum(1 for l in open(dump) if l.startswith("PATH "))
    rc, o1, _ = vlib.sh2([os.path.join(vlib.BIN, "travmodel"), "-oldaps", "-mode", "run", "-seeds", "1", "-fuel", "600", dump], timeout=600)
    rc2, o2, _ = vlib.sh2([os.path.join(vlib.BIN, "travmodel"), "-fixaps", "-mode", "run", "-seeds", "1", "-fuel", "200000", dump], timeout=600)
    faithful = [l for l in o1.splitlines() if l.startswith("MRES")]
    repaired = [l for l in o2.splitlines() if l.startswith("MRES")]
    grow = False
    for l in faithful:
        m = re.search(r"maxaps=(\d+)", l)
        if " outoffuel " in l and m and int(m.group(1)) > npaths:
            grow = True
    rep_ok = bool(repaired) and all(" done " in l for l in repaired)
    return grow and rep_ok, "faithful model: %s | repaired model: %s | distinct paths %d" % ("; ".join(faithful)[:300], "; ".join(repaired)[:300], npaths)


def first_line(s):
    """stable name of a panic: first line of the message, cut before program-specific parts (` in <function>`, ` at <position>`)"""
    s = s.strip().strip('"').replace("\\n", "\n")
    l = s.split("\n")[0] if s else ""
    if "nil pointer dereference" in l:
        return "nil-deref"
    if l.startswith("runtime error"):
        l = l[len("runtime error"):].strip(": ")
        l = re.sub(r"\[[^\]]*\]", "", l)           # index out of range [5] with length 3
    else:
        l = re.split(r" in | at |: ", l)[0]
    l = re.sub(r"0x[0-9a-f]+", "0x?", l)
    l = re.sub(r"\d+", "N", l)
    return l[:70].strip().replace(" ", "_")


def program_key(d):
    """committed corpus programs are named; seed-generated ones share one name so that their keys do not depend on the seed"""
    name = os.path.basename(d)
    return name if os.path.dirname(os.path.abspath(d)) == os.path.abspath(CORPUS) else "generated"


def panic_site(s):
    """the function of /repo in which the panic was raised (first ar-go-tools frame below panic())"""
    s = s.replace("\\n", "\n").replace("\\t", "\t")
    i = s.find("\npanic(")
    m = re.search(r"github\.com/awslabs/ar-go-tools/[\w/\-]*?(\w+)\.([\w\(\)\*\.\[\]]+?)\(", s[i if i >= 0 else 0:])
    if not m:
        return "?"
    return (m.group(1) + "." + re.sub(r"[\(\)\*]", "", m.group(2)).replace("[...]", "")).strip(".")


# ---------------------------------------------------------------------------------- the check
def run(chk):
    tier = chk.tier
    quick = tier == "quick"
    work = os.path.join(vlib.BUILD, "c07")
    shutil.rmtree(work, ignore_errors=True)
    os.makedirs(work)

    table = gen_instr(chk)
    failed = chk.prove("theories/Properties/C07.v")
    vlib.build_harness(["c07run"])
    travlib.build()
    found_concrete = False

    # ---- tie of the traversal model (the object of visit_terminates) to the code
    progs = travlib.QUICK if quick else travlib.all_programs()
    cfgs = [{"fs": "cfg"}] if quick else [{"fs": "cfg"}, {"fs": "0"}, {"fs": "1"}]
    tie = travlib.run_tie(chk, progs, cfgs, seeds=2 if quick else 5)
    ntie = travlib.report(chk, tie)
    st = tie["stats"]

    # ---- crash / timeout corpus
    dirs = sorted(os.path.join(CORPUS, d) for d in os.listdir(CORPUS) if os.path.exists(os.path.join(CORPUS, d, "main.go"))
                  and not (quick and d in THOROUGH_ONLY))
    ngen = 2 if quick else 10
    dirs += [write_generated(work, chk.seed, k) for k in range(ngen)]
    analyses = QUICK_ANALYSES if quick else ALL_ANALYSES
    floor = 6 if quick else 20
    import concurrent.futures
    allres = {}
    gens = {}
    with concurrent.futures.ThreadPoolExecutor(max_workers=max(2, min(6, vlib.NCPU // 3))) as ex:
        futs = {ex.submit(run_entry_points, d, (ONLY_QUICK[os.path.basename(d)] if quick and os.path.basename(d) in ONLY_QUICK else
                             analyses + ("," + EXTRA_QUICK[os.path.basename(d)] if quick and os.path.basename(d) in EXTRA_QUICK else "")), work, floor): d
                for d in dirs}
        for f in concurrent.futures.as_completed(futs):
            d = futs[f]
            allres[d], gens[d] = f.result()
    counts = {"ok": 0, "err": 0, "panic": 0, "timeout": 0, "flaky_timeout": 0, "notrun": 0, "skipped": 0, "load-error": 0}
    f3_seen = False
    for d in sorted(allres):
        name = os.path.basename(d)
        for a, r in sorted(allres[d].items()):
            stt = r["status"]
            if a == "load":
                counts["load-error"] += 1
                chk.notes.append("corpus program %s does not load: %s" % (name, r["detail"][:200]))
                continue
            if "flaky_timeout" in r:
                counts["flaky_timeout"] += 1
            counts[stt] = counts.get(stt, 0) + 1
            if stt == "panic":
                # stable key: (program, normalised message, entry point).  The panic SITE is not part of the key: the same root
                # cause surfaces at different frames depending on map iteration order (it is kept in the description and replay).
                key = "panic:%s:%s:%s" % (program_key(d), first_line(r["detail"]), a)
                rd = chk.replay_dir(key)
                shutil.copytree(d, os.path.join(rd, name))
                open(os.path.join(rd, "replay.txt"), "w").write(
                    "analysis entry point %s panics on program %s (raised in %s)\n\n%s\n\nre-run: /verif/build/bin/c07run -only %s %s\n"
                    % (a, name, panic_site(r["detail"]), r["detail"].replace("\\n", "\n").replace("\\t", "\t"), a, os.path.join(rd, name)))
                if chk.violation(key, "%s panics on %s: %s (raised in %s)" % (a, name, first_line(r["detail"]), panic_site(r["detail"])), rd):
                    found_concrete = True   # a NEW failing input (listed findings do not explain a broken obligation)
            elif stt == "timeout" and r.get("confirmed"):
                key = "timeout:%s:%s" % (program_key(d), a)
                extra = ""
                if a in ("taint-fs", "taint-fs-ondemand"):
                    is_f3, extra = diagnose_fs_timeout(d, work)
                    if is_f3:
                        key = F3_KEY
                        f3_seen = True
                rd = chk.replay_dir(key + ":" + name)
                shutil.copytree(d, os.path.join(rd, name))
                open(os.path.join(rd, "replay.txt"), "w").write(
                    "analysis entry point %s does not return on program %s within %.1f s (budget = 20 x the baseline configuration of the "
                    "same program, confirmed by a re-run)\n%s\n\nre-run: /verif/build/bin/c07run -only taint,%s %s\n"
                    % (a, name, r["budget"], extra, a, os.path.join(rd, name)))
                if chk.violation(key, "%s does not terminate on %s (budget %.0f s = 20 x baseline, confirmed). %s" % (a, name, r["budget"], extra[:300]), rd):
                    found_concrete = True
    if not f3_seen and any(k["property"] == "C07" and k["key"] == F3_KEY for k in vlib.load_known()):
        f3 = allres.get(os.path.join(CORPUS, "f3"), {})
        if f3.get("taint-fs", {}).get("status") in ("ok", "err"):
            chk.cov["stale_known_finding"] = F3_KEY
            chk.notes.append("the F3 program terminates under field-sensitive: true: the listed finding %s is no longer exhibited" % F3_KEY)

    # ---- side conditions of the dispatch exceptions
    tot = {"multiconvert": 0, "reachable_multiconvert": 0, "reachable_uninstantiated": 0, "uninstantiated": 0}
    for d, g in gens.items():
        for k in tot:
            tot[k] = max(tot[k], g.get(k, 0)) if k in ("multiconvert", "uninstantiated") else tot[k] + g.get(k, 0)
    if tot["reachable_multiconvert"] or tot["reachable_uninstantiated"]:
        found_concrete = True
        bad = [os.path.basename(d) for d, g in gens.items() if g.get("reachable_multiconvert") or g.get("reachable_uninstantiated")]
        rd = chk.replay_dir("dispatch-multiconvert-reachable")
        for b in bad[:2]:
            shutil.copytree([d for d in gens if os.path.basename(d) == b][0], os.path.join(rd, b))
        open(os.path.join(rd, "replay.txt"), "w").write("an uninstantiated generic body (which may contain *ssa.MultiConvert, not handled by "
                                                         "lang.InstrSwitch / pointer genInstr) is reachable in: %s\n" % bad)
        chk.violation("dispatch-multiconvert-reachable", "uninstantiated generic function reachable by the analyses in %s" % bad, rd)
    if tot["multiconvert"] == 0:
        chk.notes.append("side condition for *ssa.MultiConvert is vacuous on this run: no corpus program contains the instruction")
    if_edges = 0
    for _, _, dump, _ in tie["cases"]:
        if os.path.exists(dump):
            ifs = set()
            for l in open(dump, errors="replace"):
                if l.startswith("N "):
                    p = l.split()
                    if p[2] == "I":
                        ifs.add(p[1])
                elif l.startswith("E "):
                    if l.split()[1] in ifs:
                        if_edges += 1
    if if_edges:
        chk.violation("dispatch-ifnode-out-edge", "%d IfNode(s) with outgoing edges: backtrace.visit may reach its panicking default" % if_edges,
                      os.path.join(work), no_input=True)
    uncovered_now = {"%s|%s" % (t["func"], u) for t in table if t["panics"] for u in t["uncovered"]}
    # (a) dispatch_total_partial, evaluated directly on the regenerated table (the Coq theorem says the same and no longer
    # compiles when this fails): a panicking default clause reachable by a concrete type that is not a listed exception.
    exc_src = open(os.path.join(vlib.COQ, "theories", "Properties", "C07.v")).read()
    exceptions = set(re.findall(r'\("([^"]+)", "([^"]+)", "([^"]+)"\)', exc_src[exc_src.find("Definition exceptions"):exc_src.find("Definition exc_mem")]))
    for t in table:
        if not t["panics"]:
            continue
        for u in t["uncovered"]:
            if (t["func"], t["iface"], u) in exceptions:
                continue
            key = "dispatch-uncovered:%s:%s" % (t["func"], u)
            prog = WITNESS_PROGRAM.get(u)
            rd = chk.replay_dir(key)
            if prog and os.path.isdir(os.path.join(CORPUS, prog)):
                shutil.copytree(os.path.join(CORPUS, prog), os.path.join(rd, prog))
            open(os.path.join(rd, "replay.txt"), "w").write(
                "type switch in %s (%s) on a value of interface %s panics in its default clause and has no case for the concrete type %s\n"
                "(regenerated table coq/gen/GenInstr.v; theorem dispatch_total_partial of Properties/C07.v no longer holds).\n%s"
                % (t["func"], t["pos"], t["iface"], u,
                   ("program exercising such a value: %s (re-run: /verif/build/bin/c07run -only escape,taint-escape %s)\n" % (prog, os.path.join(rd, prog)))
                   if prog else "no witness program known for this type\n"))
            if chk.violation(key, "%s (%s): panicking default reachable by %s, which has no case" % (t["func"], t["pos"], u), rd, no_input=not prog):
                found_concrete = found_concrete or bool(prog)

    chk.proof_broken(failed, found_concrete or ntie > 0)

    nruns = sum(len(v) for v in allres.values())
    chk.cov["evaluations"] = nruns + st["steps_checked"] + st["model_runs"]
    chk.cov["distinct_nontrivial"] = len([1 for d in allres for a, r in allres[d].items() if r["status"] in ("ok", "err") and r["secs"] > 0]) \
        + st["entries_nontrivial"]
    chk.cov["rule"] = ("(program, analysis entry point) pairs of the crash/timeout corpus that ran to completion (hand-written programs with "
                       "direct/mutual/closure recursion, recursive types, defers in loops, generics incl. conversions on type parameters, "
                       "bodiless functions, 200-case switch, goroutines/select, nil go statements + seed-generated call graphs; entry points "
                       + analyses + ") plus entry points of the taint testdata whose recorded traversal has >= 3 visitor nodes (tie)")
    chk.cov["traces_validated_against_impl"] = st["steps_ok"]
    chk.cov["distribution"] = {"corpus_programs": len(dirs), "entry_point_runs": nruns, "outcomes": counts,
                               "generic_side_condition": tot, "ifnode_out_edges": if_edges,
                               "panicking_type_switches": [{"pos": t["pos"], "func": t["func"], "iface": t["iface"], "domain": t["domain"],
                                                            "uncovered": t["uncovered"]} for t in table if t["panics"]],
                               "type_switches_scanned": len(table), "uncovered_in_panicking_switches": sorted(uncovered_now),
                               "tie": {k: v for k, v in st.items() if not k.startswith("kind_")},
                               "tie_node_kinds": {k[5:]: v for k, v in st.items() if k.startswith("kind_")}}
    for d in sorted(allres)[:4]:
        chk.sample({"program": os.path.basename(d), "results": {a: "%s %.1fs" % (r["status"], r["secs"]) for a, r in allres[d].items()}})
    chk.cov["partial_or_refuted"] = [
        "visit_terminates: proved for path-insensitive graphs (field-sensitive: false); field-sensitive mode: faithful model diverges "
        "(Example visit_fs_divergence_bounded, finding %s); repaired variant (c_fixaps) not yet proved terminating" % F3_KEY,
        "dispatch_total: holds only up to the 4 listed exceptions (dispatch_total_partial); side conditions checked on this run",
        "termination of backtrace.visit, the intra-procedural pass, escape and pointer analysis: corpus only, no theorem"]
    chk.assumptions += [
        "visit_terminates is about Model/Visit.v; its tie to dataflow_visitor.go is travlib (this run: %d/%d expansions equal, %d/%d runs with "
        "equal sink-hit sets)" % (st["steps_ok"], st["steps_checked"], st["runs_hits_equal"], st["model_runs"]),
        "entry contexts are lasso-free call stacks (GetAllCallingContexts only extends loop-free stacks); graph ids are finite maps",
        "timeouts are judged against 20 x the baseline configuration of the same program in the same process (floor %d s), re-run to confirm; "
        "a slow but terminating analysis below that factor is not detected" % floor,
        "GenInstr.v is produced by go/types on the real sources (trusted translator); a case naming an interface is expanded to its implementers"]
    return chk.finish()


def replay(chk, path):
    p = os.path.join(path, "replay.txt") if os.path.isdir(path) else path
    print(open(p).read())
    return 0
