"""C06 - analysis results are deterministic.

proof      : coq/theories/Properties/C06.v - order_indep: a seen-set worklist computes the reachability closure, so the
             visited set is the same for every successor order / queue discipline, PROVIDED successors are a function of the
             key (generic theorem of Base/Closure.v; the hypothesis is what this check validates on the real code).
tie runs   : the same program + configuration is analysed by the REAL taint and backtrace analyses K times in one process and
             in separate processes (Go re-randomises map iteration order and goroutine scheduling every time), with the CPU
             affinity restricted so that runtime.NumCPU()-1 = number of worker routines is 1, 2 and the machine default:
             the sets of (source, sink) flows, escapes and trace end points and the exit status must be identical.
             Results truncated by max-alarms are exempt: they must only be subsets of the one untruncated set.
"""
import json
import os
import re
import shutil

import vlib
from props import c01_common as C
from props import c05 as C05

REGRESS = os.path.join(vlib.VERIF, "corpus", "mugo", "c01_regress.json")


def canon(r):
    return {"pairs": sorted((p[0], p[1]) for p in r.get("pairs", [])),
            "escapes": sorted(tuple(e) for e in r.get("escapes", [])),
            "traces": sorted(tuple(t) for t in r.get("traces", [])),
            "exit": r.get("exit"), "nerrors": len(r.get("errors", []))}


def stage_bt(work, name):
    src = os.path.join(vlib.REPO, "analysis", "backtrace", "testdata", name)
    if not os.path.isdir(src) or not os.path.exists(os.path.join(src, "config.yaml")):
        return None
    root = os.path.join(work, "td")
    rel = os.path.join("analysis", "backtrace", "testdata", name)
    dst = os.path.join(root, rel)
    shutil.rmtree(dst, ignore_errors=True)
    os.makedirs(os.path.dirname(dst), exist_ok=True)
    shutil.copytree(src, dst, ignore=shutil.ignore_patterns("*-report"))
    gm = os.path.join(root, "go.mod")
    if not os.path.exists(gm):
        open(gm, "w").write("module %s\n\ngo 1.22\n" % C05.MODPATH)
    return dst


def run(chk):
    tier = chk.tier
    failed = chk.prove("theories/Properties/C06.v")
    from props import visit_tie
    visit_tie.run(chk)
    C.build()
    work = os.path.join(vlib.BUILD, "c06")
    shutil.rmtree(work, ignore_errors=True)
    os.makedirs(work)
    K = 3 if tier == "quick" else 25
    ncpu = vlib.NCPU
    cpus_list = [2, 3, None] if ncpu >= 3 else [None]       # NumCPU-1 worker routines: 1, 2, default
    xproc = 1 if tier == "quick" else 4                     # processes per cpu setting

    progs = []      # (name, dir, config or None, specs (taint), specs (backtrace) )
    manifests = {}
    d = os.path.join(work, "regress")
    manifests["regress"] = C.mugo(d, spec=json.load(open(REGRESS)))
    progs.append(("regress", d, None, "config_bt.yaml"))
    for k in range(1 if tier == "quick" else 4):
        d = os.path.join(work, "gen%d" % k)
        manifests["gen%d" % k] = C.mugo(d, seed=chk.seed * 1000 + 700 + k, n=(30 if tier == "quick" else 50))
        progs.append(("gen%d" % k, d, None, "config_bt.yaml"))
    for name in (["escape-integration"] if tier == "quick" else ["escape-integration", "basic", "closures", "agent-example", "globals", "fromlevee"]):
        d = C05.stage_testdata(work, name)
        if d:
            progs.append(("testdata/" + name, d, None, None))
    for name in ([] if tier == "quick" else ["backtrace", "globals", "closures"]):
        d = stage_bt(work, name)
        if d:
            progs.append(("bt-testdata/" + name, d, "BTONLY", None))

    taint_specs = ["od=0,n=%d" % K, "od=1,n=%d" % K, "fs=1,od=0,n=2", "od=0,ma=1,n=%d" % K] + ([] if tier == "quick" else ["od=0,ma=2,n=2"])
    bt_specs = ["bt=1,od=0,n=%d" % K, "bt=1,od=1,n=2"]
    x_taint = ["od=0", "od=1"] if tier == "quick" else ["od=0", "od=1", "od=0,ma=1"]
    x_bt = ["bt=1,od=0"]

    jobs = []
    for name, d, cfg, btcfg in progs:
        to = 150 if tier == "quick" else 600
        if cfg != "BTONLY":
            jobs.append(((name, "taint", "inproc"), dict(d=d, specs=taint_specs, timeout=to)))
            jobs.append(((name, "taint", "inproc-reload"), dict(d=d, specs=["od=0,n=2"], timeout=to, reload=True)))
            for c in cpus_list:
                for x in range(xproc):
                    jobs.append(((name, "taint", "xproc-cpus%s-%d" % (c, x)), dict(d=d, specs=x_taint, timeout=to, cpus=c)))
        if btcfg or cfg == "BTONLY":
            bc = os.path.join(d, btcfg) if btcfg else None
            jobs.append(((name, "bt", "inproc"), dict(d=d, specs=bt_specs, timeout=to, config=bc)))
            for c in (cpus_list[:1] if tier == "quick" else cpus_list):
                jobs.append(((name, "bt", "xproc-cpus%s" % c), dict(d=d, specs=x_bt, timeout=to, config=bc, cpus=c)))
    results = C.trun_many(jobs, workers=max(2, vlib.NCPU // 4))

    stats = {"programs": len(progs), "processes": len(jobs), "runs": 0, "groups": 0, "groups_identical": 0, "nonempty_groups": 0,
             "truncated_runs": 0, "truncated_ok": 0, "failed_runs": 0, "numcpu_seen": set(), "pairs_total": 0, "traces_total": 0,
             "escapes_total": 0}
    found_concrete = False
    groups = {}     # (program, base spec) -> list of (where, run)
    for (name, kind, where), res in results.items():
        if res.get("fatal"):
            raise vlib.BuildError("trun failed on %s (%s)" % (name, where), res["fatal"])
        for r in res["runs"]:
            stats["runs"] += 1
            stats["numcpu_seen"].add(r.get("numcpu"))
            base = ",".join(x for x in r["spec"].split(",") if not x.startswith("n="))
            groups.setdefault((name, base), []).append(("%s#%d" % (where, r["iter"]), r))
    dirs = {name: d for name, d, _, _ in progs}
    for (name, base), rs in sorted(groups.items()):
        ok_runs = [(w, r) for w, r in rs if C.run_ok(r)]
        stats["failed_runs"] += len(rs) - len(ok_runs)
        if len(ok_runs) < len(rs) and ok_runs:
            # some runs of the same input fail and others do not: that is a non-determinism of the verdict as well
            w, r = [(w, r) for w, r in rs if not C.run_ok(r)][0]
            found_concrete = True
            rd = chk.replay_dir("flaky-failure:%s:%s" % (name, base))
            pd = C.copy_prog(dirs[name], rd)
            open(os.path.join(rd, "replay.txt"), "w").write("run %s of configuration %s failed (timeout=%s panic=%s) while %d other runs of the "
                                                             "same input succeeded\n%s\n" % (w, base, r.get("timeout"), r.get("panic"), len(ok_runs), "\n".join(r.get("errors", []))[:3000]))
            chk.violation("flaky-failure:" + base, "some runs of the same program and configuration fail, others succeed (%s, %s)" % (name, base), rd)
        if not ok_runs:
            continue
        if "ma=" in base:
            # exempt from equality: every truncated result must be drawn from the one untruncated set
            ref_base = ",".join(x for x in base.split(",") if not x.startswith("ma="))
            ref = [r for w, r in groups.get((name, ref_base), []) if C.run_ok(r)]
            if not ref:
                continue
            full = set(canon(ref[0])["pairs"])
            k = int([x for x in base.split(",") if x.startswith("ma=")][0][3:])
            for w, r in ok_runs:
                stats["truncated_runs"] += 1
                p = set(canon(r)["pairs"])
                if p <= full and len(p) <= k and bool(p) == bool(full):
                    stats["truncated_ok"] += 1
                else:
                    found_concrete = True
                    rd = chk.replay_dir("truncated-not-subset:%s" % name)
                    pd = C.copy_prog(dirs[name], rd)
                    open(os.path.join(rd, "replay.txt"), "w").write("run %s with %s reports %s which is not a non-empty subset (<= %d) of the untruncated set %s\n"
                                                                     % (w, base, sorted(p), k, sorted(full)[:30]))
                    chk.violation("truncated-not-subset", "max-alarms result not drawn from the untruncated set (%s, %s)" % (name, base), rd)
            continue
        stats["groups"] += 1
        c0 = canon(ok_runs[0][1])
        stats["pairs_total"] += len(c0["pairs"])
        stats["traces_total"] += len(c0["traces"])
        stats["escapes_total"] += len(c0["escapes"])
        if c0["pairs"] or c0["traces"] or c0["escapes"]:
            stats["nonempty_groups"] += 1
        diff = [(w, canon(r)) for w, r in ok_runs[1:] if canon(r) != c0]
        if not diff:
            stats["groups_identical"] += 1
            if len(chk.cov["samples"]) < 8:
                chk.sample({"program": name, "config": base, "runs": len(ok_runs), "pairs": len(c0["pairs"]), "escapes": len(c0["escapes"]),
                            "trace_endpoints": len(c0["traces"]), "where": sorted(set(w.split("#")[0] for w, _ in ok_runs))[:6]})
            continue
        found_concrete = True
        w1, c1 = diff[0]
        what = [f for f in ("pairs", "escapes", "traces", "exit", "nerrors") if c0[f] != c1[f]]
        mode = ("od1" if "od=1" in base else "od0") + ("+fs" if "fs=1" in base else "")
        key = "nondeterministic:%s:%s:%s" % ("+".join(what), "bt" if "bt=1" in base else "taint", mode)
        if what == ["traces"] and name in manifests:
            # attribute the varying traces to scenarios (line of the backtrace point = sink line); when all of them merge
            # two results of one call (atom kind multires) the key says so
            lines = set()
            for w2, c2 in diff:
                for t in set(c0["traces"]) ^ set(c2["traces"]):
                    m = re.search(r":(\d+):\d+", t[2])
                    if m:
                        lines.add(int(m.group(1)))
            scs = [sc for sc in manifests[name]["scenarios"] if sc.get("sink_line") in lines]
            if scs and all(any(a["kind"] == "multires" for a in sc["atoms"]) for sc in scs):
                key += ":multires"
        rd = chk.replay_dir(key + ":" + name)
        pd = C.copy_prog(dirs[name], rd)
        with open(os.path.join(rd, "replay.txt"), "w") as f:
            f.write("program %s, configuration %s: %d of %d runs differ from run %s in %s\n" % (name, base, len(diff), len(ok_runs), ok_runs[0][0], what))
            for fld in what:
                a, b = c0[fld], c1[fld]
                if isinstance(a, list):
                    f.write("%s only in %s: %s\n%s only in %s: %s\n" % (fld, ok_runs[0][0], sorted(set(a) - set(b))[:20], fld, w1, sorted(set(b) - set(a))[:20]))
                else:
                    f.write("%s: %s vs %s\n" % (fld, a, b))
            f.write("\nre-run (several times): %s -dir %s %s '%s,n=10'\n" % (C.TRUN, pd, ("-config %s/config_bt.yaml" % pd) if "bt=1" in base else "", base))
        chk.violation(key, "repeated runs of the same program and configuration report different %s (%s, %s)" % ("/".join(what), name, base), rd)

    chk.proof_broken(failed, found_concrete)
    stats["numcpu_seen"] = sorted(x for x in stats["numcpu_seen"] if x)
    chk.cov["evaluations"] = stats["runs"]
    chk.cov["distinct_nontrivial"] = stats["nonempty_groups"]
    chk.cov["rule"] = ("one evaluation = one run of the real analysis; runs are grouped by (program, configuration) and compared as sets of "
                       "flows / escapes / trace end points + exit status; non-trivial/distinct = groups whose result is non-empty; every group "
                       "has >= %d in-process and >= %d cross-process runs under NumCPU in %s" % (K, len(cpus_list) * xproc, stats["numcpu_seen"]))
    chk.cov["traces_validated_against_impl"] = stats["groups_identical"]
    chk.cov["distribution"] = stats
    chk.assumptions += [
        "Properties/C06.v order_indep is about the abstract worklist; its hypothesis 'successors are a function of the dedup key' is NOT a "
        "theorem about Visitor.Visit (it reads cur.Prev, cur.Depth and the closure-tracing index, none of which is in VisitorNode.Key()); "
        "this check validates the conclusion on the real code by repeated runs, it cannot exhaust map orders / schedules",
        "number of worker routines is varied through the CPU affinity mask (taint.Analyze hard-codes runtime.NumCPU()-1)",
        "schedule-independence of funcutil.MapParallel is builder c20's mappar_correct",
    ]
    return chk.finish()


def replay(chk, path):
    print(open(os.path.join(path, "replay.txt")).read() if os.path.isdir(path) else open(path).read())
    return 0
