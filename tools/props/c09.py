"""C09 - built-in standard-library summaries over-approximate the real functions.

proof      : coq/theories/Properties/C09.v (model Model/Summ.v): apply_exact / nonconforming_drops for ALL summaries and
             signatures; std_table_conforms_except and std_apply_matches_impl by vm_compute over coq/gen/GenStd.v, which
             harness/cmd/gentables/gen_std.go regenerates on every run from analysis/summaries/*.go, the std library of the
             toolchain in use (signatures, return nodes) and the REAL dataflow.NewPredefinedSummary (T-dump of its graph).
structural : every written edge of every entry must be in the real graph, unless the entry is an individually justified
             exception of corpus/c09_known_nonconforming.txt (each one also a KNOWN-FINDING); a new non-conforming
             entry is a VIOLATION with the entry as replay.
semantic   : (search, not proof) generated one-call Go programs feed a unique marker into each argument/receiver in
             turn, run natively, deep-walk results and the other arguments; an observed flow absent from the loaded
             summary is confirmed with the real taint analysis (harness/cmd/c10taint) and then a VIOLATION / finding.
"""
import json
import os
import re
import shutil
import time
import zlib

import vlib

GENJSON = os.path.join(vlib.BUILD, "gen_std.json")
KNOWN_FILE = os.path.join(vlib.VERIF, "corpus", "c09_known_nonconforming.txt")
NOTES_FILE = os.path.join(vlib.VERIF, "corpus", "c09_semantic_notes.txt")


# ------------------------------------------------------------------------------------------------ structural half
def written(e):
    w = set()
    for i, row in enumerate(e["args"]):
        for k in row:
            w.add((0, i, k))
    for i, row in enumerate(e["rets"]):
        for j in row:
            w.add((1, i, j))
    return w


def read_known():
    """corpus/c09_known_nonconforming.txt -> ({function: kind}, {function: rationale})"""
    out, why = {}, {}
    for l in open(KNOWN_FILE):
        body, _, com = l.partition("#")
        body = body.strip()
        if body:
            kind, name = body.split(":", 1)
            out[name.strip()] = kind.strip()
            why[name.strip()] = com.strip()
    return out, why


def read_doubtful():
    out = {}
    try:
        for l in open(NOTES_FILE):
            body, _, com = l.partition("#")
            if body.strip():
                out[body.strip()] = com.strip()
    except OSError:
        pass
    return out


def edge_str(e):
    return "%d->%s%d" % (e[1], "a" if e[0] == 0 else "r", e[2])


# ------------------------------------------------------------------------------------------------ semantic half: synthesis
def q(m):
    return '"\\"" + %s + "\\""' % m


# type -> (carrier expression given a Go string expression M | None, filler expression)
TYPES = {
    "string": (lambda m: m, '"zz"'),
    "[]byte": (lambda m: "[]byte(%s)" % q(m), '[]byte("zz")'),
    "any": (lambda m: "any(%s)" % m, "any(new(string))"),
    "[]any": (lambda m: "[]any{%s}" % m, "[]any{new(string)}"),
    "[]string": (lambda m: "[]string{%s, %s}" % (m, m), '[]string{"zz", "zz"}'),
    "io.Reader": (lambda m: "strings.NewReader(%s)" % q(m), 'strings.NewReader("zz")'),
    "io.ReaderAt": (lambda m: "strings.NewReader(%s)" % q(m), 'strings.NewReader("zz")'),
    "io.RuneReader": (lambda m: "strings.NewReader(%s)" % q(m), 'strings.NewReader("zz")'),
    "io.Writer": (lambda m: "bytes.NewBufferString(%s)" % m, "&bytes.Buffer{}"),
    "[]io.Writer": (lambda m: "[]io.Writer{bytes.NewBufferString(%s)}" % m, "[]io.Writer{&bytes.Buffer{}}"),
    "*bytes.Buffer": (lambda m: "bytes.NewBufferString(%s)" % q(m), "&bytes.Buffer{}"),
    "*strings.Reader": (lambda m: "strings.NewReader(%s)" % q(m), 'strings.NewReader("zz")'),
    "*bytes.Reader": (lambda m: "bytes.NewReader([]byte(%s))" % q(m), 'bytes.NewReader([]byte("zz"))'),
    "*bufio.Reader": (lambda m: "bufio.NewReader(strings.NewReader(%s))" % q(m), 'bufio.NewReader(strings.NewReader("zz"))'),
    "*bufio.Scanner": (lambda m: "bufio.NewScanner(strings.NewReader(%s))" % q(m), 'bufio.NewScanner(strings.NewReader("zz"))'),
    "*regexp.Regexp": (lambda m: "regexp.MustCompile(%s)" % m, 'regexp.MustCompile("[a-z0-9]+")'),
    "*log.Logger": (lambda m: "log.New(&bytes.Buffer{}, %s, 0)" % m, 'log.New(&bytes.Buffer{}, "", 0)'),
    "*encoding/json.Decoder": (lambda m: "json.NewDecoder(strings.NewReader(%s))" % q(m), 'json.NewDecoder(strings.NewReader("1"))'),
    "*encoding/json.Encoder": (lambda m: "json.NewEncoder(bytes.NewBufferString(%s))" % m, "json.NewEncoder(&bytes.Buffer{})"),
    "*encoding/xml.Decoder": (lambda m: 'xml.NewDecoder(strings.NewReader("<a>" + %s + "</a>"))' % m, 'xml.NewDecoder(strings.NewReader("<a>zz</a>"))'),
    "*sync.Map": (lambda m: 'func() *sync.Map { x := &sync.Map{}; x.Store("zz", %s); return x }()' % m, "&sync.Map{}"),
    "*sync/atomic.Value": (lambda m: "func() *atomic.Value { x := &atomic.Value{}; x.Store(%s); return x }()" % m, "&atomic.Value{}"),
    "net/http.Header": (lambda m: 'http.Header{"Zz": []string{%s}}' % m, "http.Header{}"),
    "*net/http.Request": (lambda m: 'func() *http.Request { r, _ := http.NewRequest("GET", "http://h/" + %s, nil); return r }()' % m,
                          'func() *http.Request { r, _ := http.NewRequest("GET", "http://h/zz", nil); return r }()'),
    "context.Context": (lambda m: "context.WithValue(context.Background(), ctxKey{}, %s)" % m, "context.Background()"),
    "encoding/json.Number": (lambda m: "json.Number(%s)" % m, 'json.Number("1")'),
    "reflect.Value": (lambda m: "reflect.ValueOf(%s)" % m, 'reflect.ValueOf("zz")'),
    "[]reflect.Value": (lambda m: "[]reflect.Value{reflect.ValueOf(%s)}" % m, '[]reflect.Value{reflect.ValueOf("zz")}'),
    "reflect.Type": (None, 'reflect.TypeOf("zz")'),
    "reflect.StructTag": (lambda m: 'reflect.StructTag("zz:\\"" + %s + "\\"")' % m, 'reflect.StructTag("zz:\\"v\\"")'),
    "error": (lambda m: "errors.New(%s)" % m, 'errors.New("zz")'),
    "func(string) string": (None, "func(s string) string { return s }"),
    "func(rune) bool": (None, "func(rune) bool { return false }"),
    "bufio.SplitFunc": (None, "bufio.ScanLines"),
    "*string": (lambda m: "func() *string { s := %s; return &s }()" % m, "new(string)"),
    "*bool": (None, "new(bool)"), "*int": (None, "new(int)"), "*float64": (None, "new(float64)"), "*uint": (None, "new(uint)"),
    "*uint64": (None, "new(uint64)"), "*uint32": (None, "new(uint32)"),
    "int": (None, "1"), "int64": (None, "int64(1)"), "int32": (None, "int32(1)"), "uint": (None, "uint(1)"),
    "uint64": (None, "uint64(1)"), "uint32": (None, "uint32(1)"), "float64": (None, "1.5"), "bool": (None, "true"),
    "byte": (None, "byte('a')"), "rune": (None, "'a'"), "[]int": (None, "[]int{1}"),
    "time.Time": (None, "time.Unix(1, 0)"), "time.Duration": (None, "time.Duration(1)"), "*time.Location": (None, "time.UTC"),
    "io/fs.FileMode": (None, "fs.FileMode(0o644)"),
    "*math/big.Float": (None, "big.NewFloat(1.5)"), "*math/big.Int": (None, "big.NewInt(7)"),
    "*math/rand.Rand": (None, "rand.New(rand.NewSource(1))"), "math/rand.Source": (None, "rand.NewSource(1)"),
    "*os.File": (lambda m: "mkfile(%s)" % q(m), 'mkfile("zz")'),
    "*crypto/tls.Config": (lambda m: "&tls.Config{ServerName: %s}" % m, "&tls.Config{}"),
    "*crypto/x509.CertPool": (None, "x509.NewCertPool()"),
}
# receivers of reflect.Value methods need the right kind
REFLECT_RECV = {
    "Elem": lambda m: "reflect.ValueOf(func() *string { s := %s; return &s }())" % m,
    "IsNil": lambda m: "reflect.ValueOf(func() *string { s := %s; return &s }())" % m,
    "Field": lambda m: "reflect.ValueOf(struct{ zz string }{%s})" % m,
    "FieldByName": lambda m: "reflect.ValueOf(struct{ zz string }{%s})" % m,
    "NumField": lambda m: "reflect.ValueOf(struct{ zz string }{%s})" % m,
    "Index": lambda m: "reflect.ValueOf([]string{%s, %s})" % (m, m),
    "Len": lambda m: "reflect.ValueOf([]string{%s})" % m,
    "MapKeys": lambda m: 'reflect.ValueOf(map[string]string{%s: "zz"})' % m,
    "MapIndex": lambda m: 'reflect.ValueOf(map[string]string{"zz": %s})' % m,
    "SetMapIndex": lambda m: 'reflect.ValueOf(map[string]string{"zz": %s})' % m,
    "Set": lambda m: "reflect.ValueOf(func() *string { s := %s; return &s }()).Elem()" % m,
}
IMPORTS = {"strings.": "strings", "bytes.": "bytes", "bufio.": "bufio", "regexp.": "regexp", "log.": "log", "json.": "encoding/json",
           "xml.": "encoding/xml", "sync.": "sync", "atomic.": "sync/atomic", "http.": "net/http", "context.": "context",
           "reflect.": "reflect", "errors.": "errors", "time.": "time", "fs.": "io/fs", "big.": "math/big", "rand.": "math/rand",
           "tls.": "crypto/tls", "x509.": "crypto/x509", "io.": "io", "os.": "os", "fmt.": "fmt"}
DENY = re.compile(r"Fatal|Panic|Exit|Goexit|^\(\*net/http\.Client\)|^net\.Dial|^\(\*os/exec\.Cmd\)|^\(\*sync\.(RW)?Mutex\)|"
                  r"^\(\*sync\.WaitGroup\)|^\(\*sync\.Once\)|^syscall\.|^runtime|^\(\*runtime|^\(\*time\.Ti|^time\.After|^time\.Sleep|"
                  r"^os/exec\.|^fmt\.Scan|^fmt\.Print|^log\.Print|^crypto/x509\.SystemCertPool|^os\.(Remove|Create|MkdirAll|OpenFile)|"
                  r"^io/ioutil\.WriteFile|^flag\.(Parse|Arg|Args)$")


def go_type(t):
    """type string with full package paths -> Go source type with imported package names"""
    return re.sub(r"([A-Za-z0-9_]+/)+([A-Za-z0-9_]+)\.", r"\2.", t)


def exported(name):
    m = re.match(r"\(\*?([^)]*)\)\.(.*)$", name)
    if m:
        tn = m.group(1).rsplit(".", 1)[-1]
        return tn[:1].isupper() and m.group(2)[:1].isupper()
    return name.rsplit(".", 1)[-1][:1].isupper()


def plan_entry(e):
    """-> None (not synthesizable / denied) or dict(call pieces)"""
    name = e["name"]
    if DENY.search(name) or not exported(name):
        return None
    m = re.match(r"\(\*?([^)]*)\)\.(.*)$", name)
    method = m.group(2) if m else None
    params = e["params"]
    for t in params:
        if t not in TYPES:
            return None
    if m is None:
        pkg, fn = name.rsplit(".", 1)
        callee = pkg.rsplit("/", 1)[-1] + "." + fn
        imp = pkg
    else:
        callee = None
        imp = m.group(1).rsplit(".", 1)[0]
    return {"e": e, "method": method, "callee": callee, "import": imp, "variadic": e["sig"].endswith("[variadic]")}


def carrier(p, i, mexpr):
    e = p["e"]
    t = e["params"][i]
    if i == 0 and p["method"] and t == "reflect.Value" and p["method"] in REFLECT_RECV:
        return REFLECT_RECV[p["method"]](mexpr)
    c = TYPES[t][0]
    return c(mexpr) if c else None


def filler(p, i):
    e = p["e"]
    t = e["params"][i]
    if i == 0 and p["method"] and t == "reflect.Value" and p["method"] in REFLECT_RECV:
        return REFLECT_RECV[p["method"]]('"zz"')
    return TYPES[t][1]


PRELUDE_NATIVE = """
type ctxKey struct{}

func mkfile(s string) *os.File {
	f, err := os.CreateTemp(".", "f")
	if err != nil {
		return nil
	}
	f.WriteString(s)
	f.Seek(0, 0)
	return f
}

var budget int

func has(v reflect.Value, m string, depth int, seen map[uintptr]bool) bool {
	budget--
	if depth > 14 || budget < 0 || !v.IsValid() {
		return false
	}
	switch v.Kind() {
	case reflect.String:
		return strings.Contains(strings.ToLower(v.String()), m)
	case reflect.Slice, reflect.Array:
		if v.Kind() == reflect.Slice && v.IsNil() {
			return false
		}
		if v.Type().Elem().Kind() == reflect.Uint8 {
			n := v.Len()
			if n > 1<<20 {
				n = 1 << 20
			}
			b := make([]byte, n)
			for i := 0; i < n; i++ {
				b[i] = byte(v.Index(i).Uint())
			}
			return strings.Contains(strings.ToLower(string(b)), m)
		}
		if v.Type().Elem().Kind() == reflect.Int32 {
			n := v.Len()
			if n > 1<<16 {
				n = 1 << 16
			}
			r := make([]rune, n)
			for i := 0; i < n; i++ {
				r[i] = rune(v.Index(i).Int())
			}
			return strings.Contains(strings.ToLower(string(r)), m)
		}
		for i := 0; i < v.Len() && i < 4096; i++ {
			if has(v.Index(i), m, depth+1, seen) {
				return true
			}
		}
	case reflect.Ptr:
		if v.IsNil() || seen[v.Pointer()] {
			return false
		}
		seen[v.Pointer()] = true
		return has(v.Elem(), m, depth+1, seen)
	case reflect.Interface:
		if v.IsNil() {
			return false
		}
		return has(v.Elem(), m, depth+1, seen)
	case reflect.Struct:
		if v.Type() == reflect.TypeOf(reflect.Value{}) && v.CanInterface() {
			rv := v.Interface().(reflect.Value)
			if rv.IsValid() {
				return has(rv, m, depth+1, seen)
			}
			return false
		}
		for i := 0; i < v.NumField(); i++ {
			if has(v.Field(i), m, depth+1, seen) {
				return true
			}
		}
	case reflect.Map:
		if v.IsNil() {
			return false
		}
		it := v.MapRange()
		for n := 0; it.Next() && n < 4096; n++ {
			if has(it.Key(), m, depth+1, seen) || has(it.Value(), m, depth+1, seen) {
				return true
			}
		}
	}
	return false
}

func obs(n int, tag string, v any) {
	defer func() { recover() }()
	m := fmt.Sprintf("mk%dq", n)
	budget = 400000
	found := has(reflect.ValueOf(v), m, 0, map[uintptr]bool{})
	if !found {
		if e, ok := v.(error); ok && e != nil {
			found = strings.Contains(strings.ToLower(e.Error()), m)
		}
	}
	if found {
		os.Stdout.WriteString(fmt.Sprintf("\\nOBS %d %s\\n", n, tag))
	}
}

func begin(n int) { os.Stdout.WriteString(fmt.Sprintf("\\nBEGIN %d\\n", n)) }
func end(n int)   { os.Stdout.WriteString(fmt.Sprintf("\\nEND %d\\n", n)) }
"""

PRELUDE_TAINT = """
type ctxKey struct{}

func snk(x any) {}
"""
PRELUDE_TAINT_FILE = """
func mkfile(s string) *os.File {
	f, _ := os.CreateTemp(".", "f")
	f.WriteString(s)
	return f
}
"""


def gen_program(probes, native):
    """probes: list of (n, plan, i).  Returns (source, {line: (n, tag)}) - the line map is used by the taint confirmation"""
    body = []
    linemap = {}
    for n, p, i in probes:
        e = p["e"]
        L = []
        t_i = go_type(e["params"][i])
        L.append("func src_%d() %s { return %s }" % (n, t_i, carrier(p, i, '"mk%dq"' % n)))
        L.append("")
        L.append("func probe_%d() {" % n)
        L.append("\tdefer func() { recover() }()")
        if native:
            L.append("\tbegin(%d)" % n)
            L.append("\tdefer end(%d)" % n)
        for k, t in enumerate(e["params"]):
            if k == i:
                L.append("\tvar a%d %s = src_%d()" % (k, go_type(t), n))
            else:
                L.append("\tvar a%d %s = %s" % (k, go_type(t), filler(p, k)))
        args = ["a%d" % k for k in range(len(e["params"]))]
        if p["method"]:
            call = "a0.%s(%s%s)" % (p["method"], ", ".join(args[1:]), "..." if p["variadic"] and len(args) > 1 else "")
        else:
            call = "%s(%s%s)" % (p["callee"], ", ".join(args), "..." if p["variadic"] and args else "")
        nres = e["nresults"]
        if nres:
            L.append("\t%s := %s" % (", ".join("r%d" % j for j in range(nres)), call))
        else:
            L.append("\t" + call)
        targets = [("r%d" % j, "r%d" % j) for j in range(nres)] + [("a%d" % k, "a%d" % k) for k in range(len(args)) if k != i]
        for tag, var in targets:
            if native:
                L.append("\tobs(%d, \"%s\", %s)" % (n, tag, var))
            else:
                L.append("\tsnk(%s)" % var)
            L[-1] += "  // L:%d:%s" % (n, tag)
        if not nres and not native:
            pass
        L.append("}")
        L.append("")
        body.append(L)
    text = "\n".join("\n".join(L) for L in body)
    prelude = PRELUDE_NATIVE if native else (PRELUDE_TAINT + (PRELUDE_TAINT_FILE if "mkfile(" in text else ""))
    if native:
        main = "func main() {\n\tskip := map[int]bool{}\n\tfor _, a := range os.Args[1:] {\n\t\tvar x int\n\t\tfmt.Sscan(a, &x)\n\t\tskip[x] = true\n\t}\n"
        for n, p, i in probes:
            main += "\tif !skip[%d] {\n\t\tprobe_%d()\n\t}\n" % (n, n)
        main += "}\n"
        used = {"os", "fmt", "reflect", "strings"}
    else:
        main = "func main() {\n" + "".join("\tprobe_%d()\n" % n for n, p, i in probes) + "}\n"
        used = set()
    for pref, imp in IMPORTS.items():
        if re.search(r"(?<![A-Za-z0-9_])" + re.escape(pref), text + prelude):
            used.add(imp)
    for n, p, i in probes:
        if not p["method"]:
            used.add(p["import"])
    src = "package main\n\nimport (\n" + "".join('\t"%s"\n' % u for u in sorted(used)) + ")\n" + prelude + "\n" + text + "\n" + main
    for ln, l in enumerate(src.split("\n"), 1):
        mm = re.search(r"// L:(\d+):(\w+)$", l)
        if mm:
            linemap[ln] = (int(mm.group(1)), mm.group(2))
    return src, linemap


def build_and_run_native(work, probes, chk, stats):
    """go build the probe program (dropping probes whose generated code does not compile), run it (skipping probes that kill
    the process), return {n: set(tags observed)} and the set of probes that ran to completion"""
    d = os.path.join(work, "native")
    shutil.rmtree(d, ignore_errors=True)
    os.makedirs(d)
    open(os.path.join(d, "go.mod"), "w").write("module p1\n\ngo 1.22\n")
    cur = list(probes)
    for attempt in range(6):
        src, _ = gen_program(cur, True)
        open(os.path.join(d, "main.go"), "w").write(src)
        rc, out = vlib.sh(["go", "build", "-o", "probe.bin", "."], cwd=d, timeout=900)
        if rc == 0:
            break
        lines = src.split("\n")
        bad = set()
        for m in re.finditer(r"main\.go:(\d+):", out):
            ln = int(m.group(1))
            for k in range(ln - 1, -1, -1):
                mm = re.match(r"func (?:src|probe)_(\d+)\(", lines[k])
                if mm:
                    bad.add(int(mm.group(1)))
                    break
        if not bad:
            raise vlib.BuildError("generated C09 probe program does not compile", out)
        stats["probes_not_compiling"] = stats.get("probes_not_compiling", 0) + len(bad)
        chk.notes.append("probe generator: dropped %d probes that do not compile: %s" % (len(bad), out.strip().split("\n")[1:3]))
        cur = [x for x in cur if x[0] not in bad]
    else:
        raise vlib.BuildError("generated C09 probe program does not compile after 6 repairs", out)
    skip = []
    obs = {}
    done = set()
    for attempt in range(8):
        rc, out, err = vlib.sh2(["./probe.bin"] + [str(s) for s in skip], cwd=d, timeout=300)
        last = None
        for l in out.split("\n"):
            p = l.split()
            if len(p) >= 2 and p[0] == "BEGIN" and p[1].isdigit():
                last = int(p[1])
            elif len(p) >= 2 and p[0] == "END" and p[1].isdigit():
                done.add(int(p[1]))
                last = None
            elif len(p) == 3 and p[0] == "OBS" and p[1].isdigit():
                obs.setdefault(int(p[1]), set()).add(p[2])
        if rc == 0 and last is None:
            break
        if last is None:
            chk.notes.append("native probe run ended with rc=%d outside a probe: %s" % (rc, err[-300:]))
            break
        skip.append(last)
        stats["probes_killed_process"] = stats.get("probes_killed_process", 0) + 1
    return cur, obs, done, d


CONFIG = """options:
  log-level: 1
taint-tracking-problems:
  - sources:
      - package: "p1"
        method: "^src_[0-9]+$"
    sinks:
      - package: "p1"
        method: "^snk$"
"""


HEAVY = {"net/http", "crypto/tls", "crypto/x509", "net", "net/url", "os/exec", "crypto/aes", "crypto/cipher"}
MEDIUM = {"encoding/json", "encoding/xml", "fmt", "reflect", "regexp", "time", "os", "flag", "log", "math/big", "io/ioutil", "context"}


def weight_of(src):
    imps = set(re.findall(r'^\t"([^"]+)"$', src, flags=re.M))
    if imps & HEAVY:
        return "heavy"
    if imps & MEDIUM:
        return "medium"
    return "light"


def confirm_with_tool(work, cands, chk, stats, skip, timeouts):
    """cands: list of (n, plan, i, tag).  Runs the real taint analysis on the same one-call programs (source = the function
    that builds the marked argument, sink on each result / other argument), grouped by the weight of the std packages
    they import (the analysis of a program importing net/http takes minutes and gigabytes).  Returns {(n, tag): status}
    with status 'reported' | 'silent' | 'unrun:<why>'."""
    status = {}
    groups = {"light": [], "medium": [], "heavy": []}
    seen = set()
    for n, p, i, tag in cands:
        if (n, tag) in skip:
            status[(n, tag)] = "unrun:listed finding, re-confirmed in the thorough tier"
            continue
        if n in seen:
            continue
        seen.add(n)
        src1, _ = gen_program([(n, p, i)], False)
        groups[weight_of(src1)].append((n, p, i))
    stats["confirm_groups"] = {k: len(v) for k, v in groups.items()}
    for gname in ("light", "medium", "heavy"):
        probes = groups[gname]
        if not probes:
            continue
        d = os.path.join(work, "confirm_" + gname)
        shutil.rmtree(d, ignore_errors=True)
        os.makedirs(d)
        src, linemap = gen_program(probes, False)
        open(os.path.join(d, "go.mod"), "w").write("module p1\n\ngo 1.22\n")
        open(os.path.join(d, "main.go"), "w").write(src)
        open(os.path.join(d, "config.yaml"), "w").write(CONFIG)
        to = timeouts.get(gname, 0)
        mine = [(n, tag) for n, p, i, tag in cands if n in {x[0] for x in probes} and (n, tag) not in status]
        if to <= 0:
            for k in mine:
                status[k] = "unrun:programs with %s std imports are not run through the taint analysis (does not terminate in practical time/memory)" % gname
            continue
        rc, out = vlib.sh([os.path.join(vlib.BIN, "c10taint"), d], timeout=to)
        srcline = {}
        for ln, l in enumerate(src.split("\n"), 1):
            mm = re.search(r"= src_(\d+)\(\)$", l)
            if mm:
                srcline[ln] = int(mm.group(1))
        ok = False
        reported = set()
        for l in out.split("\n"):
            if l.startswith("P "):
                ok = True
            if l.startswith(("FAIL", "PANIC")):
                ok = False
                chk.notes.append("confirmation run (%s) of the taint analysis failed: %s" % (gname, l[:300]))
            if l.startswith("FLOW "):
                q_ = l.split()
                s_, k_ = srcline.get(int(q_[3])), linemap.get(int(q_[4]))
                if s_ is not None and k_ is not None and k_[0] == s_:
                    reported.add((s_, k_[1]))
        if rc == 124:
            ok = False
            chk.notes.append("confirmation run (%s) of the taint analysis timed out after %d s" % (gname, to))
        for k in mine:
            status[k] = ("reported" if k in reported else "silent") if ok else "unrun:taint analysis of the %s program failed or timed out" % gname
    return status


# ------------------------------------------------------------------------------------------------ the check
def run(chk):
    tier = chk.tier
    phase = {}
    t0 = time.time()
    vlib.build_harness(["gentables", "c10taint"])
    phase["build_harness"] = round(time.time() - t0, 1); t0 = time.time()
    changed = vlib.gen_tables(["std"])
    phase["gen_tables"] = round(time.time() - t0, 1); t0 = time.time()
    failed = chk.prove("theories/Properties/C09.v")
    phase["prove"] = round(time.time() - t0, 1); t0 = time.time()
    work = os.path.join(vlib.BUILD, "c09")
    shutil.rmtree(work, ignore_errors=True)
    os.makedirs(work)
    gen = json.load(open(GENJSON))
    entries = gen["entries"]
    known, known_why = read_known()
    doubtful = read_doubtful()
    stats = {"table_entries": len(entries), "resolved": 0, "dead_keys": [], "nonconforming": [], "new_nonconforming": [],
             "harmless_nonconforming": {}, "doubtful_candidates": {}, "unconfirmed_candidates": {},
             "stale_known_finding": [], "impl_model_mismatch": 0, "literal_evaluator_disagrees": 0, "gen_changed": changed,
             "goversion": gen.get("goversion"), "probed_entries": 0, "probes": 0, "probes_completed": 0, "observed_flows": 0,
             "observed_flows_in_summary": 0, "candidates": 0, "confirmed_missing": [], "covered_by_tool_anyway": []}
    found_concrete = False
    distinct = set()

    # ---- structural half: written edges vs the graph the real loader built
    for e in entries:
        if not e["resolved"]:
            stats["dead_keys"].append(e["name"])
            continue
        stats["resolved"] += 1
        if e.get("litdiff"):
            stats["literal_evaluator_disagrees"] += 1
            chk.notes.append("T-gen cross-check: %s: %s" % (e["name"], e["litdiff"]))
        w = written(e)
        impl = set(tuple(x) for x in e["impl_out"])
        impl_in = set(tuple(x) for x in e["impl_in"])
        if w:
            distinct.add((json.dumps(e["args"]), json.dumps(e["rets"]), e["nparams"], e["nresults"]))
        if len(chk.cov["samples"]) < 5 and len(w) >= 4 and e["nparams"] >= 2 and zlib.crc32(e["name"].encode()) % 11 == chk.seed % 11:
            chk.sample({"entry": e["name"], "sig": e["sig"], "Args": e["args"], "Rets": e["rets"], "nparams": e["nparams"],
                        "ret_node_tuples": e["ret_lens"], "graph_built_by_real_loader": sorted(edge_str(x) for x in impl)})
        dropped = w - impl
        invented = impl - w
        if e.get("impl_panic"):
            found_concrete = True
            rd = chk.replay_dir("loader-panic:" + e["name"])
            json.dump(e, open(os.path.join(rd, "entry.json"), "w"), indent=1)
            open(os.path.join(rd, "replay.txt"), "w").write("dataflow.NewPredefinedSummary panics on %s (%s): %s\nentry: Args=%s Rets=%s\n"
                                                            "re-run: build/bin/gentables -repo /repo -out /tmp/x -only std (VERIF_NO_GEN_CACHE=1)\n"
                                                            % (e["name"], e["sig"], e["impl_panic"], e["args"], e["rets"]))
            chk.violation("loader-panic:" + e["name"], "summary loader panics on table entry %s: %s" % (e["name"], e["impl_panic"][:150]), rd)
            continue
        if invented or impl != impl_in:
            found_concrete = True
            rd = chk.replay_dir("loader-invents:" + e["name"])
            json.dump(e, open(os.path.join(rd, "entry.json"), "w"), indent=1)
            open(os.path.join(rd, "replay.txt"), "w").write(
                "table entry %s (%s): Args=%s Rets=%s\nwritten edges: %s\ngraph built by NewPredefinedSummary: out=%s in=%s\n"
                "edges not written in the table: %s\n" % (e["name"], e["sig"], e["args"], e["rets"], sorted(map(edge_str, w)),
                                                         sorted(map(edge_str, impl)), sorted(map(edge_str, impl_in)), sorted(map(edge_str, invented))))
            chk.violation("loader-invents:" + e["name"], "the loaded graph of %s has edges the table does not write (%s) or its two adjacency "
                          "maps differ" % (e["name"], sorted(map(edge_str, invented))), rd)
        if dropped:
            stats["nonconforming"].append(e["name"])
            kind = known.get(e["name"])
            if kind == "dead-position":
                # excepted in the Coq theorem with a committed rationale; the dropped positions name nothing, no real flow
                # is lost, so this is not a violation of C09: evidence only
                stats["harmless_nonconforming"][e["name"]] = {"sig": e["sig"], "dropped": sorted(map(edge_str, dropped)),
                                                              "rationale": known_why.get(e["name"], "")}
                continue
            key = "nonconforming:" + e["name"]
            rd = chk.replay_dir(key)
            json.dump(e, open(os.path.join(rd, "entry.json"), "w"), indent=1)
            open(os.path.join(rd, "replay.txt"), "w").write(
                "table entry %s does not fit the function it names: %s\n  %d parameters (receiver included), %d results, return-node tuples %s\n"
                "  Args=%s Rets=%s\n  written edges silently dropped by addParamEdgeByPos/addReturnEdgeByPos: %s\n"
                "  graph actually built: %s\n%s"
                "re-check: python3 tools/check.py C09 (table regenerated from analysis/summaries/standard_library.go)\n"
                % (e["name"], e["sig"], e["nparams"], e["nresults"], e["ret_lens"], e["args"], e["rets"], sorted(map(edge_str, dropped)),
                   sorted(map(edge_str, impl)), "" if kind else "  NEW: not in corpus/c09_known_nonconforming.txt, so Properties/C09.v "
                   "std_table_conforms_except no longer holds\n"))
            if kind is None:
                stats["new_nonconforming"].append(e["name"])
                found_concrete = True
            chk.violation(key, "std summary %s (%s): positions %s do not exist, edges dropped" % (e["name"], e["sig"], sorted(map(edge_str, dropped))), rd)
        elif e["name"] in known:
            stats["stale_known_finding"].append(known[e["name"]] + ":" + e["name"])

    # ---- semantic half: native probing
    plans = [p for p in (plan_entry(e) for e in entries if e["resolved"]) if p]
    stats["synthesizable_entries"] = len(plans)
    rnd = vlib.lcg(chk.seed * 31 + 7)
    if tier == "quick":
        core = [p for p in plans if re.match(r"(\(\*?)?(strings|bytes)\.", p["e"]["name"])]
        rest = [p for p in plans if p not in core]
        pick = []
        pool = list(rest)
        while pool and len(pick) < 40:
            pick.append(pool.pop(rnd(len(pool))))
        # entries the structural half singled out are always probed
        must = [p for p in rest if p["e"]["name"] in known and p not in pick]
        plans = core + pick + must
    probes = []
    n = 0
    for p in plans:
        for i in range(len(p["e"]["params"])):
            if carrier(p, i, '"x"') is not None:
                n += 1
                probes.append((n, p, i))
    stats["probed_entries"] = len(plans)
    stats["probes"] = len(probes)
    phase["structural"] = round(time.time() - t0, 1); t0 = time.time()
    ran, obs, done, ndir = build_and_run_native(work, probes, chk, stats)
    phase["native_build_and_run"] = round(time.time() - t0, 1); t0 = time.time()
    stats["probes_completed"] = len(done)
    byn = {x[0]: x for x in ran}
    cands = []
    for pn, tags in sorted(obs.items()):
        if pn not in byn:
            continue
        _, p, i = byn[pn]
        impl = set(tuple(x) for x in p["e"]["impl_out"])
        for tag in sorted(tags):
            stats["observed_flows"] += 1
            edge = (1 if tag[0] == "r" else 0, i, int(tag[1:]))
            if edge in impl:
                stats["observed_flows_in_summary"] += 1
            else:
                cands.append((pn, p, i, tag))
    stats["candidates"] = len(cands)
    if cands:
        known_keys = [k["key"] for k in vlib.load_known() if k["property"] == chk.prop]
        skip = set()
        if tier == "quick":
            skip = {(pn, tag) for pn, p, i, tag in cands
                    if ("missing-flow:%s:%d->%s" % (p["e"]["name"], i, tag)) in known_keys or known.get(p["e"]["name"]) == "nonconforming"
                    or ("%s:%d->%s" % (p["e"]["name"], i, tag)) in doubtful}
        # heavy (net/http, crypto/tls, ...): the taint analysis of such a program did not finish in 55 min and grew to 25 GB
        # on this machine, so it is never run; such candidates stay in evidence as unconfirmed
        timeouts = {"light": 600, "medium": 900, "heavy": 0} if tier == "quick" else {"light": 900, "medium": 1800, "heavy": 0}
        status = confirm_with_tool(work, cands, chk, stats, skip, timeouts)
        stats["confirmation"] = {}
        for pn, p, i, tag in cands:
            fname = p["e"]["name"]
            label = "%s:%d->%s" % (fname, i, tag)
            st = status.get((pn, tag), "unrun:?")
            stats["confirmation"][label] = st
            if st == "reported":
                stats["covered_by_tool_anyway"].append(label)
                continue
            if label in doubtful:
                stats["doubtful_candidates"][label] = doubtful[label]
                continue
            # the same defect as a listed non-conforming entry (its dropped edge IS this flow): reported under that key
            subsumed = known.get(fname) == "nonconforming"
            key = ("nonconforming:" + fname) if subsumed else ("missing-flow:" + label)
            listed = key in known_keys
            if st != "silent" and not listed:
                # observed natively but not demonstrated against the real tool: evidence only
                stats["unconfirmed_candidates"][label] = st
                continue
            stats["confirmed_missing"].append(label)
            if not listed:
                found_concrete = True
            rd = chk.replay_dir(key + ("#" + label if subsumed else ""))
            src1, _ = gen_program([(pn, p, i)], True)
            src2, _ = gen_program([(pn, p, i)], False)
            os.makedirs(os.path.join(rd, "native"))
            os.makedirs(os.path.join(rd, "taint"))
            for sub, s in (("native", src1), ("taint", src2)):
                open(os.path.join(rd, sub, "main.go"), "w").write(s)
                open(os.path.join(rd, sub, "go.mod"), "w").write("module p1\n\ngo 1.22\n")
            open(os.path.join(rd, "taint", "config.yaml"), "w").write(CONFIG)
            what = "reports nothing for that sink" if st == "silent" else "was not run here (%s)" % st[6:]
            open(os.path.join(rd, "replay.txt"), "w").write(
                "%s  %s\nsummary: Args=%s Rets=%s; graph loaded: %s\nnative execution: the marker fed into parameter %d (%s) is found in %s "
                "after the call; the summary has no edge %d->%s; the taint analysis %s.\n"
                "re-run natively: (cd %s/native && go run .)   -> prints 'OBS %d %s'\n"
                "re-run the tool: build/bin/c10taint %s/taint  -> FLOW lines (source line, sink line); none for that sink\n"
                % (fname, p["e"]["sig"], p["e"]["args"], p["e"]["rets"], sorted(edge_str(tuple(x)) for x in p["e"]["impl_out"]), i,
                   p["e"]["params"][i], ("result %s" % tag[1:]) if tag[0] == "r" else ("argument %s" % tag[1:]), i, tag, what, rd, pn, tag, rd))
            chk.violation(key, "%s: real flow parameter %d -> %s observed natively, absent from the summary; the taint analysis %s"
                          % (fname, i, ("result " if tag[0] == "r" else "argument ") + tag[1:], what), rd)

    phase["tool_confirmation"] = round(time.time() - t0, 1)
    stats["phase_seconds"] = phase
    chk.proof_broken(failed, found_concrete)

    chk.cov["evaluations"] = stats["resolved"] + stats["probes_completed"]
    chk.cov["distinct_nontrivial"] = len(distinct)
    chk.cov["rule"] = ("structural: EVERY entry of the regenerated table (%d keys, %d resolved to a function) against its go/types+SSA signature and the "
                       "graph the real loader builds; non-trivial = writes >=1 edge, distinct = distinct (Args, Rets, #params, #results). "
                       "semantic: one native call per (probed entry, marker-carrying parameter); quick = all strings/bytes entries + %s"
                       % (stats["table_entries"], stats["resolved"], "40 seed-chosen others" if tier == "quick" else "all synthesizable entries"))
    chk.cov["exhaustive"] = True   # the structural half enumerates the finite table completely
    chk.cov["traces_validated_against_impl"] = stats["resolved"]
    chk.cov["distribution"] = stats
    chk.assumptions += ["signatures are those of the std library of the toolchain in use (%s); keys that name no function (%d) are dead, not violations"
                        % (gen.get("goversion"), len(stats["dead_keys"])),
                        "semantic half is a search: an explicit flow is only observed when the marker survives verbatim (case-insensitively) in a value "
                        "reachable by reflection from a result / another argument; entries with unsynthesizable or side-effecting "
                        "parameters are not probed (%d of %d resolved entries are synthesizable)" % (stats["synthesizable_entries"], stats["resolved"]),
                        "gen_std output is cached under build/cache keyed by sha256(all non-test Go sources of /repo/analysis and /repo/internal, "
                        "go.mod, the generator's sources, toolchain version, exception names)"]
    return chk.finish()


def replay(chk, path):
    t = os.path.join(path, "replay.txt") if os.path.isdir(path) else path
    print(open(t).read())
    return 0
