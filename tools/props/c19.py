"""C19 - may-panic analysis reports every goroutine entry without a recovering defer.

proof      : coq/theories/Properties/C19.v  (model Model/MayPanic.v, lemmas Proofs/MayPanic.v, T-gen tie Proofs/MayPanicGen.v)
tie T-gen  : harness/cmd/gentables/gen_maypanic.go -> coq/gen/GenMayPanic.v (branches of the three type switches, allow list,
             filter rules), re-proved equal to the model's dispatch by vm_compute on every run
tie T-dump : harness/cmd/c19dump (real findGoFunctions / findRecoverFunctions / doesDeferRecover through the verif hook and the
             real MayPanicAnalyzer -json output, under several -exclude configurations)  ==  extracted model build/bin/c19model
             on the dumped mini-IR; plus the real CLI `argot maypanic [-json] [-exclude ..]` == the in-process result
spec       : independent executable reading of the statement on the dumped mini-IR (static/closure forms must be reported)
search T-gt: every generated scenario (go-statement form x recovering-defer form) is executed natively with a panic inside
             the goroutine; the crash trace's goroutine entry + `created by` site must be in the report whenever the entry
             has no (syntactically) recovering defer
"""
import json
import os
import re
import shutil
import time
import concurrent.futures

import vlib

# ------------------------------------------------------------------------------------------------- program generator

PRELUDE = """
func boom() { panic("boom") }

func never() bool  { return len(os.Args) > 90 }
func always() bool { return len(os.Args) < 90 }
func noop()        {}

func printer()       { print("") }
func namedRec()      { recover() }
func helperRecover() { recover() }
func genRec[X any]() { recover() }

type recT struct{}

func (recT) Rec()   { recover() }
func (*recT) PRec() { recover() }

type recI interface{ Rec() }

func pickf(f func()) func() {
	if never() {
		return noop
	}
	return f
}
"""

# defer forms: label -> lines placed in the entry function before boom()
DEFER_FORMS = [
    ("none", []),
    ("closure", ["defer func() { recover() }()"]),
    ("closure-free", ["x := 0", "defer func() { recover(); x++ }()"]),
    ("named", ["defer namedRec()"]),
    ("nested-helper", ["defer func() { helperRecover() }()"]),
    ("builtin-direct", ["defer recover()"]),
    ("cond-inside-false", ["defer func() {", "\tif never() {", "\t\trecover()", "\t}", "}()"]),
    ("cond-inside-true", ["defer func() {", "\tif always() {", "\t\trecover()", "\t}", "}()"]),
    ("cond-defer-false", ["if never() {", "\tdefer namedRec()", "}"]),
    ("method", ["defer recT{}.Rec()"]),
    ("ptr-method", ["r := &recT{}", "defer r.PRec()"]),
    ("iface", ["var r recI = recT{}", "defer r.Rec()"]),
    ("funcvalue", ["f := pickf(namedRec)", "defer f()"]),
    ("bound", ["f := recT{}.Rec", "defer f()"]),
    ("method-expr", ["defer recT.Rec(recT{})"]),
    ("defer-defer", ["defer func() { defer recover() }()"]),
    ("inner-closure", ["defer func() { func() { recover() }() }()"]),
    ("two-defers", ["defer noop()", "defer namedRec()"]),
    ("repanic", ["defer func() {", "\tif r := recover(); r != nil {", "\t\tpanic(r)", "\t}", "}()"]),
    ("generic", ["defer genRec[int]()"]),
    ("in-loop", ["for i := 0; i < 1; i++ {", "\tdefer namedRec()", "}"]),
    ("go-recover", ["defer func() { go recover() }()"]),
    ("other-pkg", ["defer rec.Rec()"]),
    ("other-builtin", ["defer func() { print(\"\") }()"]),
    ("other-builtin-named", ["defer printer()"]),
    ("recover-value-used", ["defer func() {", "\tif r := recover(); r != nil {", "\t\tnoop()", "\t}", "}()"]),
]
DEFER_LABELS = [d[0] for d in DEFER_FORMS]


def _ind(lines, n=1):
    return ["\t" * n + l for l in lines]


def _entry_body(blines):
    return _ind(blines) + ["\tboom()"]


# go forms: label -> function(k, body lines, marker) -> (package, file, toplevel lines, launch-body lines [in package main])
# `marker` is the comment put on the go statement line so that its position can be mapped back to the scenario.
def g_static(k, b, m):
    return [("main", "scen.go", ["func e%d() {" % k] + _entry_body(b) + ["}"])], ["go e%d() %s" % (k, m)]


def g_anon(k, b, m):
    return [], ["go func() { %s" % m] + _entry_body(b) + ["}()"]


def g_closure(k, b, m):
    return [], ["y := %d" % k, "go func() { %s" % m, "\ty++"] + _entry_body(b) + ["}()"]


def _tdecl(k, b, ptr=False):
    return ["type t%d struct{}" % k, "", "func (%st%d) M() {" % ("*" if ptr else "", k)] + _entry_body(b) + ["}"]


def g_method(k, b, m):
    return [("main", "scen.go", _tdecl(k, b))], ["go t%d{}.M() %s" % (k, m)]


def g_ptrmethod(k, b, m):
    return [("main", "scen.go", _tdecl(k, b, True))], ["t := &t%d{}" % k, "go t.M() %s" % m]


def g_embedded(k, b, m):
    return [("main", "scen.go", _tdecl(k, b) + ["", "type o%d struct{ t%d }" % (k, k)])], ["go o%d{}.M() %s" % (k, m)]


def g_methodexpr(k, b, m):
    return [("main", "scen.go", _tdecl(k, b))], ["go t%d.M(t%d{}) %s" % (k, k, m)]


def g_bound(k, b, m):
    return [("main", "scen.go", _tdecl(k, b))], ["f := t%d{}.M" % k, "go f() %s" % m]


def _idecl(k, b):
    return _tdecl(k, b) + ["", "type i%d interface{ M() }" % k]


def g_invoke(k, b, m):
    return [("main", "scen.go", _idecl(k, b))], ["var i i%d = t%d{}" % (k, k), "go i.M() %s" % m]


def g_embedded_iface(k, b, m):
    return [("main", "scen.go", _idecl(k, b) + ["", "type o%d struct{ i%d }" % (k, k)])], \
        ["o := o%d{t%d{}}" % (k, k), "go o.M() %s" % m]


def g_ibound(k, b, m):
    return [("main", "scen.go", _idecl(k, b))], ["var i i%d = t%d{}" % (k, k), "f := i.M", "go f() %s" % m]


def g_imethodexpr(k, b, m):
    return [("main", "scen.go", _idecl(k, b))], ["var i i%d = t%d{}" % (k, k), "go i%d.M(i) %s" % (k, m)]


def g_generic(k, b, m):
    return [("main", "scen.go", ["func e%d[X any](_ X) {" % k] + _entry_body(b) + ["}"])], ["go e%d[int](1) %s" % (k, m)]


def g_genmethod(k, b, m):
    return [("main", "scen.go", ["type g%d[X any] struct{ x X }" % k, "", "func (g%d[X]) M() {" % k] + _entry_body(b) + ["}"])], \
        ["go g%d[int]{}.M() %s" % (k, m)]


def g_fv_local(k, b, m):
    return [("main", "scen.go", ["func e%d() {" % k] + _entry_body(b) + ["}"])], ["f := pickf(e%d)" % k, "go f() %s" % m]


def g_fv_result(k, b, m):
    return [("main", "scen.go", ["func mk%d() func() {" % k, "\treturn func() {"] + _ind(_entry_body(b)) + ["\t}", "}"])], \
        ["go mk%d()() %s" % (k, m)]


def g_fv_global(k, b, m):
    return [("main", "scen.go", ["var gf%d = func() {" % k] + _entry_body(b) + ["}"])], ["go gf%d() %s" % (k, m)]


def g_fv_field(k, b, m):
    return [("main", "scen.go", ["func e%d() {" % k] + _entry_body(b) + ["}"])], \
        ["s := struct{ f func() }{e%d}" % k, "go s.f() %s" % m]


def g_fv_param(k, b, m):
    # the go statement is in the shared helper spawn (one creation site for many functions)
    return [("main", "scen.go", ["func e%d() {" % k] + _entry_body(b) + ["}"])], ["spawn(e%d)" % k]


def g_nested(k, b, m):
    return [("main", "scen.go", ["func e%d() {" % k] + _entry_body(b) + ["}"])], \
        ["go func() {", "\tgo e%d() %s" % (k, m), "}()"]


def g_two_sites(k, b, m):
    return [("main", "scen.go", ["func e%d() {" % k] + _entry_body(b) + ["}", "",
                                 "func also%d() {" % k, "\tif never() {", "\t\tgo e%d() %s" % (k, m), "\t\tgo e%d() %s" % (k, m), "\t}", "}"])], \
        ["also%d()" % k, "go e%d() %s" % (k, m)]


def _pkg_callee(pkg, file):
    def g(k, b, m):
        return [(pkg, file, ["func E%d() {" % k] + _entry_body(b) + ["}"])], ["go %s.E%d() %s" % (pkg, k, m)]
    return g


def g_exfile(k, b, m):
    return [("main", "exfile.go", ["func x%d() {" % k] + _entry_body(b) + ["}"])], ["go x%d() %s" % (k, m)]


def g_go_in_lib(k, b, m):
    # the go statement lies in package lib (excludable directory) and launches a function of package other
    return [("other", "other.go", ["func E%d() {" % k] + _entry_body(b) + ["}"]),
            ("lib", "lib.go", ["func GoOther%d() {" % k, "\tgo other.E%d() %s" % (k, m), "}"])], ["lib.GoOther%d()" % k]


def g_in_generic_static(k, b, m):
    return [("main", "scen.go", ["func e%d() {" % k] + _entry_body(b) + ["}", "",
                                 "func start%d[X any](_ X) {" % k, "\tgo e%d() %s" % (k, m), "}"])], ["start%d[int](1)" % k]


def g_in_generic_invoke(k, b, m):
    # invoke-mode in the generic body, static call of (w).Run in the instance start[w]
    return [("main", "scen.go", ["type r%d interface{ Run() }" % k, "", "type w%d struct{}" % k, "",
                                 "func (w%d) Run() {" % k] + _entry_body(b) + ["}", "",
                                 "func start%d[T r%d](t T) {" % (k, k), "\tgo t.Run() %s" % m, "}"])], ["start%d(w%d{})" % (k, k)]


def g_in_generic_closure(k, b, m):
    return [("main", "scen.go", ["func start%d[X any](_ X) {" % k, "\ty := 0", "\tgo func() { %s" % m, "\t\ty++"] +
             _ind(_entry_body(b)) + ["\t}()", "}"])], ["start%d[string](\"s\")" % k]


def g_in_generic_method(k, b, m):
    return [("main", "scen.go", ["func e%d() {" % k] + _entry_body(b) + ["}", "", "type h%d[X any] struct{ x X }" % k, "",
                                 "func (h%d[X]) Start() {" % k, "\tgo e%d() %s" % (k, m), "}"])], ["h%d[int]{}.Start()" % k]


def g_in_init_closure(k, b, m):
    # the go statement is in an anonymous function of the (synthetic) package initializer
    return [("main", "scen.go", ["func e%d() {" % k] + _entry_body(b) + ["}", "",
                                 "var v%d = func() int {" % k, "\tif len(os.Args) > 1 && os.Args[1] == \"%d\" {" % k,
                                 "\t\tgo e%d() %s" % (k, m), "\t}", "\treturn 0", "}()"])], ["_ = v%d" % k]


def g_in_init_func(k, b, m):
    return [("main", "scen.go", ["func e%d() {" % k] + _entry_body(b) + ["}", "",
                                 "func init() {", "\tif len(os.Args) > 1 && os.Args[1] == \"%d\" {" % k,
                                 "\t\tgo e%d() %s" % (k, m), "\t}", "}"])], []


GO_FORMS = [
    ("static", g_static), ("anon", g_anon), ("closure", g_closure), ("method", g_method), ("ptr-method", g_ptrmethod),
    ("embedded-method", g_embedded), ("method-expr", g_methodexpr), ("bound-method-value", g_bound),
    ("invoke", g_invoke), ("embedded-iface", g_embedded_iface), ("iface-bound-value", g_ibound),
    ("iface-method-expr", g_imethodexpr), ("generic", g_generic), ("generic-method", g_genmethod),
    ("fv-local", g_fv_local), ("fv-result", g_fv_result), ("fv-global", g_fv_global), ("fv-field", g_fv_field),
    ("fv-param", g_fv_param), ("nested-go", g_nested), ("two-sites", g_two_sites),
    ("callee-in-lib", _pkg_callee("lib", "lib.go")), ("callee-in-lib2", _pkg_callee("lib", "lib2.go")),
    ("callee-in-libx", _pkg_callee("libx", "libx.go")), ("callee-in-exfile", g_exfile), ("go-in-lib", g_go_in_lib),
    ("in-generic-static", g_in_generic_static), ("in-generic-invoke", g_in_generic_invoke),
    ("in-generic-closure", g_in_generic_closure), ("in-generic-method", g_in_generic_method),
    ("in-init-closure", g_in_init_closure), ("in-init-func", g_in_init_func),
]
GO_LABELS = [g[0] for g in GO_FORMS]

# single scenarios that have no entry function of ours (no defer form applies)
SPECIAL = [
    ("callee-allowlisted-sort", ["xs := []int{2, 1}", "go sort.Slice(xs, func(a, b int) bool { boom(); return a < b }) %s"]),
    ("callee-allowlisted-strings", ["go strings.Map(func(r rune) rune { boom(); return r }, \"ab\") %s"]),
    ("builtin-panic", ["go panic(\"boom\") %s"]),
    ("builtin-println", ["go println(\"x\") %s"]),
]

PKGS = {"main": ".", "lib": "lib", "libx": "libx", "other": "other", "rec": "rec"}
IMPORTS = {
    ("main", "main.go"): ["context", "fmt", "os", "os/exec", "runtime", "strconv", "time"],
    ("main", "scen.go"): ["os", "sort", "strings", "go19/lib", "go19/libx", "go19/rec"],
    ("main", "exfile.go"): ["go19/rec"],
    ("lib", "lib.go"): ["os", "go19/other", "go19/rec"],
    ("lib", "lib2.go"): ["go19/rec"],
    ("libx", "libx.go"): ["os", "go19/rec"],
    ("other", "other.go"): ["os", "go19/rec"],
}


def gen_program(seed, tier, only=None, extra_imports=()):
    """-> (files {relpath: text}, scenarios [dict(idx, go, defers, special)]).  `only`: keep just these scenario indices
    (used to write minimised replays; indices stay those of the full program)."""
    rnd = vlib.lcg(seed * 7919 + 17)
    scen = []
    # full matrix: every go form x every defer form
    for gl, _ in GO_FORMS:
        for dl in DEFER_LABELS:
            scen.append({"go": gl, "defers": [dl]})
    for sl, _ in SPECIAL:
        scen.append({"go": sl, "defers": [], "special": True})
    # seed-derived: several defer forms in one entry, in random order
    nrand = 60 if tier == "quick" else 400
    for _ in range(nrand):
        n = 2 + rnd(3)
        scen.append({"go": GO_LABELS[rnd(len(GO_LABELS))], "defers": [DEFER_LABELS[rnd(len(DEFER_LABELS))] for _ in range(n)]})
    for i, s in enumerate(scen):
        s["idx"] = i

    top = {k: [] for k in IMPORTS}      # (pkg, file) -> lines
    launches = []
    gof = dict(GO_FORMS)
    dform = dict(DEFER_FORMS)
    spec = dict(SPECIAL)
    for s in scen:
        k = s["idx"]
        if only is not None and k not in only:
            continue
        marker = "// S:%d" % k
        if s.get("special"):
            lb = [l % marker if "%s" in l else l for l in spec[s["go"]]]
            decls = []
        else:
            if len(s["defers"]) == 1:
                body = list(dform[s["defers"][0]])
            else:
                body = []
                for dl in s["defers"]:
                    body += ["{"] + _ind(dform[dl]) + ["}"]
            decls, lb = gof[s["go"]](k, body, marker)
        for pkg, file, lines in decls:
            top[(pkg, file)] += [""] + lines
        launches.append((k, lb))
    files = {"go.mod": "module go19\n\ngo 1.22\n"}
    main = ["func spawn(f func()) {", "\tgo f() // S:spawn", "}", "", "func launch(n int) {", "\tswitch n {"]
    for k, _ in launches:
        main += ["\tcase %d:" % k, "\t\tlaunch%d()" % k]
    main += ["\t}", "}", "", "func main() {", "\tif len(os.Args) < 2 {", "\t\treturn", "\t}",
             "\t_ = exec.Command", "\t_ = context.Background",
             "\tn, _ := strconv.Atoi(os.Args[1])", "\tlaunch(n)",
             "\tfor i := 0; i < 2000 && runtime.NumGoroutine() > 1; i++ {", "\t\ttime.Sleep(2 * time.Millisecond)", "\t}",
             "\tfmt.Println(\"SURVIVED\")", "}"]
    top[("main", "main.go")] += [""] + main
    for k, lb in launches:
        top[("main", "scen.go")] += ["", "func launch%d() {" % k] + _ind(lb) + ["}"]
    top[("main", "scen.go")] += ["", "var _ = sort.Ints", "var _ = strings.ToUpper", "var _ = lib.Keep", "var _ = libx.Keep", "var _ = rec.Rec"]
    top[("lib", "lib.go")] += ["", "var Keep = other.Keep", "var _ = rec.Rec"]
    top[("lib", "lib2.go")] += ["", "var keep2 = rec.Rec"]
    top[("libx", "libx.go")] += ["", "var Keep = 0", "var _ = rec.Rec"]
    top[("other", "other.go")] += ["", "var Keep = 0", "var _ = rec.Rec"]
    top[("main", "exfile.go")] += ["", "var keepx = rec.Rec"]
    for (pkg, file), lines in top.items():
        imps = list(IMPORTS[(pkg, file)]) + (list(extra_imports) if (pkg, file) == ("main", "main.go") else [])
        txt = ["package %s" % pkg, "", "import ("] + ["\t%s\"%s\"" % ("_ " if i in extra_imports else "", i) for i in imps] + [")"]
        # the helper prelude once per package (in its first file)
        if file in ("scen.go", "lib.go", "libx.go", "other.go"):
            txt += PRELUDE.split("\n")
        txt += lines
        files[os.path.join(PKGS[pkg], file)] = "\n".join(txt) + "\n"
    files[os.path.join("rec", "rec.go")] = "package rec\n\n// Rec calls recover directly.\nfunc Rec() { recover() }\n"
    return files, scen


def write_program(d, files):
    shutil.rmtree(d, ignore_errors=True)
    for rel, txt in files.items():
        p = os.path.join(d, rel)
        os.makedirs(os.path.dirname(p), exist_ok=True)
        open(p, "w").write(txt)


def exclude_configs(progdir):
    """raw -exclude lists, as typed on the command line with cwd = program directory; index = configuration number"""
    return [[], ["lib"], ["lib/"], ["exfile.go"], [os.path.join(progdir, "lib", "lib.go")], ["lib", "other", "exfile.go"],
            ["li"], ["libx/"], ["./lib"], [os.path.join(progdir, "libx")]]


# ------------------------------------------------------------------------------------------------- dump parsing

class Dump:
    def __init__(self, path):
        self.allow = []
        self.cwd = ""
        self.F = {}          # fid -> dict(name,pkg,file,line,col,end,synth)
        self.I = {}          # fid -> list of (kind, form, arg, posid)
        self.P = {}          # posid -> "file:line:col"
        self.T = {}          # (fid, posid or None, kind, ordinal) -> candidates
        self.E = {}          # k -> raw excludes
        self.obs = {"IG": {}, "IR": set(), "ID": set(), "IX": {}, "MG": {}, "MR": set(), "MD": set(), "MX": {}}
        self.err = []
        self.go_at = {}      # posid -> [(owner fid, form, arg)]: a generic body and each of its instances share a position
        self.dyn_targets = {}  # (owner fid, posid) -> candidate fids (dynamic go statements)
        self.dyn_defer = {}  # fid -> list of candidate lists (dynamic defers)
        if path:
            self.read(path)

    def read(self, path):
        for l in open(path, errors="replace"):
            p = l.rstrip("\n").split("\t")
            t = p[0]
            if t == "A":
                self.allow.append(p[1])
            elif t == "W":
                self.cwd = p[1]
            elif t == "F":
                self.F[int(p[1])] = {"name": p[2], "pkg": None if p[3] == "-" else p[3], "file": "" if p[4] == "-" else p[4],
                                     "line": int(p[5]), "col": int(p[6]), "end": int(p[7]), "synth": "" if p[8] == "-" else p[8]}
            elif t == "I":
                fid = int(p[1])
                pid = None if p[5] == "-" else int(p[5])
                self.I.setdefault(fid, []).append((p[2], p[3], p[4], pid))
                if p[2] == "go":
                    self.go_at.setdefault(pid, []).append((fid, p[3], p[4]))
            elif t == "P":
                self.P[int(p[1])] = p[2]
            elif t == "T":
                fid = int(p[1])
                cands = [int(x) for x in p[4:]]
                if p[3] == "go":
                    self.dyn_targets[(fid, int(p[2]))] = cands
                else:
                    self.dyn_defer.setdefault(fid, []).append(cands)
            elif t == "E":
                self.E[int(p[1])] = p[2:]
            elif t in ("IG", "MG"):
                self.obs[t][int(p[1])] = tuple(sorted(int(x) for x in p[2:]))
            elif t in ("IR", "ID", "MR", "MD"):
                self.obs[t].add(int(p[1]))
            elif t in ("IX", "MX"):
                self.obs[t].setdefault(int(p[1]), {})[int(p[2])] = tuple(sorted(int(x) for x in p[3:]))
            elif t == "ERR":
                self.err.append(" ".join(p[1:]))

    # ---- independent executable spec (from the statement, on the mini-IR) ---------------------------------------
    def calls_recover(self, g):
        return any(k == "call" and f == "builtin" and a == "recover" for (k, f, a, _) in self.I.get(g, []))

    def direct_recovering(self, f):
        """f itself defers (named function / method with static receiver / closure) a function that calls recover directly"""
        return any(k == "defer" and fm in ("static", "closure") and self.calls_recover(int(a)) for (k, fm, a, _) in self.I.get(f, []))

    def may_recovering(self, f):
        return self.direct_recovering(f) or any(any(self.calls_recover(g) for g in c) for c in self.dyn_defer.get(f, []))

    def allowlisted(self, path):
        return any(path == p or path.startswith(p + "/") for p in self.allow)

    def excluded(self, file, raw):
        for e in raw:
            a = e if e.startswith("/") else self.cwd + "/" + e
            if a.endswith(".go"):
                if file == a:
                    return True
            elif file.startswith(a if a.endswith("/") else a + "/"):
                return True
        return False

    def fn_filtered(self, f, raw):
        """(allowlisted, excluded) of function f: the tool's filter, which only applies to functions with a package"""
        fn = self.F[f]
        if fn["pkg"] is None:
            return (False, False)
        return (self.allowlisted(fn["pkg"]), self.excluded(fn["file"], raw))

    def function_at(self, file, line):
        """innermost non-synthetic function(s) whose source span contains file:line"""
        best = None
        res = []
        for fid, fn in self.F.items():
            if is_wrapper(fn) or fn["file"] != file or not (fn["line"] <= line <= fn["end"]):
                continue
            span = fn["end"] - fn["line"]
            if best is None or span < best:
                best, res = span, [fid]
            elif span == best:
                res.append(fid)
        return res

    def stmt_filtered(self, pid, raw):
        """does the go statement at position pid lie in allow-listed / excluded code?  Decided on the statement's own file
        and on the package of the enclosing function (generic instances have no package: their origin at the same
        position has)."""
        owners = [o for (o, _, _) in self.go_at.get(pid, [])]
        pkgs = [self.F[o]["pkg"] for o in owners if self.F[o]["pkg"]]
        mm = re.match(r"(.*):(\d+):(\d+)$", self.P.get(pid, ""))
        file = mm.group(1) if mm else ""
        return any(self.allowlisted(p) for p in pkgs) or self.excluded(file, raw)


def is_wrapper(fn):
    """synthetic wrapper functions (bound-method closures, thunks, promoted-method wrappers) - not generic instances"""
    return bool(fn["synth"]) and not fn["synth"].startswith("instance of") and not fn["synth"].startswith("package initializer")


def parse_trace(err):
    """crash output of a natively run scenario -> (entry (file, line), created-by (file, line)) or None"""
    lines = err.split("\n")
    for i, l in enumerate(lines):
        if l.startswith("goroutine ") and "[running]" in l:
            frames = []
            j = i + 1
            created = None
            while j + 1 < len(lines) and lines[j].strip() != "":
                fn = lines[j]
                loc = lines[j + 1].strip()
                m = re.match(r"(.*?):(\d+)(?: \+0x[0-9a-f]+)?$", loc)
                if m is None:
                    break
                if fn.startswith("created by "):
                    created = (m.group(1), int(m.group(2)))
                    break
                frames.append((fn, m.group(1), int(m.group(2))))
                j += 2
            if created and frames:
                return (frames[-1][1], frames[-1][2], frames[-1][0]), created
            return None
    return None


# ------------------------------------------------------------------------------------------------- the check

def gen_tables_private():
    """T-gen with a gentables binary made of main.go + gen_maypanic.go only (same protocol as vlib.gen_tables)"""
    exe = os.path.join(vlib.BIN, "gentables-c19")
    alt = ["-modfile", os.path.join(vlib.BUILD, "go.alt.mod")] if vlib.REPO != "/repo" else []
    rc, log = vlib.sh(["go", "build"] + alt + ["-o", exe, "cmd/gentables/main.go", "cmd/gentables/gen_maypanic.go"], timeout=900, cwd=vlib.HARNESS)
    if rc != 0:
        raise vlib.BuildError("go build of gentables (main.go + gen_maypanic.go) failed", log)
    tmp = os.path.join(vlib.BUILD, "gen.tmp.c19")
    shutil.rmtree(tmp, ignore_errors=True)
    os.makedirs(tmp)
    rc, log = vlib.sh([exe, "-repo", vlib.REPO, "-out", tmp, "-only", "maypanic"], timeout=300, cwd=vlib.HARNESS)
    if rc != 0:
        raise vlib.BuildError("gentables maypanic failed", log)
    changed = []
    for f in sorted(os.listdir(tmp)):
        if vlib._write_if_changed(os.path.join(vlib.COQ, "gen", f), open(os.path.join(tmp, f)).read()):
            changed.append(f)
    return changed


def run(chk):
    tier = chk.tier
    timing = {}
    t_last = [time.time()]

    def lap(name):
        now = time.time()
        timing[name] = round(timing.get(name, 0) + now - t_last[0], 1)
        t_last[0] = now

    vlib.build_harness(["c19dump"])
    try:
        vlib.build_harness(["gentables"])
        changed = vlib.gen_tables(["maypanic"])
    except vlib.BuildError as e:
        # another builder's generator in the shared gentables package does not compile: build ours alone
        chk.notes.append("shared gentables did not build (%s); built gen_maypanic.go alone" % e.log.strip().split("\n")[-1][:160])
        changed = gen_tables_private()
    lap("build_harness+gentables")
    failed = chk.prove("theories/Properties/C19.v")
    lap("coq")
    try:
        model = vlib.build_model("c19")
    except vlib.BuildError:
        # the extracted model only needs Model/MayPanic.vo; build it even when a proof is broken
        vlib.build_coq(["theories/Model/MayPanic.vo"])
        model = vlib.build_model("c19")
    argot = vlib.build_argot()
    lap("build_model+argot")
    work = os.path.join(vlib.BUILD, "c19")
    shutil.rmtree(work, ignore_errors=True)
    os.makedirs(work)
    if changed:
        chk.notes.append("regenerated tables changed: %s" % ",".join(changed))

    stats = {"functions": 0, "go_instrs": 0, "defer_instrs": 0, "scenarios": 0, "native_runs": 0, "native_crashes": 0,
             "native_survived": 0, "native_checked": 0, "semantic_gap_crashes": 0, "stage_mismatch_alarm": 0,
             "impl_more_conservative": 0, "spec_checks": 0, "cli_runs": 0, "configs": 0, "out_of_scope_crashes": 0,
             "wrapper_accepted": 0}
    classes = set()
    found = [False]
    alarm_ties = []
    conservative = []
    reported_keys = {}

    def violation(key, what, mk_replay):
        if key in reported_keys:
            return
        d = chk.replay_dir(key)
        mk_replay(d)
        reported_keys[key] = d
        if chk.violation(key, what, d):      # False for a listed known finding
            found[0] = True

    # ---------------------------------------------------------------------------------------------- one program
    def handle(progdir, scen, gen_seed, native, cli):
        dumpf = os.path.join(work, os.path.basename(progdir) + ".dump")
        cfgs = exclude_configs(progdir) if scen is not None else [[]]
        cmd = [os.path.join(vlib.BIN, "c19dump"), "-o", dumpf]
        for c in cfgs[1:]:
            cmd += ["-x", ",".join(c)]
        rc, out = vlib.sh(cmd + [progdir], timeout=1500)
        if rc != 0:
            raise vlib.BuildError("c19dump failed on %s" % progdir, out)
        rc, mout, merr = vlib.sh2([model], inp=open(dumpf, errors="replace").read(), timeout=900)
        if rc != 0:
            raise vlib.BuildError("c19model failed on %s" % progdir, merr)
        open(dumpf + ".model", "w").write(mout)
        lap("dump+model")
        D = Dump(dumpf)
        M = Dump(dumpf + ".model")
        for k in ("MG", "MR", "MD", "MX"):
            D.obs[k] = M.obs[k]
        if D.err:
            raise vlib.BuildError("c19dump could not interpret the analyzer's output", "\n".join(D.err[:20]))
        stats["functions"] += len(D.F)
        stats["go_instrs"] += sum(len(v) for v in D.go_at.values())
        stats["go_instrs_in_synthetic"] = stats.get("go_instrs_in_synthetic", 0) + sum(
            1 for v in D.go_at.values() for (o, _, _) in v if D.F[o]["synth"])
        stats["defer_instrs"] += sum(1 for ins in D.I.values() for i in ins if i[0] == "defer")
        stats["configs"] += len(cfgs)

        # scenario of a creation site
        site_scen = {}
        if scen is not None:
            byidx = {s["idx"]: s for s in scen}
            for rel in [r for r in os.listdir(progdir) if r.endswith(".go")] + \
                       [os.path.join(p, r) for p in ("lib", "libx", "other") for r in os.listdir(os.path.join(progdir, p))]:
                for ln, t in enumerate(open(os.path.join(progdir, rel)).read().split("\n"), 1):
                    mm = re.search(r"// S:(\w+)", t)
                    if mm:
                        site_scen[(os.path.join(progdir, rel), ln)] = byidx.get(int(mm.group(1))) if mm.group(1).isdigit() else {"go": "fv-param", "defers": ["*"], "idx": -1}
        pos_of_site = {}
        for pid, s in D.P.items():
            mm = re.match(r"(.*):(\d+):(\d+)$", s)
            if mm:
                pos_of_site[(mm.group(1), int(mm.group(2)))] = pid

        def label(pid, entry=None):
            s = D.P.get(pid, "")
            mm = re.match(r"(.*):(\d+):(\d+)$", s)
            sc = site_scen.get((mm.group(1), int(mm.group(2)))) if mm else None
            if sc:
                return "go-%s+defer-%s" % (sc["go"], ",".join(sc["defers"]))
            return "go-stmt:%s" % (D.F[entry]["name"] if entry is not None else s)

        def mk_replay(key, what, pid, k):
            def f(d):
                sc = None
                s = D.P.get(pid, "")
                mm = re.match(r"(.*):(\d+):(\d+)$", s)
                if mm:
                    sc = site_scen.get((mm.group(1), int(mm.group(2))))
                raw = cfgs[k] if k is not None else []
                with open(os.path.join(d, "replay.txt"), "w") as fo:
                    fo.write("C19 %s\n%s\n\n" % (key, what))
                    fo.write("go statement at %s   exclude configuration: %s\n" % (s, raw))
                    if sc is not None and sc.get("idx", -1) >= 0 and gen_seed is not None:
                        files, _ = gen_program(gen_seed, tier, only={sc["idx"]})
                        write_program(os.path.join(d, "prog"), files)
                        fo.write("minimised program: prog/   (scenario %d: go form %s, defer forms %s)\n" % (sc["idx"], sc["go"], sc["defers"]))
                        fo.write("re-run analysis : cd prog && %s maypanic -json %s .\n" % (argot, " ".join("-exclude " + e for e in raw)))
                        fo.write("re-run natively : cd prog && go run . %d     (crash trace: goroutine entry + 'created by')\n" % sc["idx"])
                    else:
                        fo.write("program: %s\nre-run analysis : cd %s && %s maypanic -json %s .\n" % (progdir, progdir, argot, " ".join("-exclude " + e for e in raw)))
                    fo.write("full generated program: %s (seed %s)\n" % (progdir, gen_seed))
            return f

        # ---- (a) the faithful model against the real stages (T-dump, equality; only the alarm direction alarms)
        def cmp_stage(name, impl, mod, alarm_if):
            """alarm_if: 'impl-lacks' (impl must contain everything the model has) or 'impl-extra'"""
            lacks = [x for x in mod if x not in impl]
            extra = [x for x in impl if x not in mod]
            for x in (lacks if alarm_if == "impl-lacks" else extra):
                alarm_ties.append((name, x, progdir))
            for x in (extra if alarm_if == "impl-lacks" else lacks):
                conservative.append((name, x, progdir))

        ig = {(f, p) for f, ps in D.obs["IG"].items() for p in ps}
        mg = {(f, p) for f, ps in D.obs["MG"].items() for p in ps}
        cmp_stage("findGoFunctions", ig, mg, "impl-lacks")
        # multiplicities of creators (append, not replace)
        for f, ps in D.obs["IG"].items():
            if f in D.obs["MG"] and len(ps) < len(D.obs["MG"][f]):
                alarm_ties.append(("findGoFunctions-creators", (f, ps), progdir))
        cmp_stage("findRecoverFunctions", D.obs["IR"], D.obs["MR"], "impl-extra")
        cmp_stage("doesDeferRecover", D.obs["ID"], D.obs["MD"], "impl-extra")
        for k in range(len(cfgs)):
            ix = {(f, p) for f, ps in D.obs["IX"].get(k, {}).items() for p in ps}
            mx = {(f, p) for f, ps in D.obs["MX"].get(k, {}).items() for p in ps}
            cmp_stage("report[exclude=%s]" % cfgs[k], ix, mx, "impl-lacks")

        # ---- (b) the executable spec on static / closure go statements, under every exclude configuration
        for k, raw in enumerate(cfgs):
            ix = D.obs["IX"].get(k, {})
            for pid, owner, form, arg in [(pid, o, fm, a) for pid, v in D.go_at.items() for (o, fm, a) in v]:
                if form not in ("static", "closure"):
                    continue
                f = int(arg)
                al, ex = D.fn_filtered(f, raw)
                if al or ex or D.direct_recovering(f):
                    continue
                stats["spec_checks"] += 1
                if pid not in ix.get(f, ()):
                    lab = label(pid, f)
                    what = ("go statement at %s in %s launches %s (%s callee, no recovering defer, not excluded with -exclude %s) but the "
                            "report %s" % (D.P[pid], D.F[owner]["name"] + (" [synthetic: %s]" % D.F[owner]["synth"] if D.F[owner]["synth"] else ""),
                                           D.F[f]["name"], form, raw,
                                           "lists it without this creation site" if f in ix else "does not list it"))
                    violation(lab, what, mk_replay(lab, what, pid, k))

        lap("compare+spec")
        # ---- (c) the real CLI agrees with the in-process run
        if cli:
            def norm_name(fid):
                fn = D.F[fid]
                return (fn["name"], fn["file"], fn["line"], fn["col"])
            for k in cli:
                raw = cfgs[k]
                args = [argot, "maypanic", "-json"]
                for e in raw:
                    args += ["-exclude", e]
                rc, out, err = vlib.sh2(args + ["."], cwd=progdir, timeout=900)
                stats["cli_runs"] += 1
                try:
                    js = json.loads(out)
                except ValueError:
                    js = None
                want = {norm_name(f): tuple(sorted(D.P[p] for p in ps)) for f, ps in D.obs["IX"].get(k, {}).items()}
                got = None
                if js is not None:
                    got = {(x["GoRoutine"]["Function"], x["GoRoutine"]["Filename"], x["GoRoutine"]["Line"], x["GoRoutine"]["Column"]):
                           tuple(sorted("%s:%d:%d" % (c["Filename"], c["Line"], c["Column"]) for c in x["Creators"])) for x in js}
                if rc != 0 or got != want:
                    missing = sorted(set(want) - set(got or {}))
                    key = "cli-json-differs"
                    what = "`argot maypanic -json %s .` (exit %d) differs from maypanic.MayPanicAnalyzer run in-process on the same program: " \
                           "%d entries vs %d; missing e.g. %s; stderr tail: %s" % (" ".join("-exclude " + e for e in raw), rc, len(got or {}), len(want),
                                                                                    missing[:2], err[-300:].replace("\n", " | "))
                    if missing or rc != 0 or js is None:
                        pid = None
                        violation(key, what, mk_replay(key, what, pid, k))
                    else:
                        conservative.append(("cli-json", sorted(set(got) - set(want))[:3], progdir))
            # text mode once (k = 0)
            rc, out, err = vlib.sh2([argot, "maypanic", "."], cwd=progdir, timeout=900)
            stats["cli_runs"] += 1
            got = {}
            cur = None
            ls = out.split("\n")
            i = 0
            while i < len(ls):
                mm = re.match(r"unrecovered panic in (.*)$", ls[i])
                if mm and i + 2 < len(ls):
                    cur = (ls[i + 1].strip(), ls[i + 2].strip())
                    got[cur] = []
                    i += 3
                    continue
                mm = re.match(r'\s+created by "(.*)"$', ls[i])
                if mm and cur:
                    got[cur].append(mm.group(1))
                i += 1
            want = {}
            for f, ps in D.obs["IX"].get(0, {}).items():
                fn = D.F[f]
                loc = "%s:%d:%d" % (fn["file"], fn["line"], fn["col"]) if fn["file"] else "-"
                want[(fn["name"], loc)] = sorted(D.P[p] for p in ps)
            gotn = {k2: sorted(v) for k2, v in got.items()}
            lacking = [k2 for k2 in want if k2 not in gotn or any(c not in gotn[k2] for c in want[k2])]
            if rc != 0 or lacking:
                key = "cli-text-differs"
                what = "`argot maypanic .` (text mode, exit %d) lacks %d of the %d functions/creation sites of the -json report, e.g. %s" % (
                    rc, len(lacking), len(want), lacking[:2])
                violation(key, what, mk_replay(key, what, None, 0))

        lap("cli")
        # ---- (d) native ground truth
        if native and scen is not None:
            exe = os.path.join(work, os.path.basename(progdir) + ".exe")
            rc, out = vlib.sh(["go", "build", "-o", exe, "."], cwd=progdir, timeout=900)
            if rc != 0:
                raise vlib.BuildError("generated program does not compile", out)

            def one(s):
                return s, vlib.sh2([exe, str(s["idx"])], timeout=120)
            with concurrent.futures.ThreadPoolExecutor(max_workers=max(2, vlib.NCPU // 2)) as ex:
                results = list(ex.map(one, scen))
            lap("native build+runs")
            for s, (rc, out, err) in results:
                stats["native_runs"] += 1
                classes.add((s["go"], tuple(sorted(set(s["defers"])))))
                if "SURVIVED" in out:
                    stats["native_survived"] += 1
                    continue
                tr = parse_trace(err)
                if tr is None:
                    chk.notes.append("scenario %d (%s/%s): neither survived nor a goroutine crash trace: %s" % (s["idx"], s["go"], s["defers"], err[:200].replace("\n", " | ")))
                    continue
                stats["native_crashes"] += 1
                (efile, eline, efunc), (cfile, cline) = tr
                pid = pos_of_site.get((cfile, cline))
                if pid is None or pid not in D.go_at:
                    # e.g. `go panic(..)`/compiler wrappers: no go instruction with a function callee at that line
                    stats["out_of_scope_crashes"] += 1
                    continue
                sites = D.go_at[pid]
                forms = sorted({fm for (_, fm, _) in sites})
                form = "+".join(forms)
                if forms == ["builtin"]:
                    stats["out_of_scope_crashes"] += 1     # go panic(..): there is no launched function to report
                    continue
                cands = D.function_at(efile, eline)
                if not cands:
                    chk.notes.append("scenario %d: entry frame %s %s:%d not found among the dumped functions" % (s["idx"], efunc, efile, eline))
                    continue
                plain = [f for f in cands if not D.direct_recovering(f)]
                if len(chk.cov["samples"]) < 8 and (s["idx"] % 97 == 0 or form in ("invoke", "value")) and \
                        not any(x.get("go_form") == s["go"] for x in chk.cov["samples"]):
                    chk.sample({"scenario": s["idx"], "go_form": s["go"], "defer_forms": s["defers"], "ssa_call_form": form,
                                "native": "crash in %s created at %s:%d" % (efunc, os.path.basename(cfile), cline),
                                "entry_has_direct_recovering_defer": not plain,
                                "reported_without_excludes": any(pid in ps for ps in D.obs["IX"].get(0, {}).values())})
                if not plain:
                    stats["semantic_gap_crashes"] += 1     # crashed although a deferred function calls recover (conditional, re-panic)
                    continue
                for k, raw in enumerate(cfgs):
                    # the go statement must lie outside the allow-listed / excluded code
                    if D.stmt_filtered(pid, raw):
                        continue
                    stats["native_checked"] += 1
                    ix = D.obs["IX"].get(k, {})
                    if any(pid in ix.get(f, ()) for f in plain):
                        continue
                    wrappers = [f for f, ps in ix.items() if pid in ps and is_wrapper(D.F[f])]
                    if wrappers:
                        stats["wrapper_accepted"] += 1     # reported as M$bound / M$thunk with this creation site
                        continue
                    ename = D.F[plain[0]]["name"]
                    static_targets = [int(a) for (_, fm, a) in sites if fm in ("static", "closure")]
                    if static_targets:
                        # some function (e.g. the instance of a generic function) launches a syntactically known callee here
                        flt = [D.fn_filtered(t, raw) for t in static_targets]
                        if all(al for al, _ in flt):
                            key = "go-callee-allowlisted"
                        elif all(al or exd for al, exd in flt):
                            key = "go-callee-excluded"
                        else:
                            key = label(pid, plain[0])
                    elif "invoke" in forms:
                        key = "go-invoke"
                    elif "value" in forms:
                        key = "go-funcvalue"
                    else:
                        key = "go-form-%s" % form
                    what = ("native run crashed with a panic in goroutine entry %s (%s:%d, no recovering defer) created by the go statement "
                            "at %s:%d (%s callee); with -exclude %s the report lists neither the function nor this creation site" % (
                                ename, os.path.basename(efile), eline, os.path.basename(cfile), cline, form, raw))
                    violation(key, what, mk_replay(key, what, pid, k))
        return D

    # ---------------------------------------------------------------------------------------------- inputs
    gen_seed = chk.seed
    progdir = os.path.join(work, "go19")
    files, scen = gen_program(gen_seed, tier, extra_imports=(("net/http",) if tier == "thorough" else ()))
    write_program(progdir, files)
    stats["scenarios"] = len(scen)
    D = handle(progdir, scen, gen_seed, native=True, cli=[5] if tier == "quick" else [0, 1, 3, 4, 5, 8])

    # T-gen cross-check: the allow list the generator read from the AST is the one the running code uses
    gen_allow = None
    try:
        txt = open(os.path.join(vlib.COQ, "gen", "GenMayPanic.v")).read()
        mm = re.search(r"Definition allow_list : list string :=\s*\[(.*?)\]\.", txt, flags=re.S)
        gen_allow = re.findall(r'"([^"]*)"', mm.group(1))
    except (OSError, AttributeError):
        pass
    if gen_allow != D.allow:
        alarm_ties.append(("gentables-allow-list", (gen_allow, D.allow), progdir))

    if tier == "thorough":
        corpus = ["analysis/taint/testdata/closures", "analysis/taint/testdata/example1", "analysis/taint/testdata/selects",
                  "analysis/taint/testdata/agent-example", "analysis/taint/testdata/panics", "analysis/reachability/testdata/src/basic"]
        for c in corpus:
            p = os.path.join(vlib.REPO, c)
            if os.path.isdir(p) and any(f.endswith(".go") for f in os.listdir(p)):
                try:
                    handle(p, None, None, native=False, cli=None)
                except vlib.BuildError as e:
                    chk.notes.append("corpus %s skipped: %s" % (c, e.what))

    # ---------------------------------------------------------------------------------------------- verdicts
    stats["stage_mismatch_alarm"] = len(alarm_ties)
    stats["impl_more_conservative"] = len(conservative)
    if conservative:
        chk.notes.append("impl more conservative than the faithful model (not an alarm), e.g. %s" % (conservative[:3],))
    if alarm_ties and not found[0]:
        d = chk.replay_dir("tie")
        with open(os.path.join(d, "replay.txt"), "w") as f:
            f.write("T-dump tie broken in the alarm direction (the real code reports less / recognises more recovering functions than "
                    "Model/MayPanic.v), no program found whose native crash or static spec contradicts the report.\n")
            for name, x, pd in alarm_ties[:40]:
                f.write("%s: %s   (program %s)\n" % (name, x, pd))
            f.write("\nre-run: build/bin/c19dump -o d.dump <program>; build/bin/c19model < d.dump ; compare I* with M* lines\n")
        chk.violation("tie-broken", "model/implementation correspondence broken at %d points, e.g. %s %s" % (
            len(alarm_ties), alarm_ties[0][0], str(alarm_ties[0][1])[:120]), d, no_input=True)
    elif alarm_ties:
        chk.notes.append("T-dump tie also broken (%d points), concrete inputs reported above" % len(alarm_ties))
    failed_report = failed
    if failed and getattr(chk, "build_log", ""):
        culprits = []
        errs = re.findall(r'File "\./([^"]+)", line (\d+)[^\n]*\n(Error:[^\n]*(?:\n[^\n]+){0,3})', chk.build_log)
        for fn, ln, msg in errs[:3]:
            lemma = ""
            try:
                src = open(os.path.join(vlib.COQ, fn)).read().split("\n")[:int(ln)]
                names = re.findall(r"(?:Lemma|Theorem|Example)\s+(\w+)", "\n".join(src))
                lemma = names[-1] if names else ""
            except OSError:
                pass
            chk.notes.append("Coq: %s line %s (%s): %s" % (fn, ln, lemma, " ".join(msg.split())[:300]))
            culprits.append((fn, lemma))
        # when only the regenerated-table lemmas broke (Proofs/MayPanic.v itself still compiles), name them precisely
        if culprits and all(fn.endswith("Proofs/MayPanicGen.v") and lem for fn, lem in culprits):
            ok, _ = vlib.build_coq(["theories/Proofs/MayPanic.vo"])
            if ok.get("theories/Proofs/MayPanic.vo"):
                failed_report = sorted({lem for _, lem in culprits})
                chk.notes.append("only the T-gen obligations %s broke; the unbounded lemmas of Proofs/MayPanic.v still compile" % failed_report)
    chk.proof_broken(failed_report, found[0])

    known = [k["key"] for k in vlib.load_known() if k["property"] == "C19"]
    stale = [k for k in known if k not in [x[0] for x in chk.known_hit]]
    if stale:
        chk.cov["stale_known_finding"] = stale
        chk.notes.append("listed findings not exhibited in this run: %s" % stale)

    chk.cov["evaluations"] = stats["spec_checks"] + stats["native_checked"] + stats["functions"]
    chk.cov["distinct_nontrivial"] = len(classes)
    chk.cov["rule"] = ("evaluations = static-spec checks (go statement x exclude configuration) + native crash checks + functions whose "
                       "doesRecover/doesDeferRecover verdicts were compared with the model (all functions of the loaded programs incl. the "
                       "standard library); distinct non-trivial = distinct (go-statement form, set of defer forms) scenarios executed natively "
                       "and analysed (%d go forms x %d defer forms + seed-derived combinations)" % (len(GO_FORMS) + len(SPECIAL), len(DEFER_FORMS)))
    chk.cov["traces_validated_against_impl"] = stats["native_crashes"]
    lap("rest")
    chk.cov["distribution"] = stats
    chk.cov["timing_s"] = timing
    chk.assumptions += [
        "mini-IR = what c19dump extracts from x/tools SSA (IsInvoke / type of Call.Value per go, defer and call instruction); control flow is ignored as in the Go code",
        "'recovering defer' is syntactic, as in the property text: a deferred named function/method/closure whose own body calls recover; "
        "%d native crashes happened although such a defer exists (conditional recover, re-panic) and are counted, not alarmed" % stats["semantic_gap_crashes"],
        "a report of a synthetic wrapper (M$bound, M$thunk) carrying the creation site is accepted as reporting the wrapped method (%d cases)" % stats["wrapper_accepted"],
        "may-targets of dynamic go/defer statements (spec only): declared methods implementing the interface method / user functions of identical signature",
    ]
    chk.cov["trusted_base"] += ["/repo/analysis/maypanic/verif_c19.go (add-only hook exporting findGoFunctions, doesRecover, findRecoverFunctions, doesDeferRecover, allowList)",
                                "Go runtime crash traces ('created by' frame, goroutine entry frame) as ground truth"]
    return chk.finish()


def replay(chk, path):
    p = os.path.join(path, "replay.txt") if os.path.isdir(path) else path
    print(open(p).read())
    return 0
