#!/usr/bin/env python3
"""Stash a breaker's output and derive confirm.json:  tools/seedprep.py <outdir> <pending-name>
   <outdir> holds patch.diff, demo/, README.md.  Demo files under demo/<repo-relative path> are copied to that path;
   demo files at another level are placed where the README says (first 'analysis/...|internal/...|cmd/...' path ending in
   the file or directory name).  The demo command is `go test -run '^(Tests…)$' <pkgs>` over the Test functions found, or
   `bash _seeddemo/run.sh $PWD` when the demo is a script."""
import json
import os
import re
import shutil
import subprocess
import sys


def main():
    out, name = sys.argv[1], sys.argv[2]
    dst = os.path.join("/root/seeds_pending", name)
    shutil.rmtree(dst, ignore_errors=True)
    shutil.copytree(out, dst)
    readme = open(os.path.join(dst, "README.md")).read() if os.path.exists(os.path.join(dst, "README.md")) else ""
    copy, tests, pkgs = {}, [], set()
    demo = os.path.join(dst, "demo")
    top = sorted(os.listdir(demo))
    if any(t in ("analysis", "internal", "cmd") for t in top):
        for root, _, fs in os.walk(demo):
            for f in fs:
                rel = os.path.relpath(os.path.join(root, f), dst)
                copy[rel] = rel[len("demo/"):]
    else:
        for t in top:
            m = re.search(r"((?:analysis|internal|cmd)/[\w./-]*?/%s)\b" % re.escape(t), readme)
            if m:
                copy["demo/" + t] = m.group(1)
            elif t.endswith(".sh") or os.path.exists(os.path.join(demo, "run.sh")):
                copy = {"demo": "_seeddemo"}
                break
            else:
                print("WARNING: no target for demo/%s" % t)
    for rel, tgt in copy.items():
        p = os.path.join(dst, rel)
        files = [p] if os.path.isfile(p) else [os.path.join(r, f) for r, _, fs in os.walk(p) for f in fs]
        for f in files:
            if f.endswith("_test.go"):
                tests += re.findall(r"^func (Test\w+)", open(f).read(), flags=re.M)
                pkgs.add("./" + os.path.dirname(tgt if os.path.isfile(p) else os.path.join(tgt, os.path.relpath(f, p))) + "/")
    patched = [l[6:].strip() for l in open(os.path.join(dst, "patch.diff")) if l.startswith("+++ b/")]
    tp = sorted({"./" + os.path.dirname(f) + "/..." for f in patched})
    if any("dataflow" in x or "lang" in x or "summaries" in x or "pointer" in x for x in tp):
        tp = sorted(set(tp) | {"./analysis/dataflow/...", "./analysis/taint/..."})
    if copy == {"demo": "_seeddemo"}:
        cmd = "bash _seeddemo/run.sh $PWD"
    else:
        cmd = "go test -count=1 -timeout 60m -run '^(%s)$' %s" % ("|".join(tests), " ".join(sorted(pkgs)))
    json.dump({"copy": copy, "demo_cmd": cmd, "test_pkgs": tp}, open(os.path.join(dst, "confirm.json"), "w"), indent=1)
    rc = subprocess.call(["git", "-C", "/repo", "apply", "--check", os.path.join(dst, "patch.diff")])
    print(name, "applies" if rc == 0 else "DOES NOT APPLY", "|", cmd, "|", tp, "|", copy)


if __name__ == "__main__":
    main()
