#!/usr/bin/env python3
"""Install a confirmed seeded change under /verif/seeded/<name>/:
     tools/seedinstall.py <pending-dir> <name> <property> <needs-to-manifest> <detected-by>
   requires <pending-dir>/confirm_result.json with confirmed=true (written by tools/seedconfirm.py)."""
import json
import os
import shutil
import sys

V = os.path.dirname(os.path.dirname(os.path.abspath(__file__)))


def main():
    src, name, prop, needs, det = sys.argv[1:6]
    cr = json.load(open(os.path.join(src, "confirm_result.json")))
    cf = json.load(open(os.path.join(src, "confirm.json")))
    if not cr.get("confirmed"):
        sys.exit("not confirmed: " + src)
    d = os.path.join(V, "seeded", name)
    shutil.rmtree(d, ignore_errors=True)
    os.makedirs(d)
    for f in os.listdir(src):
        if f.startswith("patch") and f.endswith(".diff"):
            shutil.copy(os.path.join(src, f), d)
    shutil.copytree(os.path.join(src, "demo"), os.path.join(d, "demo"))
    shutil.copy(os.path.join(src, "README.md"), os.path.join(d, "README.md"))
    meta = {
        "property": prop,
        "breaks": "see README.md (written by the authoring agent)",
        "needs_to_manifest": needs,
        "author": "independent sub-agent given only the property text and a scratch worktree of /repo",
        "confirmed_by_coordinator": {
            "tool": "tools/seedconfirm.py (scratch worktree of /repo HEAD)",
            "demo_cmd": cf["demo_cmd"], "demo_files": cf["copy"],
            "demo_on_unmodified_tree": "PASS (rc %s)" % cr["demo_unmodified"]["rc"],
            "go_build_with_patch": "ok" if cr["build_modified"]["rc"] == 0 else "FAIL",
            "demo_with_patch": "FAIL (rc %s)" % cr["demo_modified"]["rc"],
            "existing_tests_with_patch": cr["tests_modified"]["cmd"] + " -> rc %s" % cr["tests_modified"]["rc"],
            "wider_test_runs": "see README.md for what the authoring agent ran",
        },
        "detected_by": det,
    }
    if os.path.exists(os.path.join(src, "patch_original_on_pinned_commit.diff")):
        meta["note"] = "patch.diff is the author's change re-applied by hand onto /repo HEAD after the fix: commits touched the same lines; the original is kept as patch_original_on_pinned_commit.diff"
    json.dump(meta, open(os.path.join(d, "meta.json"), "w"), indent=1)
    print("installed", d)


if __name__ == "__main__":
    main()
