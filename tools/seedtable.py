#!/usr/bin/env python3
"""Prints the markdown table of /verif/seeded/*/meta.json (DESIGN.md 12.4 is generated with it)."""
import json
import os

V = os.path.dirname(os.path.dirname(os.path.abspath(__file__)))


def main():
    rows = []
    for d in sorted(os.listdir(os.path.join(V, "seeded"))):
        mp = os.path.join(V, "seeded", d, "meta.json")
        if not os.path.exists(mp):
            continue
        m = json.load(open(mp))
        rows.append((d, m["property"], m["needs_to_manifest"], m["detected_by"]))
    print("| seeded change (`seeded/<name>/`) | property | needs in order to manifest | which check catches it, how |")
    print("|---|---|---|---|")
    for r in rows:
        print("| `%s` | %s | %s | %s |" % tuple(x.replace("|", "\\|").replace("\n", " ") for x in r))
    print("\n%d seeded changes; %d were missed by the first version of a check and led to a strengthening."
          % (len(rows), sum(1 for r in rows if "missed by the first version" in r[3] or "after strengthening" in r[3]
                            or "after the" in r[3])))


if __name__ == "__main__":
    main()
