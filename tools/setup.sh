#!/bin/sh
# MANIFEST.setup_cmd: build the whole framework offline from files on disk (Go harness with the verif tag against
# /repo's working tree, regenerated tables, full .vo build of the Coq development, extracted OCaml models).
set -e
cd "$(dirname "$0")/.."
export GOFLAGS=-mod=mod GOPROXY=off GOSUMDB=off GOTOOLCHAIN=local
python3 - <<'PY'
import sys, os
sys.path.insert(0, "tools")
import vlib
vlib.build_harness()
vlib.gen_tables()
props = sorted(f for f in os.listdir(os.path.join(vlib.COQ, "theories", "Properties")) if f.endswith(".v"))
ok, log = vlib.build_coq(["theories/Properties/" + p + "o" for p in props], timeout=3000)
print(log[-3000:])
bad = [t for t, v in ok.items() if not v]
for d in sorted(os.listdir(os.path.join(vlib.COQ, "extracted"))):
    if os.path.exists(os.path.join(vlib.COQ, "extracted", d, "build.sh")):
        try:
            vlib.build_model(d)
        except vlib.BuildError as e:
            print("model %s: %s\n%s" % (d, e.what, e.log[-2000:])); bad.append(d)
print("setup: failed targets:", bad)
sys.exit(1 if bad else 0)
PY
