#!/bin/sh
# MANIFEST.setup_cmd: build the whole framework offline from files on disk (Go harness with the verif tag against
# /repo's working tree, regenerated tables, full .vo build of the Coq development, extracted OCaml models).
set -e
cd "$(dirname "$0")/.."
export GOFLAGS=-mod=mod GOPROXY=off GOSUMDB=off GOTOOLCHAIN=local
python3 - <<'PY'
import sys, os
sys.path.insert(0, "tools")
import vlib
vlib.build_harness()
for c, l in getattr(vlib.build_harness, "failed", []):
    print("setup: harness command %s does not build:\n%s" % (c, l[-1500:]))
try:
    vlib.gen_tables()
except vlib.BuildError as e:
    print("setup: gentables:", e.what, e.log[-1500:])
props = sorted(f for f in os.listdir(os.path.join(vlib.COQ, "theories", "Properties")) if f.endswith(".v"))
ok, log = vlib.build_coq(["theories/Properties/" + p + "o" for p in props], timeout=3000)
print(log[-3000:])
bad = [t for t, v in ok.items() if not v]
for d in sorted(os.listdir(os.path.join(vlib.COQ, "extracted"))):
    if os.path.exists(os.path.join(vlib.COQ, "extracted", d, "build.sh")):
        try:
            vlib.build_model(d)
        except vlib.BuildError as e:
            print("model %s: %s\n%s" % (d, e.what, e.log[-2000:])); bad.append(d)
print("setup: failed targets:", bad)
# a target that does not build is reported by the check of the property that needs it; setup itself only fails when
# nothing could be built at all
sys.exit(1 if bad and len(bad) >= len(props) + 1 else 0)
PY
