#!/usr/bin/env python3
"""Confirm a seeded breaking change independently of the agent that wrote it:
     tools/seedconfirm.py <seed-dir> [--full]
   <seed-dir> holds patch.diff, demo/ and confirm.json = {"copy": {"demo/rel/path": "repo/rel/path", ...},
   "demo_cmd": "go test -count=1 -run X ./pkg/", "test_pkgs": ["./analysis/defers/..."]}.
   In a scratch worktree of /repo (HEAD): demo on the unmodified tree must PASS; with the patch: `go build ./...` must
   succeed, the demo must FAIL, and the existing tests (test_pkgs, or ./... with --full) must pass.
   Writes <seed-dir>/confirm_result.json and prints a one-line verdict."""
import json
import os
import shutil
import subprocess
import sys
import tempfile
import time

ENV = dict(os.environ, GOFLAGS="-mod=mod", GOPROXY="off", GOSUMDB="off", GOTOOLCHAIN="local")


def run(cmd, cwd, timeout):
    t = time.time()
    try:
        p = subprocess.run(cmd, shell=True, cwd=cwd, env=ENV, stdout=subprocess.PIPE, stderr=subprocess.STDOUT, text=True,
                           timeout=timeout, errors="replace")
        return p.returncode, p.stdout[-3000:], round(time.time() - t, 1)
    except subprocess.TimeoutExpired as e:
        return 124, "timeout", round(time.time() - t, 1)


def main():
    sd = os.path.abspath(sys.argv[1])
    full = "--full" in sys.argv
    cfg = json.load(open(os.path.join(sd, "confirm.json")))
    tmp = tempfile.mkdtemp(prefix="seedconfirm-")
    wt = os.path.join(tmp, "repo")
    res = {"seed": os.path.basename(sd), "full_suite": full}
    try:
        subprocess.check_call(["git", "-C", "/repo", "worktree", "add", "-q", "--detach", wt, "HEAD"])
        for src, dst in cfg["copy"].items():
            d = os.path.join(wt, dst)
            os.makedirs(os.path.dirname(d), exist_ok=True)
            if os.path.isdir(os.path.join(sd, src)):
                shutil.copytree(os.path.join(sd, src), d, dirs_exist_ok=True)
            else:
                shutil.copy(os.path.join(sd, src), d)
        rc, out, dt = run(cfg["demo_cmd"], wt, 7200)
        res["demo_unmodified"] = {"rc": rc, "s": dt, "tail": out[-600:]}
        subprocess.check_call(["git", "-C", wt, "apply", os.path.join(sd, "patch.diff")])
        rc, out, dt = run("go build ./...", wt, 3600)
        res["build_modified"] = {"rc": rc, "s": dt, "tail": out[-600:]}
        rc, out, dt = run(cfg["demo_cmd"], wt, 7200)
        res["demo_modified"] = {"rc": rc, "s": dt, "tail": out[-1200:]}
        # existing tests: remove the demo files first so that only the project's own tests run
        for dst in cfg["copy"].values():
            p = os.path.join(wt, dst)
            if os.path.isdir(p):
                shutil.rmtree(p)
            elif os.path.exists(p):
                os.remove(p)
        pk = "./..." if full else " ".join(cfg["test_pkgs"])
        cmd = "go test -vet=off -count=1 -p 4 -timeout 300m " + pk
        rc, out, dt = run(cmd, wt, 6 * 3600)
        res["tests_modified"] = {"cmd": cmd, "rc": rc, "s": dt, "tail": out[-2500:]}
        ok = res["demo_unmodified"]["rc"] == 0 and res["build_modified"]["rc"] == 0 and res["demo_modified"]["rc"] != 0 \
            and res["demo_modified"]["rc"] != 124 and res["tests_modified"]["rc"] == 0
        res["confirmed"] = ok
    finally:
        subprocess.call(["git", "-C", "/repo", "worktree", "remove", "--force", wt])
        shutil.rmtree(tmp, ignore_errors=True)
    json.dump(res, open(os.path.join(sd, "confirm_result.json"), "w"), indent=1)
    print("SEEDCONFIRM %s confirmed=%s demo_unmod=%s build=%s demo_mod=%s tests=%s" % (
        res["seed"], res.get("confirmed"), res.get("demo_unmodified", {}).get("rc"), res.get("build_modified", {}).get("rc"),
        res.get("demo_modified", {}).get("rc"), res.get("tests_modified", {}).get("rc")))


if __name__ == "__main__":
    main()
