#!/usr/bin/env python3
"""Entry point of every check:  tools/check.py <Cxx> [--tier quick|thorough] [--replay path]
Exit 0: property held on everything explored (KNOWN-FINDING lines allowed); exit 1: VIOLATION line(s) printed."""
import argparse
import importlib
import os
import sys
import traceback

sys.path.insert(0, os.path.dirname(os.path.abspath(__file__)))
import vlib  # noqa: E402


def main():
    ap = argparse.ArgumentParser()
    ap.add_argument("prop")
    ap.add_argument("--tier", default=os.environ.get("VERIF_TIER", "quick"), choices=["quick", "thorough"])
    ap.add_argument("--replay", default=None)
    args = ap.parse_args()
    prop = args.prop.upper()
    mod = importlib.import_module("props." + prop.lower())
    chk = vlib.Check(prop, args.tier, keep_evidence=bool(args.replay))
    try:
        if args.replay:
            rc = mod.replay(chk, args.replay)
        else:
            rc = mod.run(chk)
    except vlib.BuildError as e:
        # the machinery could not be built against the current tree: the property is no longer shown to hold
        os.makedirs(vlib.REPLAYS, exist_ok=True)
        p = os.path.join(vlib.REPLAYS, "%s-build-broken.txt" % prop)
        with open(p, "w") as f:
            f.write("%s\n\n%s\n" % (e.what, e.log[-8000:]))
        chk.notes.append("build broken: " + e.what)
        chk.violation("build-broken", e.what, p, no_input=True)
        chk.cov.setdefault("evaluations", 0)
        rc = chk.finish()
    except Exception:
        traceback.print_exc()
        os.makedirs(vlib.REPLAYS, exist_ok=True)
        p = os.path.join(vlib.REPLAYS, "%s-check-crashed.txt" % prop)
        with open(p, "w") as f:
            f.write(traceback.format_exc())
        chk.violation("check-crashed", "the check itself crashed", p, no_input=True)
        rc = chk.finish()
    sys.exit(rc)


if __name__ == "__main__":
    main()
