"""Shared plumbing for the /verif checks: builds (Go harness, generated tables, Coq development, extracted models),
known-findings handling, the violation protocol and evidence files.  See DESIGN.md 2.3 / 11."""
import fcntl
import hashlib
import json
import os
import re
import shutil
import subprocess
import sys
import time

VERIF = os.path.dirname(os.path.dirname(os.path.abspath(__file__)))
REPO = os.environ.get("VERIF_REPO", "/repo")
BUILD = os.path.join(VERIF, "build")
BIN = os.path.join(BUILD, "bin")
COQ = os.path.join(VERIF, "coq")
HARNESS = os.path.join(VERIF, "harness")
EVID = os.path.join(VERIF, "evidence")
REPLAYS = os.path.join(EVID, "replays")
KNOWN = os.path.join(VERIF, "known_findings.txt")
NCPU = os.cpu_count() or 4

GOENV = dict(os.environ, GOFLAGS="-mod=mod", GOPROXY="off", GOSUMDB="off", GOTOOLCHAIN="local",
             CGO_ENABLED=os.environ.get("CGO_ENABLED", "1"))

TRUSTED_COMMON = [
    "Coq 8.16.1 kernel (coqc, full .vo build, vm_compute; no native_compute)",
    "no Axiom/Parameter/Admitted in the development (grep gate + Print Assumptions on every property theorem)",
    "Extraction with ExtrOcamlBasic only (no Extract Constant), OCaml 4.13.1 compiler, hand-written driver.ml parsers",
    "Go harness (dumpers/generators under /verif/harness) and tools/*.py (orchestration, diffing)",
    "hand-written Gallina model: the Go code itself is modelled, not verified; tie = differential run on this tree",
]


class BuildError(Exception):
    def __init__(self, what, log):
        super().__init__(what)
        self.what = what
        self.log = log


def _run(cmd, timeout, cwd, env, inp, merge):
    """subprocess in its own process group; the whole group is killed on timeout (go run leaves grandchildren)"""
    import signal
    p = subprocess.Popen(cmd, shell=isinstance(cmd, str), cwd=cwd, env=env or GOENV,
                         stdin=subprocess.PIPE if inp is not None else subprocess.DEVNULL,
                         stdout=subprocess.PIPE, stderr=subprocess.STDOUT if merge else subprocess.PIPE, text=True,
                         errors="replace", start_new_session=True)
    try:
        out, err = p.communicate(inp, timeout=timeout)
        return p.returncode, out, err or ""
    except subprocess.TimeoutExpired:
        try:
            os.killpg(p.pid, signal.SIGKILL)
        except OSError:
            pass
        try:
            out, err = p.communicate(timeout=10)
        except Exception:
            out, err = "", ""
        return 124, (out or ""), (err or "") + "\n[timeout after %ss]" % timeout


def sh(cmd, timeout=600, cwd=None, env=None, inp=None):
    """Run a command (list or shell string); returns (rc, combined output). rc 124 on timeout."""
    rc, out, err = _run(cmd, timeout, cwd, env, inp, True)
    return rc, out + (err if rc == 124 else "")


def sh2(cmd, timeout=600, cwd=None, env=None, inp=None):
    """Like sh but keeps stdout and stderr apart: (rc, stdout, stderr)."""
    return _run(cmd, timeout, cwd, env, inp, False)


class _Lock:
    def __init__(self, name):
        os.makedirs(BUILD, exist_ok=True)
        self.path = os.path.join(BUILD, "." + name + ".lock")

    def __enter__(self):
        self.f = open(self.path, "w")
        fcntl.flock(self.f, fcntl.LOCK_EX)
        return self

    def __exit__(self, *a):
        fcntl.flock(self.f, fcntl.LOCK_UN)
        self.f.close()


# ----------------------------------------------------------------------------------------------- builds

def build_harness(cmds=None, race=False):
    """go build -tags verif of the harness commands against /repo's *current working tree* (replace => /repo).
    cmds: list of command names under harness/cmd (default: all). Returns BIN."""
    os.makedirs(BIN, exist_ok=True)
    with _Lock("go"):
        # keep go.sum in sync with the repo's
        src = os.path.join(REPO, "go.sum")
        dst = os.path.join(HARNESS, "go.sum")
        try:
            if open(src).read() not in open(dst).read():
                shutil.copy(src, dst)
        except OSError:
            shutil.copy(src, dst)
        modfile = os.path.join(HARNESS, "go.mod")
        if REPO != "/repo":
            txt = open(modfile).read()
            alt = os.path.join(BUILD, "go.alt.mod")
            open(alt, "w").write(txt.replace("=> /repo", "=> " + REPO))
            shutil.copy(dst, os.path.join(BUILD, "go.alt.sum"))
        tolerant = cmds is None
        if cmds is None:
            cmds = sorted(d for d in os.listdir(os.path.join(HARNESS, "cmd")) if os.path.isdir(os.path.join(HARNESS, "cmd", d)))
        out = BIN + ("-race" if race else "") + "/"
        os.makedirs(out, exist_ok=True)
        base = ["go", "build", "-tags", "verif"] + (["-race"] if race else []) + \
               (["-modfile", os.path.join(BUILD, "go.alt.mod")] if REPO != "/repo" else []) + ["-o", out]
        rc, log = sh(base + ["./cmd/" + c for c in cmds], timeout=1500, cwd=HARNESS)
        if rc != 0 and tolerant:
            # build every command on its own so that one broken command does not block the others
            failed = []
            for c in cmds:
                rc1, log1 = sh(base + ["./cmd/" + c], timeout=1500, cwd=HARNESS)
                if rc1 != 0:
                    failed.append((c, log1))
            build_harness.failed = failed
            rc = 0
        if rc != 0:
            raise BuildError("go build of harness (tags verif) failed", log)
    return out


def build_argot(race=False):
    """the repository's own CLI built from the current working tree -> build/bin/argot (or argot-race)"""
    os.makedirs(BIN, exist_ok=True)
    out = os.path.join(BIN, "argot-race" if race else "argot")
    with _Lock("go"):
        rc, log = sh(["go", "build"] + (["-race"] if race else []) + ["-o", out, "./cmd/argot"], timeout=1500, cwd=REPO)
        if rc != 0:
            raise BuildError("go build ./cmd/argot failed", log)
    return out


def _write_if_changed(path, content):
    try:
        if open(path).read() == content:
            return False
    except OSError:
        pass
    os.makedirs(os.path.dirname(path), exist_ok=True)
    open(path, "w").write(content)
    return True


def gen_tables(which=None):
    """Regenerate coq/gen/Gen*.v from /repo's source with harness/cmd/gentables (T-gen).  Files are only rewritten
    when their content changes so that make stays incremental.  which: list of generator names (default all)."""
    exe = os.path.join(BIN, "gentables")
    if not os.path.exists(exe):
        return []
    with _Lock("gen"):
        tmp = os.path.join(BUILD, "gen.tmp")
        shutil.rmtree(tmp, ignore_errors=True)
        os.makedirs(tmp)
        cmd = [exe, "-repo", REPO, "-out", tmp] + (["-only", ",".join(which)] if which else [])
        rc, log = sh(cmd, timeout=900, cwd=HARNESS)
        if rc != 0:
            raise BuildError("gentables failed", log)
        changed = []
        for f in sorted(os.listdir(tmp)):
            if _write_if_changed(os.path.join(COQ, "gen", f), open(os.path.join(tmp, f)).read()):
                changed.append(f)
        return changed


def _coq_makefile():
    vs = []
    for root in ("theories", "gen"):
        for d, _, fs in os.walk(os.path.join(COQ, root)):
            for f in fs:
                if f.endswith(".v"):
                    vs.append(os.path.relpath(os.path.join(d, f), COQ))
    vs.sort()
    proj = open(os.path.join(COQ, "_CoqProject")).read().strip().split("\n")
    proj = [l for l in proj if not l.endswith(".v")]
    full = "\n".join(proj + vs) + "\n"
    p = os.path.join(COQ, "_CoqProject.full")
    changed = _write_if_changed(p, full)
    if changed or not os.path.exists(os.path.join(COQ, "Makefile.coq")):
        rc, log = sh(["coq_makefile", "-f", "_CoqProject.full", "-o", "Makefile.coq"], cwd=COQ)
        if rc != 0:
            raise BuildError("coq_makefile failed", log)


def build_coq(targets, timeout=1500):
    """make (full .vo) of the given targets, e.g. ['theories/Properties/C16.vo'].  Returns (ok_by_target, log).
    Uses make -k so that an unrelated broken file does not mask this property's result."""
    with _Lock("coq"):
        _coq_makefile()
        rc, log = sh(["make", "-f", "Makefile.coq", "-k", "-j%d" % NCPU] + list(targets), timeout=timeout, cwd=COQ)
        ok = {}
        for t in targets:
            rc2, _ = sh(["make", "-f", "Makefile.coq", "-q", t], timeout=300, cwd=COQ)
            ok[t] = (rc2 == 0) and os.path.exists(os.path.join(COQ, t))
        return ok, log


def strip_coq(txt):
    """remove (nested) comments and string literals from Coq source"""
    out = []
    i, n, depth, instr = 0, len(txt), 0, False
    while i < n:
        c = txt[i]
        if instr:
            if c == '"':
                if i + 1 < n and txt[i + 1] == '"':
                    i += 2
                    continue
                instr = False
            i += 1
            continue
        if depth == 0 and c == '"':
            instr = True
            i += 1
            out.append(' ""')
            continue
        if c == "(" and i + 1 < n and txt[i + 1] == "*":
            depth += 1
            i += 2
            continue
        if depth > 0 and c == "*" and i + 1 < n and txt[i + 1] == ")":
            depth -= 1
            i += 2
            out.append(" ")
            continue
        if depth > 0 and c == '"':
            # strings inside comments are lexed as strings by Coq
            j = i + 1
            while j < n and txt[j] != '"':
                j += 1
            i = j + 1
            continue
        if depth == 0:
            out.append(c)
        i += 1
    return "".join(out)


def theorems_of(vfile):
    """names of Theorem/Lemma/Corollary/Example statements in a .v file"""
    txt = strip_coq(open(vfile).read())
    return re.findall(r"^\s*(?:Theorem|Lemma|Corollary|Example|Fact|Proposition)\s+([A-Za-z_][A-Za-z0-9_']*)", txt, flags=re.M)


def _module_file(mod):
    """Argot.Model.Defers / ArgotGen.GenStd / Model.Defers -> path of the .v file, or None (library module)"""
    parts = mod.split(".")
    if parts[0] == "Argot":
        return os.path.join(COQ, "theories", *parts[1:]) + ".v"
    if parts[0] == "ArgotGen":
        return os.path.join(COQ, "gen", *parts[1:]) + ".v"
    return None


def coq_deps(vfile):
    """transitive closure of the development's own files Required by vfile (by scanning Require statements)"""
    seen, todo = set(), [vfile]
    while todo:
        f = todo.pop()
        if f in seen or not os.path.exists(f):
            continue
        seen.add(f)
        txt = strip_coq(open(f).read())
        for m in re.finditer(r"(?:From\s+(\S+)\s+)?Require\s+(?:Import\s+|Export\s+)?(.*?)\.(?=\s|$)", txt, flags=re.S):
            frm, mods = m.group(1), m.group(2).split()
            for mod in mods:
                full = (frm + "." + mod) if frm else mod
                for cand in (full, "Argot." + full):
                    p = _module_file(cand)
                    if p and os.path.exists(p):
                        todo.append(p)
                        break
    return sorted(seen)


_GATE = re.compile(r"\b(Admitted|admit|Axiom|Axioms|Parameter|Parameters|Conjecture|Conjectures|"
                   r"Unset\s+Guard\s+Checking|Unset\s+Positivity\s+Checking|Unset\s+Universe\s+Checking|bypass_check|"
                   r"Admit\s+Obligations|type-in-type|impredicative-set)\b")


def grep_gate(files=None):
    """the development must not contain Admitted/admit/Axiom/Parameter/Conjecture or kernel-check switches.
    files: the .v files to scan (default: everything under theories/, gen/, extracted/)"""
    if files is None:
        files = []
        for root in ("theories", "gen", "extracted"):
            for d, _, fs in os.walk(os.path.join(COQ, root)):
                files += [os.path.join(d, f) for f in fs if f.endswith(".v")]
    bad = []
    for f in files:
        txt = strip_coq(open(f).read())
        for m in _GATE.finditer(txt):
            bad.append("%s: %s" % (os.path.relpath(f, COQ), m.group(0)))
        # Variable/Hypothesis outside a Section declare axioms
        depth = 0
        for m in re.finditer(r"^\s*(Section|Module\s+Type|End|Variables?|Hypothes[ie]s|Context)\b", txt, flags=re.M):
            k = m.group(1)
            if k == "Section":
                depth += 1
            elif k == "End":
                depth = max(0, depth - 1)
            elif k.startswith(("Variable", "Hypothes")) and depth == 0:
                bad.append("%s: %s outside a Section" % (os.path.relpath(f, COQ), k))
    return bad


def print_assumptions(module, names):
    """Run Print Assumptions on each theorem of a compiled module; returns {name: text}.  'Closed under the global
    context' is the expected answer."""
    os.makedirs(os.path.join(BUILD, "pa"), exist_ok=True)
    vf = os.path.join(BUILD, "pa", "PA_%s.v" % module.replace(".", "_"))
    with open(vf, "w") as f:
        f.write("From Argot Require Import %s.\n" % module)
        for n in names:
            f.write('Goal True. idtac "@@BEGIN %s". Abort.\nPrint Assumptions %s.\nGoal True. idtac "@@END". Abort.\n' % (n, n))
    rc, out = sh(["coqc", "-Q", os.path.join(COQ, "theories"), "Argot", "-Q", os.path.join(COQ, "gen"), "ArgotGen", vf],
                 timeout=600, cwd=os.path.join(BUILD, "pa"))
    res = {}
    if rc != 0:
        return {n: "ERROR: " + out[-2000:] for n in names}
    for m in re.finditer(r"@@BEGIN (\S+)\n(.*?)@@END", out, flags=re.S):
        res[m.group(1)] = m.group(2).strip()
    return res


STD_AXIOMS_OK = ("functional_extensionality_dep", "proof_irrelevance", "classic", "JMeq_eq", "Eqdep.Eq_rect_eq.eq_rect_eq",
                 "propositional_extensionality", "constructive_definite_description", "constructive_indefinite_description")


def build_model(name):
    """build coq/extracted/<name>/build.sh (extraction + ocamlopt).  The Coq model it extracts must be compiled."""
    with _Lock("ocaml-" + name):
        rc, log = sh(["sh", os.path.join(COQ, "extracted", name, "build.sh")], timeout=900)
        if rc != 0:
            raise BuildError("extraction/ocaml build of %s failed" % name, log)
    return os.path.join(BIN, name + "model")


# ----------------------------------------------------------------------------------------------- findings

def load_known():
    """known_findings.txt:  'finding: property=C19 key=go-invoke <what fails>'  /  'fixed: property=C08 <commit> <what>'"""
    out = []
    if not os.path.exists(KNOWN):
        return out
    for l in open(KNOWN):
        l = l.strip()
        m = re.match(r"finding:\s+property=(\S+)\s+key=(\S+)\s+(.*)", l)
        if m:
            out.append({"property": m.group(1), "key": m.group(2), "what": m.group(3)})
    return out


class Check:
    """One run of one property's check.  Collects coverage, violations and proof obligations, prints the protocol
    lines and writes the evidence file."""

    def __init__(self, prop, tier, seed=None, level="proof", keep_evidence=False):
        self.prop = prop
        self.tier = tier
        self.seed = int(seed if seed is not None else os.environ.get("VERIF_SEED", "1"))
        self.level = level
        self.t0 = time.time()
        self.cov = {"evaluations": 0, "distinct_nontrivial": 0, "rule": "", "samples": [], "obligations": 0,
                    "discharged": 0, "checker_cmd": "", "trusted_base": list(TRUSTED_COMMON)}
        self.assumptions = []
        self.viol = []          # (key, what, replay, no_input)
        self.known_hit = []
        self.notes = []
        self.theorems = {}
        os.makedirs(EVID, exist_ok=True)
        self.keep_evidence = keep_evidence
        # the evidence file is rewritten (atomically) by finish(); it is not removed up front so that an interrupted
        # run never leaves the tree without evidence for a claimed property

    # -- proofs ------------------------------------------------------------------------------------
    def prove(self, module_rel, extra_targets=()):
        """Compile theories/Properties/<prop>.v (and deps), run Print Assumptions on every statement in it.
        module_rel may be a list of property files (their statements are all obligations of this check).
        Returns list of failed obligations (names); records them in coverage."""
        if isinstance(module_rel, (list, tuple)):
            allfailed, names_total, disc_total, cmds = [], 0, 0, []
            for mrel in module_rel:
                f = self._prove_one(mrel, extra_targets)
                allfailed += f
                names_total += self.cov["obligations"]
                disc_total += self.cov["discharged"]
                cmds.append(self.cov["checker_cmd"])
            self.cov["obligations"], self.cov["discharged"] = names_total, disc_total
            self.cov["checker_cmd"] = " ; ".join(cmds)
            self.failed_obligations = allfailed
            return allfailed
        return self._prove_one(module_rel, extra_targets)

    def _prove_one(self, module_rel, extra_targets=()):
        """Compile theories/Properties/<prop>.v (and deps), run Print Assumptions on every statement in it.
        Returns list of failed obligations (names); records them in coverage."""
        vfile = os.path.join(COQ, module_rel)
        target = module_rel[:-2] + ".vo"
        names = theorems_of(vfile)
        bad = grep_gate(coq_deps(vfile))
        ok, log = build_coq([target] + list(extra_targets))
        self.cov["checker_cmd"] = "make -f Makefile.coq -k -j%d %s (coq_makefile, full .vo) + coqc Print Assumptions" % (NCPU, target)
        self.cov["obligations"] = len(names)
        failed = []
        if bad:
            self.notes.append("grep gate: " + "; ".join(bad))
            failed = list(names) or ["<grep-gate>"]
        elif not ok[target]:
            os.makedirs(REPLAYS, exist_ok=True)
            failed = list(names) or ["<build>"]
            self.build_log = log
        else:
            mod = module_rel[len("theories/"):-2].replace("/", ".")
            pa = print_assumptions(mod, names)
            for n in names:
                t = pa.get(n, "ERROR: no output")
                self.theorems[n] = t.replace("\n", " ")[:300]
                if "Closed under the global context" in t:
                    continue
                axs = re.findall(r"^([A-Za-z_][\w.']*)\s*:", t, flags=re.M)
                if t.startswith("ERROR") or not axs or any(not a.endswith(STD_AXIOMS_OK) for a in axs):
                    failed.append(n)
                else:
                    for a in axs:
                        s = "standard-library axiom used by %s: %s" % (n, a)
                        if s not in self.cov["trusted_base"]:
                            self.cov["trusted_base"].append(s)
        if self.tier == "thorough" and not failed:
            # independent re-check of the compiled files (and everything they depend on) + axiom report
            mod = "Argot." + module_rel[len("theories/"):-2].replace("/", ".")
            rc, out = sh(["coqchk", "-silent", "-o", "-Q", "theories", "Argot", "-Q", "gen", "ArgotGen", mod], timeout=3000, cwd=COQ)
            m = re.search(r"\* Axioms:(.*?)\n\s*\n", out + "\n\n", flags=re.S)
            axioms = " ".join(m.group(1).split()) if m else "?"
            self.cov["coqchk"] = {"cmd": "coqchk -silent -o -Q theories Argot -Q gen ArgotGen " + mod, "rc": rc, "axioms": axioms}
            self.cov["checker_cmd"] += " + coqchk -silent -o"
            if rc != 0:
                failed = list(names)
                self.notes.append("coqchk failed: " + out[-800:])
        self.cov["discharged"] = len(names) - len([f for f in failed if f in names])
        self.cov["theorems"] = self.theorems
        self.failed_obligations = failed
        return failed

    def has_new_concrete(self):
        """a concrete failing input that is NOT a listed finding has been recorded in this run"""
        return any(not no_input for (_k, _w, _r, no_input) in self.viol)

    def proof_broken(self, failed, found_concrete):
        """protocol step 4 when an obligation no longer checks and the search found no concrete failing input.
        Listed findings never count as the concrete input of a broken obligation: only a NEW violation does."""
        if failed and not (found_concrete and self.has_new_concrete()):
            os.makedirs(REPLAYS, exist_ok=True)
            p = os.path.join(REPLAYS, "%s-proof-broken.txt" % self.prop)
            with open(p, "w") as f:
                f.write("property %s: proof obligations that no longer check: %s\n" % (self.prop, ", ".join(failed)))
                f.write("notes: %s\n\n" % "; ".join(self.notes))
                f.write(getattr(self, "build_log", "")[-6000:])
            self.violation("proof-broken:" + ",".join(failed)[:80], "obligation(s) no longer check: " + ", ".join(failed), p,
                           no_input=True)

    # -- coverage ----------------------------------------------------------------------------------
    def sample(self, s, limit=8):
        if len(self.cov["samples"]) < limit:
            self.cov["samples"].append(s)

    # -- violations --------------------------------------------------------------------------------
    def replay_dir(self, key):
        h = hashlib.sha1(key.encode()).hexdigest()[:10]
        d = os.path.join(REPLAYS, "%s-%s" % (self.prop, h))
        shutil.rmtree(d, ignore_errors=True)
        os.makedirs(d)
        return d

    def violation(self, key, what, replay, no_input=False):
        """key identifies the failing input class; matched against known_findings.txt"""
        for k in load_known():
            if k["property"] == self.prop and (k["key"] == key or (k["key"].endswith("*") and key.startswith(k["key"][:-1]))):
                if k["key"] not in [x[0] for x in self.known_hit]:
                    self.known_hit.append((k["key"], k["what"]))
                return False
        self.viol.append((key, what, replay, no_input))
        return True

    def finish(self, extra=None):
        for key, what in self.known_hit:
            print("KNOWN-FINDING: property=%s key=%s %s" % (self.prop, key, what))
        seen = set()
        for key, what, replay, no_input in self.viol:
            if key in seen:
                continue
            seen.add(key)
            if len(seen) > 5:
                continue
            print("VIOLATION property=%s replay=%s%s" % (self.prop, replay, " no-failing-input-found" if no_input else ""))
            print("  key=%s: %s" % (key, what))
        if len(seen) > 5:
            print("  (+%d further violations, see evidence/replays)" % (len(seen) - 5))
        ev = {"property_id": self.prop, "tier": self.tier, "seed": self.seed, "level": self.level,
              "coverage": self.cov, "assumptions": self.assumptions, "wall_s": round(time.time() - self.t0, 2),
              "violations": len(seen)}
        self.cov["known_findings_matched"] = [k for k, _ in self.known_hit]
        self.cov["notes"] = self.notes
        if extra:
            self.cov.update(extra)
        if not self.keep_evidence:
            tmp = os.path.join(EVID, "." + self.prop + ".json.tmp")
            with open(tmp, "w") as f:
                json.dump(ev, f, indent=1, sort_keys=True, default=str)
            os.replace(tmp, os.path.join(EVID, self.prop + ".json"))
        sys.stdout.flush()
        return 1 if seen else 0


def lcg(seed):
    """one PRNG state per run: deterministic generator of 31-bit ints"""
    s = [seed & 0x7fffffff or 1]

    def nxt(n=None):
        s[0] = (s[0] * 1103515245 + 12345) & 0x7fffffff
        v = s[0] >> 8
        return v % n if n else v
    return nxt
