package main

import "fmt"

func source() string { return "secret" }
func sink(x any)     { fmt.Println(x) }

// direct, mutual, closure and interface recursion carrying tainted data

func direct(n int, s string) string {
	if n == 0 {
		return s
	}
	return direct(n-1, s+"x")
}

func even(n int, s string) string {
	if n == 0 {
		return s
	}
	return odd(n-1, s)
}

func odd(n int, s string) string {
	if n == 0 {
		return ""
	}
	return even(n-1, s)
}

type Node interface{ Walk(s string, d int) string }
type A struct{ next Node }
type B struct{ next Node }

func (a *A) Walk(s string, d int) string {
	if d == 0 || a.next == nil {
		return s
	}
	return a.next.Walk(s, d-1)
}
func (b *B) Walk(s string, d int) string {
	if d == 0 || b.next == nil {
		return s
	}
	return b.next.Walk(s+"b", d-1)
}

func apply(f func(string) string, s string, n int) string {
	if n == 0 {
		return f(s)
	}
	return apply(func(x string) string { return f(apply(f, x, n-1)) }, s, n-1)
}

func viaPointer(p *string, n int) {
	if n > 0 {
		viaPointer(p, n-1)
		return
	}
	*p = source()
}

func main() {
	s := source()
	sink(direct(3, s))
	sink(even(4, s))
	a := &A{}
	b := &B{next: a}
	a.next = b
	sink(a.Walk(s, 5))
	var fact func(int, string) string
	fact = func(n int, acc string) string {
		if n == 0 {
			return acc
		}
		return fact(n-1, acc+s)
	}
	sink(fact(3, ""))
	sink(apply(func(x string) string { return x + "!" }, s, 2))
	var q string
	viaPointer(&q, 3)
	sink(q)
	// recursion through a function stored in a struct field and a map
	type R struct{ f func(*R, string, int) string }
	r := &R{}
	r.f = func(self *R, x string, n int) string {
		if n == 0 {
			return x
		}
		return self.f(self, x, n-1)
	}
	sink(r.f(r, s, 2))
	m := map[string]func(string) string{}
	m["a"] = func(x string) string { return m["b"](x) }
	m["b"] = func(x string) string {
		if len(x) > 10 {
			return x
		}
		return m["a"](x + x)
	}
	sink(m["a"](s))
}
