module c07rec

go 1.22
