package main

import "fmt"

func source() string { return "secret" }
func sink(x any)     { fmt.Println(x) }

// closures returning closures, captured variables mutated after capture, closures in data structures

func counter(s string) func() func() string {
	x := ""
	return func() func() string {
		x += s
		return func() string { return x }
	}
}

func compose(fs ...func(string) string) func(string) string {
	return func(x string) string {
		for _, f := range fs {
			x = f(x)
		}
		return x
	}
}

func curry(a string) func(string) func(string) string {
	return func(b string) func(string) string {
		return func(c string) string { return a + b + c }
	}
}

type handler struct {
	hs  []func(string)
	buf *string
}

func (h *handler) on(f func(string)) { h.hs = append(h.hs, f) }
func (h *handler) fire(s string) {
	for _, f := range h.hs {
		f(s)
	}
}

func main() {
	s := source()
	c := counter(s)
	sink(c()())
	x := "clean"
	f := func() string { return x }
	x = s
	sink(f())
	g := compose(func(a string) string { return a + "1" }, func(a string) string { return a + x })
	sink(g("z"))
	sink(curry("a")(s)("c"))
	var buf string
	h := &handler{buf: &buf}
	h.on(func(v string) { *h.buf = v })
	h.on(func(v string) { sink(*h.buf) })
	h.fire(s)
	var loop func(int) func() string
	loop = func(n int) func() string {
		if n == 0 {
			return func() string { return s }
		}
		inner := loop(n - 1)
		return func() string { return inner() }
	}
	sink(loop(3)())
	fs := []func() string{}
	for i := 0; i < 3; i++ {
		v := s + fmt.Sprint(i)
		fs = append(fs, func() string { return v })
	}
	for _, k := range fs {
		sink(k())
	}
}
