module c07closures

go 1.22
