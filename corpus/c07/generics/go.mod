module c07generics

go 1.22
