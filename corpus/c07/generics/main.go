package main

import "fmt"

func source() string { return "secret" }
func sink(x any)     { fmt.Println(x) }

// generics, including conversions on type parameters (*ssa.MultiConvert in the uninstantiated body)

type Str interface{ ~string | ~[]byte }
type Num interface{ ~int | ~int64 | ~float64 }

func conv[T Str](x T) string    { return string(x) }
func conv2[T Str, U Str](x T) U { return U(x) }
func toNum[T Num, U Num](x T) U { return U(x) }
func id[T any](x T) T           { return x }
func mapf[T, U any](xs []T, f func(T) U) []U {
	var r []U
	for _, x := range xs {
		r = append(r, f(x))
	}
	return r
}

type Box[T any] struct{ v T }

func (b *Box[T]) Get() T  { return b.v }
func (b *Box[T]) Set(x T) { b.v = x }

type Pair[K comparable, V any] struct {
	k K
	v V
}

func mk[K comparable, V any](k K, v V) Pair[K, V] { return Pair[K, V]{k, v} }

type Tree[T any] struct {
	l, r *Tree[T]
	v    T
}

func (t *Tree[T]) walk(f func(T)) {
	if t == nil {
		return
	}
	t.l.walk(f)
	f(t.v)
	t.r.walk(f)
}

func rec[T any](n int, x T) T {
	if n == 0 {
		return x
	}
	return rec(n-1, x)
}

type myS string

func main() {
	s := source()
	sink(conv(s))
	sink(conv([]byte(s)))
	sink(conv2[string, []byte](s))
	sink(conv2[myS, string](myS(s)))
	sink(toNum[int, float64](len(s)))
	sink(id(s))
	sink(mapf([]string{s}, func(x string) int { return len(x) }))
	sink(mapf([]string{s}, func(x string) string { return x }))
	b := &Box[string]{}
	b.Set(s)
	sink(b.Get())
	p := mk("k", s)
	sink(p.v)
	t := &Tree[string]{v: s}
	t.l = &Tree[string]{v: "l"}
	t.walk(func(x string) { sink(x) })
	sink(rec(3, s))
	f := conv[string]
	sink(f(s))
	g := id[func(string) string]
	sink(g(func(x string) string { return x })(s))
}
