package main

import "fmt"

func source() string { return "secret" }
func sink(x any)     { fmt.Println(x) }

// go / defer statements whose function value is a constant nil or a conversion

func main() {
	s := source()
	defer func() { recover(); sink(s) }()
	if len(s) > 100 {
		go (func())(nil)()
		defer (func(string))(nil)(s)
		var fn func(string)
		go fn(s)
	}
	type H func(string)
	go H(func(x string) { sink(x) })(s)
	go sink(s)
	go func(f func(any)) { f(s) }(sink)
}
