module c07gonil

go 1.22
