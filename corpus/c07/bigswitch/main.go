package main

import "fmt"

func source() string { return "secret" }
func sink(x any)     { fmt.Println(x) }

func big(n int, s string) string {
	r := ""
	for i := 0; i < n; i++ {
		switch (n + i) % 211 {
		case 0:
			r += s
			fallthrough
		case 1:
			r = fmt.Sprint(r, 1)
		case 2:
			r = fmt.Sprint(r, 2)
		case 3:
			r = fmt.Sprint(r, 3)
		case 4:
			r = fmt.Sprint(r, 4)
		case 5:
			if len(r) > 5 {
				continue
			}
			r = r + "5"
		case 6:
			r = fmt.Sprint(r, 6)
		case 7:
			r += s
			fallthrough
		case 8:
			r = fmt.Sprint(r, 8)
		case 9:
			r = fmt.Sprint(r, 9)
		case 10:
			if len(r) > 10 {
				continue
			}
			r = r + "10"
		case 11:
			goto done
		case 12:
			r = fmt.Sprint(r, 12)
		case 13:
			r = fmt.Sprint(r, 13)
		case 14:
			r += s
			fallthrough
		case 15:
			if len(r) > 15 {
				continue
			}
			r = r + "15"
		case 16:
			r = fmt.Sprint(r, 16)
		case 17:
			r = fmt.Sprint(r, 17)
		case 18:
			r = fmt.Sprint(r, 18)
		case 19:
			r = fmt.Sprint(r, 19)
		case 20:
			if len(r) > 20 {
				continue
			}
			r = r + "20"
		case 21:
			r += s
			fallthrough
		case 22:
			goto done
		case 23:
			r = fmt.Sprint(r, 23)
		case 24:
			r = fmt.Sprint(r, 24)
		case 25:
			if len(r) > 25 {
				continue
			}
			r = r + "25"
		case 26:
			r = fmt.Sprint(r, 26)
		case 27:
			r = fmt.Sprint(r, 27)
		case 28:
			r += s
			fallthrough
		case 29:
			r = fmt.Sprint(r, 29)
		case 30:
			if len(r) > 30 {
				continue
			}
			r = r + "30"
		case 31:
			r = fmt.Sprint(r, 31)
		case 32:
			r = fmt.Sprint(r, 32)
		case 33:
			goto done
		case 34:
			r = fmt.Sprint(r, 34)
		case 35:
			r += s
			fallthrough
		case 36:
			r = fmt.Sprint(r, 36)
		case 37:
			r = fmt.Sprint(r, 37)
		case 38:
			r = fmt.Sprint(r, 38)
		case 39:
			r = fmt.Sprint(r, 39)
		case 40:
			if len(r) > 40 {
				continue
			}
			r = r + "40"
		case 41:
			r = fmt.Sprint(r, 41)
		case 42:
			r += s
			fallthrough
		case 43:
			r = fmt.Sprint(r, 43)
		case 44:
			goto done
		case 45:
			if len(r) > 45 {
				continue
			}
			r = r + "45"
		case 46:
			r = fmt.Sprint(r, 46)
		case 47:
			r = fmt.Sprint(r, 47)
		case 48:
			r = fmt.Sprint(r, 48)
		case 49:
			r += s
			fallthrough
		case 50:
			if len(r) > 50 {
				continue
			}
			r = r + "50"
		case 51:
			r = fmt.Sprint(r, 51)
		case 52:
			r = fmt.Sprint(r, 52)
		case 53:
			r = fmt.Sprint(r, 53)
		case 54:
			r = fmt.Sprint(r, 54)
		case 55:
			if len(r) > 55 {
				continue
			}
			r = r + "55"
		case 56:
			r += s
			fallthrough
		case 57:
			r = fmt.Sprint(r, 57)
		case 58:
			r = fmt.Sprint(r, 58)
		case 59:
			r = fmt.Sprint(r, 59)
		case 60:
			if len(r) > 60 {
				continue
			}
			r = r + "60"
		case 61:
			r = fmt.Sprint(r, 61)
		case 62:
			r = fmt.Sprint(r, 62)
		case 63:
			r += s
			fallthrough
		case 64:
			r = fmt.Sprint(r, 64)
		case 65:
			if len(r) > 65 {
				continue
			}
			r = r + "65"
		case 66:
			goto done
		case 67:
			r = fmt.Sprint(r, 67)
		case 68:
			r = fmt.Sprint(r, 68)
		case 69:
			r = fmt.Sprint(r, 69)
		case 70:
			r += s
			fallthrough
		case 71:
			r = fmt.Sprint(r, 71)
		case 72:
			r = fmt.Sprint(r, 72)
		case 73:
			r = fmt.Sprint(r, 73)
		case 74:
			r = fmt.Sprint(r, 74)
		case 75:
			if len(r) > 75 {
				continue
			}
			r = r + "75"
		case 76:
			r = fmt.Sprint(r, 76)
		case 77:
			r += s
			fallthrough
		case 78:
			r = fmt.Sprint(r, 78)
		case 79:
			r = fmt.Sprint(r, 79)
		case 80:
			if len(r) > 80 {
				continue
			}
			r = r + "80"
		case 81:
			r = fmt.Sprint(r, 81)
		case 82:
			r = fmt.Sprint(r, 82)
		case 83:
			r = fmt.Sprint(r, 83)
		case 84:
			r += s
			fallthrough
		case 85:
			if len(r) > 85 {
				continue
			}
			r = r + "85"
		case 86:
			r = fmt.Sprint(r, 86)
		case 87:
			r = fmt.Sprint(r, 87)
		case 88:
			goto done
		case 89:
			r = fmt.Sprint(r, 89)
		case 90:
			if len(r) > 90 {
				continue
			}
			r = r + "90"
		case 91:
			r += s
			fallthrough
		case 92:
			r = fmt.Sprint(r, 92)
		case 93:
			r = fmt.Sprint(r, 93)
		case 94:
			r = fmt.Sprint(r, 94)
		case 95:
			if len(r) > 95 {
				continue
			}
			r = r + "95"
		case 96:
			r = fmt.Sprint(r, 96)
		case 97:
			r = fmt.Sprint(r, 97)
		case 98:
			r += s
			fallthrough
		case 99:
			goto done
		case 100:
			if len(r) > 100 {
				continue
			}
			r = r + "100"
		case 101:
			r = fmt.Sprint(r, 101)
		case 102:
			r = fmt.Sprint(r, 102)
		case 103:
			r = fmt.Sprint(r, 103)
		case 104:
			r = fmt.Sprint(r, 104)
		case 105:
			r += s
			fallthrough
		case 106:
			r = fmt.Sprint(r, 106)
		case 107:
			r = fmt.Sprint(r, 107)
		case 108:
			r = fmt.Sprint(r, 108)
		case 109:
			r = fmt.Sprint(r, 109)
		case 110:
			if len(r) > 110 {
				continue
			}
			r = r + "110"
		case 111:
			r = fmt.Sprint(r, 111)
		case 112:
			r += s
			fallthrough
		case 113:
			r = fmt.Sprint(r, 113)
		case 114:
			r = fmt.Sprint(r, 114)
		case 115:
			if len(r) > 115 {
				continue
			}
			r = r + "115"
		case 116:
			r = fmt.Sprint(r, 116)
		case 117:
			r = fmt.Sprint(r, 117)
		case 118:
			r = fmt.Sprint(r, 118)
		case 119:
			r += s
			fallthrough
		case 120:
			if len(r) > 120 {
				continue
			}
			r = r + "120"
		case 121:
			goto done
		case 122:
			r = fmt.Sprint(r, 122)
		case 123:
			r = fmt.Sprint(r, 123)
		case 124:
			r = fmt.Sprint(r, 124)
		case 125:
			if len(r) > 125 {
				continue
			}
			r = r + "125"
		case 126:
			r += s
			fallthrough
		case 127:
			r = fmt.Sprint(r, 127)
		case 128:
			r = fmt.Sprint(r, 128)
		case 129:
			r = fmt.Sprint(r, 129)
		case 130:
			if len(r) > 130 {
				continue
			}
			r = r + "130"
		case 131:
			r = fmt.Sprint(r, 131)
		case 132:
			goto done
		case 133:
			r += s
			fallthrough
		case 134:
			r = fmt.Sprint(r, 134)
		case 135:
			if len(r) > 135 {
				continue
			}
			r = r + "135"
		case 136:
			r = fmt.Sprint(r, 136)
		case 137:
			r = fmt.Sprint(r, 137)
		case 138:
			r = fmt.Sprint(r, 138)
		case 139:
			r = fmt.Sprint(r, 139)
		case 140:
			r += s
			fallthrough
		case 141:
			r = fmt.Sprint(r, 141)
		case 142:
			r = fmt.Sprint(r, 142)
		case 143:
			goto done
		case 144:
			r = fmt.Sprint(r, 144)
		case 145:
			if len(r) > 145 {
				continue
			}
			r = r + "145"
		case 146:
			r = fmt.Sprint(r, 146)
		case 147:
			r += s
			fallthrough
		case 148:
			r = fmt.Sprint(r, 148)
		case 149:
			r = fmt.Sprint(r, 149)
		case 150:
			if len(r) > 150 {
				continue
			}
			r = r + "150"
		case 151:
			r = fmt.Sprint(r, 151)
		case 152:
			r = fmt.Sprint(r, 152)
		case 153:
			r = fmt.Sprint(r, 153)
		case 154:
			r += s
			fallthrough
		case 155:
			if len(r) > 155 {
				continue
			}
			r = r + "155"
		case 156:
			r = fmt.Sprint(r, 156)
		case 157:
			r = fmt.Sprint(r, 157)
		case 158:
			r = fmt.Sprint(r, 158)
		case 159:
			r = fmt.Sprint(r, 159)
		case 160:
			if len(r) > 160 {
				continue
			}
			r = r + "160"
		case 161:
			r += s
			fallthrough
		case 162:
			r = fmt.Sprint(r, 162)
		case 163:
			r = fmt.Sprint(r, 163)
		case 164:
			r = fmt.Sprint(r, 164)
		case 165:
			if len(r) > 165 {
				continue
			}
			r = r + "165"
		case 166:
			r = fmt.Sprint(r, 166)
		case 167:
			r = fmt.Sprint(r, 167)
		case 168:
			r += s
			fallthrough
		case 169:
			r = fmt.Sprint(r, 169)
		case 170:
			if len(r) > 170 {
				continue
			}
			r = r + "170"
		case 171:
			r = fmt.Sprint(r, 171)
		case 172:
			r = fmt.Sprint(r, 172)
		case 173:
			r = fmt.Sprint(r, 173)
		case 174:
			r = fmt.Sprint(r, 174)
		case 175:
			r += s
			fallthrough
		case 176:
			goto done
		case 177:
			r = fmt.Sprint(r, 177)
		case 178:
			r = fmt.Sprint(r, 178)
		case 179:
			r = fmt.Sprint(r, 179)
		case 180:
			if len(r) > 180 {
				continue
			}
			r = r + "180"
		case 181:
			r = fmt.Sprint(r, 181)
		case 182:
			r += s
			fallthrough
		case 183:
			r = fmt.Sprint(r, 183)
		case 184:
			r = fmt.Sprint(r, 184)
		case 185:
			if len(r) > 185 {
				continue
			}
			r = r + "185"
		case 186:
			r = fmt.Sprint(r, 186)
		case 187:
			goto done
		case 188:
			r = fmt.Sprint(r, 188)
		case 189:
			r += s
			fallthrough
		case 190:
			if len(r) > 190 {
				continue
			}
			r = r + "190"
		case 191:
			r = fmt.Sprint(r, 191)
		case 192:
			r = fmt.Sprint(r, 192)
		case 193:
			r = fmt.Sprint(r, 193)
		case 194:
			r = fmt.Sprint(r, 194)
		case 195:
			if len(r) > 195 {
				continue
			}
			r = r + "195"
		case 196:
			r += s
			fallthrough
		case 197:
			r = fmt.Sprint(r, 197)
		case 198:
			goto done
		case 199:
			r = fmt.Sprint(r, 199)
		default:
			r = s + r
		}
	}
done:
	return r
}

func loops(s string) string {
	out := ""
outer:
	for i := 0; i < 10; i++ {
		for j := 0; j < 10; j++ {
			for k := range s {
				if k == j {
					continue outer
				}
				if i == k {
					break outer
				}
				out += string(s[k])
			}
		}
	}
	i := 0
L:
	if i < 5 {
		i++
		out += s
		goto L
	}
	return out
}

func typeswitch(x any) string {
	switch v := x.(type) {
	case string:
		return v
	case []byte:
		return string(v)
	case fmt.Stringer:
		return v.String()
	case error:
		return v.Error()
	case nil:
		return ""
	case int, int8, int16:
		return fmt.Sprint(v)
	}
	return ""
}

func main() {
	s := source()
	sink(big(50, s))
	sink(loops(s))
	sink(typeswitch(s))
	sink(typeswitch([]byte(s)))
}
