module c07bigswitch

go 1.22
