module c07rectypes

go 1.22
