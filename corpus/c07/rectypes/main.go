package main

import "fmt"

func source() string { return "secret" }
func sink(x any)     { fmt.Println(x) }

// recursive data types

type List struct {
	val  string
	next *List
}

type Tree struct {
	l, r *Tree
	v    []string
	up   *Tree
}

type X struct{ y *Y }
type Y struct {
	x  *X
	xs []X
	m  map[string]*Y
	s  string
}

type Stream interface {
	Next() Stream
	Val() string
}
type cons struct {
	h string
	t Stream
}

func (c cons) Next() Stream { return c.t }
func (c cons) Val() string  { return c.h }

type F func(F) string

func (l *List) push(s string) *List { return &List{val: s, next: l} }
func (l *List) last() string {
	for l.next != nil {
		l = l.next
	}
	return l.val
}
func (t *Tree) insert(s string) {
	if t.l == nil {
		t.l = &Tree{up: t}
		t.l.v = append(t.l.v, s)
		return
	}
	t.l.insert(s)
}
func (t *Tree) collect() []string {
	if t == nil {
		return nil
	}
	return append(append(t.l.collect(), t.v...), t.r.collect()...)
}

func main() {
	s := source()
	var l *List
	l = l.push("a").push(s).push("b")
	sink(l.last())
	t := &Tree{}
	t.insert(s)
	sink(t.collect())
	x := &X{}
	y := &Y{x: x, m: map[string]*Y{}}
	x.y = y
	y.m["self"] = y
	y.xs = append(y.xs, *x)
	y.m["self"].x.y.s = s
	sink(x.y.m["self"].s)
	var st Stream = cons{h: s, t: cons{h: "b"}}
	for st != nil {
		sink(st.Val())
		st = st.Next()
	}
	var f F
	f = func(g F) string { return s }
	sink(f(f))
	ch := make(chan chan string, 1)
	inner := make(chan string, 1)
	inner <- s
	ch <- inner
	sink(<-<-ch)
}
