package main

import "fmt"

func source() string { return "secret" }
func sink(x any)     { fmt.Println(x) }

// field-sensitive shapes that terminate: nested structs, field copies across calls, loops over distinct fields

type In struct{ A, B string }
type Out struct {
	I In
	P *In
	M map[string]In
}

func set(o *Out, s string) { o.I.A = s; o.P = &o.I }
func get(o *Out) string    { return o.P.A }
func swap(i In) In         { return In{A: i.B, B: i.A} }
func pass(o Out) Out       { return o }

func main() {
	s := source()
	o := &Out{M: map[string]In{}}
	set(o, s)
	sink(get(o))
	sink(o.I.B)
	i := swap(swap(o.I))
	sink(i.A)
	sink(i.B)
	o2 := pass(pass(*o))
	sink(o2.I.A)
	o.M["k"] = i
	sink(o.M["k"].B)
	arr := [3]In{}
	arr[1].A = s
	for _, e := range arr {
		sink(e.B)
	}
}
