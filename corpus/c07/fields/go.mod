module c07fields

go 1.22
