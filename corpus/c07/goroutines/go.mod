module c07goroutines

go 1.22
