package main

import (
	"fmt"
	"sync"
)

func source() string { return "secret" }
func sink(x any)     { fmt.Println(x) }

type W interface{ Work(string) }
type w1 struct{ out chan string }

func (w w1) Work(s string) { w.out <- s }

func producer(s string, n int, out chan<- string) {
	for i := 0; i < n; i++ {
		out <- s
	}
	close(out)
}

func fanin(a, b <-chan string, quit chan struct{}) string {
	res := ""
	for {
		select {
		case x, ok := <-a:
			if !ok {
				a = nil
				continue
			}
			res += x
		case y := <-b:
			res += y
		case <-quit:
			return res
		default:
			if a == nil {
				return res
			}
		}
	}
}

func spawn(n int, s string, wg *sync.WaitGroup, sinkf func(any)) {
	if n == 0 {
		return
	}
	wg.Add(1)
	go func() {
		defer wg.Done()
		sinkf(s)
		spawn(n-1, s, wg, sinkf)
	}()
}

func main() {
	s := source()
	a := make(chan string)
	b := make(chan string, 2)
	quit := make(chan struct{})
	go producer(s, 2, a)
	b <- "x"
	sink(fanin(a, b, quit))
	var wg sync.WaitGroup
	spawn(2, s, &wg, sink)
	wg.Wait()
	var w W = w1{out: make(chan string, 1)}
	go w.Work(s)
	f := w.Work
	go f(s)
	defer func() { recover() }()
	var mu sync.Mutex
	mu.Lock()
	go func() {
		defer mu.Unlock()
		sink(s)
	}()
	mu.Lock()
	select {}
}
