package main

import "fmt"

func source() string { return "secret" }
func sink(x any)     { fmt.Println(x) }

func big(n int, s string) string {
	r := ""
	for i := 0; i < n; i++ {
		switch (n + i) % 211 {
		case 0:
			r += s
			fallthrough
		case 1:
			r = fmt.Sprint(r, 1)
		case 2:
			r = fmt.Sprint(r, 2)
		case 3:
			r = fmt.Sprint(r, 3)
		case 4:
			r = fmt.Sprint(r, 4)
		case 5:
			if len(r) > 5 {
				continue
			}
			r = r + "5"
		case 6:
			r = fmt.Sprint(r, 6)
		case 7:
			r += s
			fallthrough
		case 8:
			r = fmt.Sprint(r, 8)
		case 9:
			r = fmt.Sprint(r, 9)
		case 10:
			if len(r) > 10 {
				continue
			}
			r = r + "10"
		case 11:
			goto done
		case 12:
			r = fmt.Sprint(r, 12)
		case 13:
			r = fmt.Sprint(r, 13)
		case 14:
			r += s
			fallthrough
		case 15:
			if len(r) > 15 {
				continue
			}
			r = r + "15"
		case 16:
			r = fmt.Sprint(r, 16)
		case 17:
			r = fmt.Sprint(r, 17)
		case 18:
			r = fmt.Sprint(r, 18)
		case 19:
			r = fmt.Sprint(r, 19)
		default:
			r = s + r
		}
	}
done:
	return r
}

func main() {
	s := source()
	sink(big(50, s))
}
