module c07switch20

go 1.22
