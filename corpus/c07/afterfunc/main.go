package main

import (
	"fmt"
	"time"
)

// closure passed to a standard-library function that is not summarised (reported by the C13 builder)

type T struct{ d string }

func source() string { return "secret" }
func sink(x any)     { fmt.Println(x) }

func reader(o *T) { sink(o.d) }

func main() {
	o := &T{}
	o.d = source()
	time.AfterFunc(0, func() { reader(o) })
	time.Sleep(time.Millisecond)
}
