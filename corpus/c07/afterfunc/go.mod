module c07afterfunc

go 1.22
