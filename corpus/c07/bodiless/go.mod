module c07bodiless

go 1.22
