// empty assembly file: allows functions without bodies in this package
