package main

import (
	"fmt"
	_ "unsafe"
)

func source() string { return "secret" }
func sink(x any)     { fmt.Println(x) }

// functions without bodies

//go:linkname nanotime runtime.nanotime
func nanotime() int64

//go:linkname fastrand runtime.fastrand
func fastrand() uint32

// implemented in stub.s (never called at run time)
func asmIdentity(s string) string

//go:noescape
func asmStore(p *string, s string)

type T struct{ f func(string) string }

func main() {
	s := source()
	sink(nanotime())
	sink(fastrand())
	if nanotime() < 0 {
		sink(asmIdentity(s))
		var q string
		asmStore(&q, s)
		sink(q)
		t := T{f: asmIdentity}
		sink(t.f(s))
		defer asmStore(&q, s)
		go asmIdentity(s)
	}
	sink(s)
}
