package main

import "fmt"

func source() string { return "secret" }
func sink(x any)     { fmt.Println(x) }

func named() (res string) {
	defer func() { res = source() }()
	return "ok"
}

func loopDefer(n int) (out []string) {
	for i := 0; i < n; i++ {
		defer func(k int) { out = append(out, source()) }(i)
		if i%2 == 0 {
			defer sink(out)
		}
	}
	return
}

func recovering() (s string) {
	defer func() {
		if r := recover(); r != nil {
			s = fmt.Sprint(r)
		}
	}()
	panic(source())
}

func nested() {
	defer func() {
		defer func() {
			defer sink(source())
		}()
	}()
	for {
		defer fmt.Println("x")
		if len(source()) > 0 {
			break
		}
	}
}

func condDefer(b bool) string {
	x := source()
	if b {
		defer sink(x)
	} else {
		defer func() { x = "" }()
	}
	for i := 0; i < 3; i++ {
		switch i {
		case 0:
			defer sink(i)
		case 1:
			defer sink(x)
		default:
			continue
		}
	}
	return x
}

func main() {
	sink(named())
	sink(loopDefer(3))
	sink(recovering())
	nested()
	sink(condDefer(true))
}
