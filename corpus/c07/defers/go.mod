module c07defers

go 1.22
