package main

import "fmt"

// known finding F3: with field-sensitive: true the taint traversal does not terminate on this program

type T struct {
	A string
	B string
}

func source() T     { return T{A: "secret", B: "x"} }
func sink(s string) { fmt.Println(s) }
func id(t T) T      { return t }

func main() {
	x := source()
	for i := 0; i < 10; i++ {
		x = id(x)
	}
	sink(x.A)
}
