module c07f3

go 1.22
