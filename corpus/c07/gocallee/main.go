package main

import "fmt"

// go / defer statements on every form of callee (except the nil constant, which is corpus/c07/gonil):
// builtins, named functions, closures, method values, bound methods, method expressions, interface methods,
// function-typed parameters / free variables / fields / globals / map elements / slice elements / call results /
// tuple components / phis / type assertions / conversions, generic instances.

func source() string { return "secret" }
func sink(x any)     { fmt.Println(x) }

type T struct {
	f  func(string)
	fs []func(string)
	m  map[string]func(string)
}

func (t *T) M(s string) { sink(s) }
func (t T) V(s string)  { sink(s) }

type I interface{ M(string) }

type H func(string)

var G func(string) = func(s string) { sink(s) }
var GI I = &T{}

func named(s string)              { sink(s) }
func gen[X any](x X)              { sink(x) }
func ret() func(string)           { return named }
func two() (func(string), string) { return named, "x" }

func viaParam(p func(string), i I, s string, c bool) {
	go p(s)
	defer p(s)
	go i.M(s)
	defer i.M(s)
	q := named
	if c {
		q = p
	}
	go q(s)    // phi
	defer q(s) // phi
	func() {
		go p(s) // free variable
		defer p(s)
		go i.M(s)
	}()
}

func builtins(s string, never bool) {
	ch := make(chan int)
	m := map[string]string{"k": s}
	a := make([]byte, 8)
	b := []byte(s)
	go println(s)
	go print(s)
	go copy(a, b)
	go copy(a, s)
	go delete(m, "k")
	go clear(m)
	go close(ch)
	go recover()
	defer println(s)
	defer print(s)
	defer copy(a, b)
	defer delete(m, "k")
	defer clear(a)
	defer recover()
	if never {
		go panic(s)
		defer close(ch)
		defer panic(s)
	}
	sink(string(a))
}

func main() {
	s := source()
	t := &T{f: named, fs: []func(string){named}, m: map[string]func(string){"k": named}}
	// named function, closure, generic instance
	go named(s)
	defer named(s)
	go func(x string) { sink(x) }(s)
	defer func() { recover(); sink(s) }()
	go gen[string](s)
	defer gen(s)
	go gen[[]byte]([]byte(s))
	// method value (bound), method expression, value receiver through pointer
	go t.M(s)
	defer t.M(s)
	mv := t.M
	go mv(s)
	defer mv(s)
	go (*T).M(t, s)
	defer T.V(*t, s)
	go t.V(s)
	// interface method: local, global, type assertion
	var i I = t
	go i.M(s)
	defer i.M(s)
	go GI.M(s)
	defer GI.M(s)
	var e any = t
	go e.(I).M(s)
	if f, ok := e.(func(string)); ok {
		go f(s)
	}
	// function-typed field, slice element, map element, global, call result, tuple component, conversion
	go t.f(s)
	defer t.f(s)
	go t.fs[0](s)
	defer t.fs[0](s)
	go t.m["k"](s)
	defer t.m["k"](s)
	go G(s)
	defer G(s)
	go ret()(s)
	defer ret()(s)
	f2, _ := two()
	go f2(s)
	defer f2(s)
	go H(named)(s)
	defer H(t.f)(s)
	hs := [2]H{H(named), H(G)}
	for _, h := range hs {
		go h(s)
		defer h(s)
	}
	viaParam(named, t, s, len(s) > 3)
	viaParam(t.M, GI, s, false)
	builtins(s, len(s) > 100)
}
