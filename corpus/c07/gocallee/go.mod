module c07gocallee

go 1.22
