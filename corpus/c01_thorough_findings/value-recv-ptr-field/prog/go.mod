module p1

go 1.22
