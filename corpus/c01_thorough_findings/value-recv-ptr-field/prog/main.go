package main

import (
	"bufio"
	"bytes"
	"encoding/json"
	"errors"
	"fmt"
	"io"
	"os"
	"reflect"
	"regexp"
	"sort"
	"strconv"
	"strings"
	"sync"
)

var _ sync.Once
var _ = bufio.NewReader
var _ = bytes.NewBuffer
var _ = json.Marshal
var _ = errors.New
var _ = io.ReadAll
var _ = sort.Strings
var _ = strconv.Itoa
var _ = strings.ToUpper

// opaque conditions: bit k of bits, set by main from the valuation counter (and from the command line)
var bits uint64

func c(k int) bool { return bits>>uint(k)&1 == 1 }

var markerRe = regexp.MustCompile("#[0-9][0-9][0-9][0-9]#")
var hits = map[[2]int]bool{}
var out = bufio.NewWriter(os.Stdout)

func found(sink int, s string) {
	for _, m := range markerRe.FindAllString(s, -1) {
		n, _ := strconv.Atoi(m[1:5])
		if !hits[[2]int{sink, n}] {
			hits[[2]int{sink, n}] = true
			fmt.Fprintf(out, "HIT %d %d\n", sink, n)
		}
	}
}

// report deep-walks x (pointers, slices, arrays, maps, interfaces, struct fields) looking for marker substrings
func report(sink int, x any) {
	walk(sink, reflect.ValueOf(x), map[uintptr]bool{}, 0)
}

func walk(sink int, v reflect.Value, seen map[uintptr]bool, depth int) {
	if !v.IsValid() || depth > 12 {
		return
	}
	switch v.Kind() {
	case reflect.String:
		found(sink, v.String())
	case reflect.Pointer:
		if v.IsNil() || seen[v.Pointer()] {
			return
		}
		seen[v.Pointer()] = true
		walk(sink, v.Elem(), seen, depth+1)
	case reflect.Interface:
		if !v.IsNil() {
			walk(sink, v.Elem(), seen, depth+1)
		}
	case reflect.Slice:
		if v.IsNil() {
			return
		}
		if v.Type().Elem().Kind() == reflect.Uint8 {
			found(sink, string(v.Bytes()))
			return
		}
		for i := 0; i < v.Len(); i++ {
			walk(sink, v.Index(i), seen, depth+1)
		}
	case reflect.Array:
		for i := 0; i < v.Len(); i++ {
			walk(sink, v.Index(i), seen, depth+1)
		}
	case reflect.Map:
		it := v.MapRange()
		for it.Next() {
			walk(sink, it.Key(), seen, depth+1)
			walk(sink, it.Value(), seen, depth+1)
		}
	case reflect.Struct:
		for i := 0; i < v.NumField(); i++ {
			walk(sink, v.Field(i), seen, depth+1)
		}
	}
}

// rec is deferred by every scenario runner so that a run-time panic in one scenario does not stop the others
func rec(id int) {
	if r := recover(); r != nil {
		fmt.Fprintf(out, "PANIC %d %d\n", id, bits)
	}
}

// ---- scenario 1: src=direct atoms=field:value-recv-writes-through-ptr-field wrap=direct
func source1() string { return "#0001#" }
func sink1(x any)     { report(1, x) }

type s1a0T struct {
	log *string
	v   string
}

func (t s1a0T) put() { *t.log = t.v }
func scen1() {
	x0 := source1() // @SRC
	var s1a0l string
	s1a0T{&s1a0l, x0}.put()
	x1 := s1a0l
	sink1(x1) // @SNK
}
func run1() {
	defer rec(1)
	scen1()
}

func runAll() {
	run1()
}

func main() {
	defer out.Flush()
	lo, hi := uint64(0), uint64(1)<<6
	if len(os.Args) > 1 {
		v, _ := strconv.ParseUint(os.Args[1], 10, 64)
		lo, hi = v, v+1
	}
	for v := lo; v < hi; v++ {
		bits = v
		runAll()
	}
}
