package main

import "fmt"

func source() string { return fmt.Sprint("s") }
func sink(x string)  {}

type I interface {
	M0()
	M1(a string)
	M2(a, b string)
}
type T struct{ f string }

func (t T) M0()            { sink(t.f + gT) }
func (t T) M1(a string)    { sink(a + t.f) }
func (t T) M2(a, b string) { sink(a + b) }

type U struct{}

func (U) M0()            { sink(gU) }
func (U) M1(a string)    { sink(a) }
func (U) M2(a, b string) { sink(b) }

var gT, gU, gS, gV, gC string
var sel int

func f0()            { sink(gS) }
func f1(a string)    { sink(a) }
func f2(a, b string) { sink(a + b) }
func h0()            { sink(gV) }
func h1(a string)    { sink(a + "h") }
func h2(a, b string) { sink(b + a) }
func pick0() func() {
	if sel > 1 {
		return f0
	}
	return h0
}
func pick1() func(string) {
	if sel > 1 {
		return f1
	}
	return h1
}
func pick2() func(string, string) {
	if sel > 1 {
		return f2
	}
	return h2
}
func pickI() I {
	if sel > 2 {
		return T{f: source()}
	}
	return U{}
}

func s_call_static_0() {
	x, y := source(), "y"
	_, _ = x, y
	gT, gU, gS, gV, gC = x, x, x, x, x
	f0()
}
func s_call_static_1() {
	x, y := source(), "y"
	_, _ = x, y
	gT, gU, gS, gV, gC = x, x, x, x, x
	f1(x)
}
func s_call_static_2() {
	x, y := source(), "y"
	_, _ = x, y
	gT, gU, gS, gV, gC = x, x, x, x, x
	f2(x, y)
}
func s_call_closure_0() {
	x, y := source(), "y"
	_, _ = x, y
	gT, gU, gS, gV, gC = x, x, x, x, x
	func() { sink(gC) }()
}
func s_call_closure_1() {
	x, y := source(), "y"
	_, _ = x, y
	gT, gU, gS, gV, gC = x, x, x, x, x
	func(a string) { sink(a) }(x)
}
func s_call_closure_2() {
	x, y := source(), "y"
	_, _ = x, y
	gT, gU, gS, gV, gC = x, x, x, x, x
	func(a, b string) { sink(a + b) }(x, y)
}
func s_call_closurecap_0() {
	x, y := source(), "y"
	_, _ = x, y
	gT, gU, gS, gV, gC = x, x, x, x, x
	z := x + "z"
	func() { sink(gC + z) }()
}
func s_call_closurecap_1() {
	x, y := source(), "y"
	_, _ = x, y
	gT, gU, gS, gV, gC = x, x, x, x, x
	z := x + "z"
	func(a string) { sink(a + z) }(x)
}
func s_call_closurecap_2() {
	x, y := source(), "y"
	_, _ = x, y
	gT, gU, gS, gV, gC = x, x, x, x, x
	z := x + "z"
	func(a, b string) { sink(a + b + z) }(x, y)
}
func s_call_method_0() {
	x, y := source(), "y"
	_, _ = x, y
	gT, gU, gS, gV, gC = x, x, x, x, x
	t := T{f: x}
	t.M0()
}
func s_call_method_1() {
	x, y := source(), "y"
	_, _ = x, y
	gT, gU, gS, gV, gC = x, x, x, x, x
	t := T{f: x}
	t.M1(x)
}
func s_call_method_2() {
	x, y := source(), "y"
	_, _ = x, y
	gT, gU, gS, gV, gC = x, x, x, x, x
	t := T{f: x}
	t.M2(x, y)
}
func s_call_bound_0() {
	x, y := source(), "y"
	_, _ = x, y
	gT, gU, gS, gV, gC = x, x, x, x, x
	t := T{f: x}
	m := t.M0
	m()
}
func s_call_bound_1() {
	x, y := source(), "y"
	_, _ = x, y
	gT, gU, gS, gV, gC = x, x, x, x, x
	t := T{f: x}
	m := t.M1
	m(x)
}
func s_call_bound_2() {
	x, y := source(), "y"
	_, _ = x, y
	gT, gU, gS, gV, gC = x, x, x, x, x
	t := T{f: x}
	m := t.M2
	m(x, y)
}
func s_call_invoke_0() {
	x, y := source(), "y"
	_, _ = x, y
	gT, gU, gS, gV, gC = x, x, x, x, x
	i := pickI()
	i.M0()
}
func s_call_invoke_1() {
	x, y := source(), "y"
	_, _ = x, y
	gT, gU, gS, gV, gC = x, x, x, x, x
	i := pickI()
	i.M1(x)
}
func s_call_invoke_2() {
	x, y := source(), "y"
	_, _ = x, y
	gT, gU, gS, gV, gC = x, x, x, x, x
	i := pickI()
	i.M2(x, y)
}
func s_call_value_0() {
	x, y := source(), "y"
	_, _ = x, y
	gT, gU, gS, gV, gC = x, x, x, x, x
	fv := pick0()
	fv()
}
func s_call_value_1() {
	x, y := source(), "y"
	_, _ = x, y
	gT, gU, gS, gV, gC = x, x, x, x, x
	fv := pick1()
	fv(x)
}
func s_call_value_2() {
	x, y := source(), "y"
	_, _ = x, y
	gT, gU, gS, gV, gC = x, x, x, x, x
	fv := pick2()
	fv(x, y)
}
func s_defer_static_0() {
	x, y := source(), "y"
	_, _ = x, y
	gT, gU, gS, gV, gC = x, x, x, x, x
	defer f0()
}
func s_defer_static_1() {
	x, y := source(), "y"
	_, _ = x, y
	gT, gU, gS, gV, gC = x, x, x, x, x
	defer f1(x)
}
func s_defer_static_2() {
	x, y := source(), "y"
	_, _ = x, y
	gT, gU, gS, gV, gC = x, x, x, x, x
	defer f2(x, y)
}
func s_defer_closure_0() {
	x, y := source(), "y"
	_, _ = x, y
	gT, gU, gS, gV, gC = x, x, x, x, x
	defer func() { sink(gC) }()
}
func s_defer_closure_1() {
	x, y := source(), "y"
	_, _ = x, y
	gT, gU, gS, gV, gC = x, x, x, x, x
	defer func(a string) { sink(a) }(x)
}
func s_defer_closure_2() {
	x, y := source(), "y"
	_, _ = x, y
	gT, gU, gS, gV, gC = x, x, x, x, x
	defer func(a, b string) { sink(a + b) }(x, y)
}
func s_defer_closurecap_0() {
	x, y := source(), "y"
	_, _ = x, y
	gT, gU, gS, gV, gC = x, x, x, x, x
	z := x + "z"
	defer func() { sink(gC + z) }()
}
func s_defer_closurecap_1() {
	x, y := source(), "y"
	_, _ = x, y
	gT, gU, gS, gV, gC = x, x, x, x, x
	z := x + "z"
	defer func(a string) { sink(a + z) }(x)
}
func s_defer_closurecap_2() {
	x, y := source(), "y"
	_, _ = x, y
	gT, gU, gS, gV, gC = x, x, x, x, x
	z := x + "z"
	defer func(a, b string) { sink(a + b + z) }(x, y)
}
func s_defer_method_0() {
	x, y := source(), "y"
	_, _ = x, y
	gT, gU, gS, gV, gC = x, x, x, x, x
	t := T{f: x}
	defer t.M0()
}
func s_defer_method_1() {
	x, y := source(), "y"
	_, _ = x, y
	gT, gU, gS, gV, gC = x, x, x, x, x
	t := T{f: x}
	defer t.M1(x)
}
func s_defer_method_2() {
	x, y := source(), "y"
	_, _ = x, y
	gT, gU, gS, gV, gC = x, x, x, x, x
	t := T{f: x}
	defer t.M2(x, y)
}
func s_defer_bound_0() {
	x, y := source(), "y"
	_, _ = x, y
	gT, gU, gS, gV, gC = x, x, x, x, x
	t := T{f: x}
	m := t.M0
	defer m()
}
func s_defer_bound_1() {
	x, y := source(), "y"
	_, _ = x, y
	gT, gU, gS, gV, gC = x, x, x, x, x
	t := T{f: x}
	m := t.M1
	defer m(x)
}
func s_defer_bound_2() {
	x, y := source(), "y"
	_, _ = x, y
	gT, gU, gS, gV, gC = x, x, x, x, x
	t := T{f: x}
	m := t.M2
	defer m(x, y)
}
func s_defer_invoke_0() {
	x, y := source(), "y"
	_, _ = x, y
	gT, gU, gS, gV, gC = x, x, x, x, x
	i := pickI()
	defer i.M0()
}
func s_defer_invoke_1() {
	x, y := source(), "y"
	_, _ = x, y
	gT, gU, gS, gV, gC = x, x, x, x, x
	i := pickI()
	defer i.M1(x)
}
func s_defer_invoke_2() {
	x, y := source(), "y"
	_, _ = x, y
	gT, gU, gS, gV, gC = x, x, x, x, x
	i := pickI()
	defer i.M2(x, y)
}
func s_defer_value_0() {
	x, y := source(), "y"
	_, _ = x, y
	gT, gU, gS, gV, gC = x, x, x, x, x
	fv := pick0()
	defer fv()
}
func s_defer_value_1() {
	x, y := source(), "y"
	_, _ = x, y
	gT, gU, gS, gV, gC = x, x, x, x, x
	fv := pick1()
	defer fv(x)
}
func s_defer_value_2() {
	x, y := source(), "y"
	_, _ = x, y
	gT, gU, gS, gV, gC = x, x, x, x, x
	fv := pick2()
	defer fv(x, y)
}
func s_go_static_0() {
	x, y := source(), "y"
	_, _ = x, y
	gT, gU, gS, gV, gC = x, x, x, x, x
	go f0()
}
func s_go_static_1() {
	x, y := source(), "y"
	_, _ = x, y
	gT, gU, gS, gV, gC = x, x, x, x, x
	go f1(x)
}
func s_go_static_2() {
	x, y := source(), "y"
	_, _ = x, y
	gT, gU, gS, gV, gC = x, x, x, x, x
	go f2(x, y)
}
func s_go_closure_0() {
	x, y := source(), "y"
	_, _ = x, y
	gT, gU, gS, gV, gC = x, x, x, x, x
	go func() { sink(gC) }()
}
func s_go_closure_1() {
	x, y := source(), "y"
	_, _ = x, y
	gT, gU, gS, gV, gC = x, x, x, x, x
	go func(a string) { sink(a) }(x)
}
func s_go_closure_2() {
	x, y := source(), "y"
	_, _ = x, y
	gT, gU, gS, gV, gC = x, x, x, x, x
	go func(a, b string) { sink(a + b) }(x, y)
}
func s_go_closurecap_0() {
	x, y := source(), "y"
	_, _ = x, y
	gT, gU, gS, gV, gC = x, x, x, x, x
	z := x + "z"
	go func() { sink(gC + z) }()
}
func s_go_closurecap_1() {
	x, y := source(), "y"
	_, _ = x, y
	gT, gU, gS, gV, gC = x, x, x, x, x
	z := x + "z"
	go func(a string) { sink(a + z) }(x)
}
func s_go_closurecap_2() {
	x, y := source(), "y"
	_, _ = x, y
	gT, gU, gS, gV, gC = x, x, x, x, x
	z := x + "z"
	go func(a, b string) { sink(a + b + z) }(x, y)
}
func s_go_method_0() {
	x, y := source(), "y"
	_, _ = x, y
	gT, gU, gS, gV, gC = x, x, x, x, x
	t := T{f: x}
	go t.M0()
}
func s_go_method_1() {
	x, y := source(), "y"
	_, _ = x, y
	gT, gU, gS, gV, gC = x, x, x, x, x
	t := T{f: x}
	go t.M1(x)
}
func s_go_method_2() {
	x, y := source(), "y"
	_, _ = x, y
	gT, gU, gS, gV, gC = x, x, x, x, x
	t := T{f: x}
	go t.M2(x, y)
}
func s_go_bound_0() {
	x, y := source(), "y"
	_, _ = x, y
	gT, gU, gS, gV, gC = x, x, x, x, x
	t := T{f: x}
	m := t.M0
	go m()
}
func s_go_bound_1() {
	x, y := source(), "y"
	_, _ = x, y
	gT, gU, gS, gV, gC = x, x, x, x, x
	t := T{f: x}
	m := t.M1
	go m(x)
}
func s_go_bound_2() {
	x, y := source(), "y"
	_, _ = x, y
	gT, gU, gS, gV, gC = x, x, x, x, x
	t := T{f: x}
	m := t.M2
	go m(x, y)
}
func s_go_invoke_0() {
	x, y := source(), "y"
	_, _ = x, y
	gT, gU, gS, gV, gC = x, x, x, x, x
	i := pickI()
	go i.M0()
}
func s_go_invoke_1() {
	x, y := source(), "y"
	_, _ = x, y
	gT, gU, gS, gV, gC = x, x, x, x, x
	i := pickI()
	go i.M1(x)
}
func s_go_invoke_2() {
	x, y := source(), "y"
	_, _ = x, y
	gT, gU, gS, gV, gC = x, x, x, x, x
	i := pickI()
	go i.M2(x, y)
}
func s_go_value_0() {
	x, y := source(), "y"
	_, _ = x, y
	gT, gU, gS, gV, gC = x, x, x, x, x
	fv := pick0()
	go fv()
}
func s_go_value_1() {
	x, y := source(), "y"
	_, _ = x, y
	gT, gU, gS, gV, gC = x, x, x, x, x
	fv := pick1()
	go fv(x)
}
func s_go_value_2() {
	x, y := source(), "y"
	_, _ = x, y
	gT, gU, gS, gV, gC = x, x, x, x, x
	fv := pick2()
	go fv(x, y)
}

// globals written in package initialisers, in init functions and in generic instances; closures created in init
var initX = source()
var initY = wrapInit(initX)

func wrapInit(a string) string { return a + "i" }

var initF func() string
var initG = mkClosure()

func mkClosure() func() string {
	v := source()
	return func() string { return v + initX }
}
func init() {
	w := source()
	initF = func() string { return w + initY }
	go func() { sink(initX) }()
	defer f0()
}

var gGen string

func setG[A any](a A) A {
	gGen = fmt.Sprint(a)
	return a
}
func getG[A any](d A) (string, A) { return gGen, d }
func useInit() {
	sink(initX)
	sink(initY)
	sink(initF())
	sink(initG())
	setG[string](source())
	setG[int](1)
	a, _ := getG[int](0)
	sink(a)
	b, c := getG[string]("d")
	sink(b + c)
}

func main() {
	sel = len(fmt.Sprint())
	s_call_static_0()
	s_call_static_1()
	s_call_static_2()
	s_call_closure_0()
	s_call_closure_1()
	s_call_closure_2()
	s_call_closurecap_0()
	s_call_closurecap_1()
	s_call_closurecap_2()
	s_call_method_0()
	s_call_method_1()
	s_call_method_2()
	s_call_bound_0()
	s_call_bound_1()
	s_call_bound_2()
	s_call_invoke_0()
	s_call_invoke_1()
	s_call_invoke_2()
	s_call_value_0()
	s_call_value_1()
	s_call_value_2()
	s_defer_static_0()
	s_defer_static_1()
	s_defer_static_2()
	s_defer_closure_0()
	s_defer_closure_1()
	s_defer_closure_2()
	s_defer_closurecap_0()
	s_defer_closurecap_1()
	s_defer_closurecap_2()
	s_defer_method_0()
	s_defer_method_1()
	s_defer_method_2()
	s_defer_bound_0()
	s_defer_bound_1()
	s_defer_bound_2()
	s_defer_invoke_0()
	s_defer_invoke_1()
	s_defer_invoke_2()
	s_defer_value_0()
	s_defer_value_1()
	s_defer_value_2()
	s_go_static_0()
	s_go_static_1()
	s_go_static_2()
	s_go_closure_0()
	s_go_closure_1()
	s_go_closure_2()
	s_go_closurecap_0()
	s_go_closurecap_1()
	s_go_closurecap_2()
	s_go_method_0()
	s_go_method_1()
	s_go_method_2()
	s_go_bound_0()
	s_go_bound_1()
	s_go_bound_2()
	s_go_invoke_0()
	s_go_invoke_1()
	s_go_invoke_2()
	s_go_value_0()
	s_go_value_1()
	s_go_value_2()
	useInit()
}
