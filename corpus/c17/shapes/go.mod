module shapes

go 1.22
