package main

import "fmt"

func source() string { return "secret" }
func sink(s string)  { fmt.Println(s) }
func id(s string) string { return s }

// p is read (sink) before it is overwritten with s
func F(s string, p *string) {
	sink(*p)
	*p = s
}

func main() {
	x := source()
	y := id(id(x))
	F(x, &y)
}
