package main

import "fmt"

func source1() string { return "tainted1" }
func source2() string { return "tainted2" }
func source3() string { return "tainted3" }
func source4() string { return "tainted4" }
func source5() string { return "tainted5" }
func sink1(x any)     { fmt.Println(x) }
func sink2(x any)     { fmt.Println(x) }
func sink3(x any)     { fmt.Println(x) }
func sink4(x any)     { fmt.Println(x) }
func sink5(x any)     { fmt.Println(x) }

// control: two results, taint in the second, plain use
func pairA() (int, any) { return 1, source1() }
func scen1() {
	_, b := pairA()
	sink1(b)
}

// extract-index-noncall-tuple: the second result goes through a comma-ok type assertion
func pairB() (int, any) { return 1, source2() }
func scen2() {
	_, b := pairB()
	x, ok := b.(string)
	if ok {
		sink2(x)
	}
}

// builtin-name-shadow: a user function called `close`
func close(x string) string { return x + "!" }
func scen3() {
	sink3(close(source3()))
}

// control for scen3: same function under another name
func shut(x string) string { return x + "!" }
func scen4() {
	sink4(shut(source4()))
}

// shadow through an unexported method named like a builtin
type F struct{ s string }

func (f *F) len() string { return f.s }
func scen5() {
	f := &F{s: source5()}
	sink5(f.len())
}

func main() {
	scen1()
	scen2()
	scen3()
	scen4()
	scen5()
}
