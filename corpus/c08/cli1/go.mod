module q1

go 1.22
