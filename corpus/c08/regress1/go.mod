module c08regress1

go 1.22
