package main

import "fmt"

type T struct{ A, B string }

func three(a string) (int, int, string) { return 1, 2, a }
func two(a string) (int, string)        { return 1, a }
func four(a, b string, c bool) (int, int, string, string) {
	if c {
		return 1, 2, a, b
	}
	return 3, 4, b, a
}
func mx(a, b, c int) int   { return max(a, b, c) }
func mn(a, b, c int) int   { return min(a, b, c) }
func mx2(a, b int) int     { return max(a, b) }
func conv(a string) []byte { return []byte(a + "x") }
func phi(a, b string, c bool) string {
	x := a
	if c {
		x = b
	}
	return x
}
func loop(a string, n int) string {
	s := ""
	for i := 0; i < n; i++ {
		s = s + a
	}
	return s
}
func pair() (string, any) { return "a", 1 }
func assertSecond() string {
	_, b := pair()
	x, ok := b.(string)
	if ok {
		return x
	}
	return ""
}
func clos(a string) func() string {
	return func() string { return a }
}
func callarg(a string) {
	fmt.Println(a[1:])
}
func field(t T) string                            { return t.A }
func idx(a []string, i int) string                { return a[i] }
func lookup(m map[string]string, k string) string { return m[k] }
func rng(m map[string]string) string {
	for k, v := range m {
		return k + v
	}
	return ""
}
func close(x string) string  { return x }
func shadow(a string) string { return close(a) }
func errs(e error) string    { return e.Error() }
func deferred(a string) {
	defer fmt.Println(a)
	fmt.Println("x")
}
func gofn(a string) {
	go two(a)
}

func anyv() any { return "a" }
func okOnly() bool {
	_, ok := anyv().(string)
	return ok
}
func recvSecond(c chan string) string {
	_, ch := pairCh(c)
	v, ok := <-ch
	if ok {
		return v
	}
	return ""
}
func pairCh(c chan string) (int, chan string) { return 1, c }
func mk(a string) func() string               { return func() string { return a } }
func mkUnused(a string)                       { mk(a) }
func deferMulti(p *T, c bool) {
	if c {
		return
	}
	defer fill(p)
	fmt.Println("work")
}
func fill(p *T) { p.A = "x" }

type F struct{ n int }

func (f *F) close() error { return fmt.Errorf("%d", f.n) }
func (f *F) Close() error { return f.close() }
func bind(a string) func() string {
	b := a + "!"
	return func() string { return b }
}

// invoke calls of interface methods named like builtins / Error WITH arguments: ordinary calls, must have call nodes
type Logger interface {
	Error(m string)
	Errorf(m string) string
	close(x string) string
	len(x string) int
	append(x string) string
}
type logT struct{ last string }

func (l *logT) Error(m string)         { l.last = m }
func (l *logT) Errorf(m string) string { return m }
func (l *logT) close(x string) string  { return x }
func (l *logT) len(x string) int       { return len(x) }
func (l *logT) append(x string) string { return l.last + x }
func logErr(r Logger, m string)        { r.Error(m + "!") }
func logAll(r Logger, m string) (string, int) {
	a := r.close(m + "a")
	b := r.len(m)
	c := r.append(a)
	return c + r.Errorf(m), b
}

func main() {
	lg := &logT{}
	logErr(lg, "x")
	fmt.Println(logAll(lg, "y"))

	fmt.Println(okOnly(), recvSecond(nil), bind("a")(), (&F{}).Close())
	mkUnused("a")
	deferMulti(&T{}, false)

	a, b, c := three("x")
	fmt.Println(a, b, c, mx(1, 2, 3), mn(1, 2, 3), mx2(1, 2), conv("a"), phi("a", "b", true), loop("a", 2))
	fmt.Println(assertSecond(), clos("a")(), field(T{}), idx(nil, 0), lookup(nil, ""), rng(nil), shadow("a"), errs(nil))
	callarg("abc")
	deferred("a")
	gofn("a")
	fmt.Println(four("a", "b", true))
	fmt.Println(two("a"))
}
