// Replay program of the C02 findings (see /verif/known_findings.txt, /verif/status/C02.md).
//
//	go run .                                  prints the sinks reached by the unvalidated marker
//	argot taint -config config.yaml .         (validators configured)    reports sink3 and sink4 (before /repo 28b75c7: sink4 only)
//	argot taint -config config_b.yaml .       (no validator spec)        reports sink1..sink4
//
// sink1, sink2: open finding validator-single-path; sink3: validator-dup-last-block, FIXED by /repo commit 28b75c7 (kept as a
// regression case: it must be reported); sink4: control (reported).
package main

import (
	"errors"
	"fmt"
	"strings"
)

const MARK = "@@MARK@@"

func source() string { return "a" + MARK + "b" }

// honest validator: accepts exactly the data that does not carry the marker
func Validate(x string) bool { return !strings.Contains(x, MARK) }

func ValidateErr(x string) error {
	if strings.Contains(x, MARK) {
		return errors.New("invalid")
	}
	return nil
}

func logit(x any) {}

func hit(k int, x any) {
	if strings.Contains(fmt.Sprint(x), MARK) {
		fmt.Println("LEAK: unvalidated source data reached sink", k)
	}
}

func sink1(x any) { hit(1, x) }
func sink2(x any) { hit(2, x) }
func sink3(x any) { hit(3, x) }
func sink4(x any) { hit(4, x) }

// diamond (Coq witness `diamond`, validator_drop_refuted): the one path found b0 -> else -> join takes the validated
// else-branch (err == nil); the then-branch bypasses the check.  (With a bool validator write the check so that the
// SSA condition is not a bare negation: go/ssa compiles `if !f(x) {A} else {B}` to `if f(x) goto B else A`.)
func diamond() {
	x := source()
	if err := ValidateErr(x); err != nil {
		logit(1)
	} else {
		logit(2)
	}
	sink1(x)
}

// triangle (Coq witness `triangle`; shape of testdata/validators example 7)
func triangle() {
	x := source()
	if err := ValidateErr(x); err != nil {
		logit(1)
	}
	sink2(x)
}

// do-while (Coq witness `dowhile`, found_path_validated_refuted): the sink runs BEFORE the check of its own block
func dowhile() {
	x := source()
	for {
		sink3(x)
		if !Validate(x) {
			break
		}
	}
}

// control: the check is on the wrong arm, reported
func control() {
	x := source()
	if Validate(x) {
		logit(1)
	} else {
		sink4(x)
	}
}

func main() {
	diamond()
	triangle()
	dowhile()
	control()
}
