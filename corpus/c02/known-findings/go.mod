module c02known

go 1.22
