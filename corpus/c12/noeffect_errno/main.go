// Regression case for C12: syscall.Close is in the vendored pointer analysis' no-effect intrinsics table although it is
// an ordinary Go function returning an error; its result gets an empty points-to set, so the interface call err.Error()
// below - which executes (syscall.Errno).Error - has no call-graph edge.
package main

import (
	"fmt"
	"syscall"
)

func cs(k int) {}

func main() {
	err := syscall.Close(-1)
	if err != nil {
		fmt.Printf("T %T\n", err)
		cs(1)
		s := err.Error()
		cs(-1)
		fmt.Println("S", s)
	}
}
