module noeffecterrno

go 1.22
