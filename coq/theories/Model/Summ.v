(** Model of the summary loader of ar-go-tools: analysis/dataflow/function_summary_graph.go
    [PopulateGraphFromSummary], [addParamEdgeByPos], [addReturnEdgeByPos], and of the part of [NewSummaryGraph] that
    decides which return nodes exist.  Executable definitions only; proofs are in Proofs/Summ.v.

    A table entry / contract is a [summary]: [Args] row i lists the parameter positions that parameter i flows to,
    [Rets] row i lists the result positions parameter i flows to (receiver = parameter 0 for methods).  Go [int]
    positions are modelled by [Z] (a literal may be negative); row indices come from [range] and are [nat]. *)
From Coq Require Import List ZArith Bool Arith String.
Import ListNotations.

Record summary := mk_summary { s_args : list (list Z); s_rets : list (list Z) }.

(** What the loader sees of the function the summary is attached to:
    - [nparams]  = len(g.Parent.Params) (receiver included);
    - [ret_lens] = the lengths of the tuples stored in the map g.Returns: NewSummaryGraph makes one tuple of
      Results().Len() return nodes per Return-terminated block, one dummy tuple when the function is external (no
      blocks), and none at all when the function has no result (addReturn returns early) or never returns.  All tuples
      share the same node objects, so the target of an edge only depends on the position. *)
Record sig := mk_sig { nparams : nat; ret_lens : list nat }.

(** Nodes of a pre-defined summary graph and its edges.  Positions of targets are kept in [Z] so that an edge that the
    table *writes* (possibly with a nonsensical position) and an edge the loader *creates* live in the same type. *)
Inductive edge :=
| EP (src : nat) (dst : Z)    (* parameter src -> parameter dst *)
| ER (src : nat) (pos : Z).   (* parameter src -> result pos *)

Definition edge_eqb (a b : edge) : bool :=
  match a, b with
  | EP i k, EP i' k' => Nat.eqb i i' && Z.eqb k k'
  | ER i j, ER i' j' => Nat.eqb i i' && Z.eqb j j'
  | _, _ => false
  end.

(** The two adjacency maps of the real graph (srcArg.out[dest], dest.in[src]). *)
Record graph := mk_graph { g_out : list edge; g_in : list edge }.
Definition empty_graph := mk_graph [] [].
Definition add_edge (g : graph) (e : edge) : graph := mk_graph (g_out g ++ [e]) (g_in g ++ [e]).
Definition edges (g : graph) : list edge := g_out g.

(** addParamEdgeByPos: [if src < 0 || src >= n || dest < 0 || dest >= n { return false }], no condition on types. *)
Definition param_in_range (sg : sig) (src : nat) (dest : Z) : bool :=
  (src <? nparams sg) && (0 <=? dest)%Z && (Z.to_nat dest <? nparams sg).

Definition add_param_edge_by_pos (sg : sig) (g : graph) (src : nat) (dest : Z) : graph * bool :=
  if param_in_range sg src dest then (add_edge g (EP src dest), true) else (g, false).

(** addReturnEdgeByPos: [if src < 0 || src >= len(Params) || pos < 0 { return false }]; then
    [for _, retNode := range g.Returns { if pos >= len(retNode) || retNode[pos] == nil { continue }; add; return true }]
    and [return false] when no tuple has the position. *)
Fixpoint ret_loop (tuples : list nat) (g : graph) (src : nat) (pos : Z) : graph * bool :=
  match tuples with
  | [] => (g, false)
  | len :: rest => if Z.to_nat pos <? len then (add_edge g (ER src pos), true) else ret_loop rest g src pos
  end.

Definition add_return_edge_by_pos (sg : sig) (g : graph) (src : nat) (pos : Z) : graph * bool :=
  if negb (src <? nparams sg) || (pos <? 0)%Z then (g, false) else ret_loop (ret_lens sg) g src pos.

(** PopulateGraphFromSummary: [for srcArg, destArgs := range summary.Args { for _, destArg := range destArgs {
    g.addParamEdgeByPos(srcArg, destArg) } }], then the same for Rets; the boolean results are discarded. *)
Fixpoint add_row (f : graph -> nat -> Z -> graph * bool) (g : graph) (src : nat) (row : list Z) : graph :=
  match row with
  | [] => g
  | d :: rest => add_row f (fst (f g src d)) src rest
  end.

Fixpoint add_rows (f : graph -> nat -> Z -> graph * bool) (g : graph) (src : nat) (rows : list (list Z)) : graph :=
  match rows with
  | [] => g
  | row :: rest => add_rows f (add_row f g src row) (S src) rest
  end.

Definition populate (s : summary) (sg : sig) (g : graph) : graph :=
  let g1 := add_rows (add_param_edge_by_pos sg) g 0 (s_args s) in
  add_rows (add_return_edge_by_pos sg) g1 0 (s_rets s).

(** NewPredefinedSummary = NewSummaryGraph (no edges) followed by PopulateGraphFromSummary. *)
Definition apply (s : summary) (sg : sig) : graph := populate s sg empty_graph.

(** The edges the table entry *writes*: what its author meant to be there. *)
Fixpoint row_edges (mk : nat -> Z -> edge) (src : nat) (rows : list (list Z)) : list edge :=
  match rows with
  | [] => []
  | row :: rest => map (mk src) row ++ row_edges mk (S src) rest
  end.

Definition written (s : summary) : list edge := row_edges EP 0 (s_args s) ++ row_edges ER 0 (s_rets s).

(** Can the loader create this edge for this function? *)
Definition ret_in_range (sg : sig) (src : nat) (pos : Z) : bool :=
  (src <? nparams sg) && (0 <=? pos)%Z && existsb (fun len => Z.to_nat pos <? len) (ret_lens sg).

Definition creatable (sg : sig) (e : edge) : bool :=
  match e with
  | EP i k => param_in_range sg i k
  | ER i j => ret_in_range sg i j
  end.

(** Signature conformance, stated on the table entry itself: every non-empty row belongs to an existing parameter and
    lists only existing parameter positions (Args) resp. positions of results for which a return node exists (Rets).
    Nothing else is required by the code (in particular no pointer-likeness of the target parameter). *)
Fixpoint rows_ok (np : nat) (p : Z -> bool) (src : nat) (rows : list (list Z)) : bool :=
  match rows with
  | [] => true
  | row :: rest => (match row with [] => true | _ => (src <? np) && forallb p row end) && rows_ok np p (S src) rest
  end.

Definition conforms (s : summary) (sg : sig) : bool :=
  rows_ok (nparams sg) (fun k => (0 <=? k)%Z && (Z.to_nat k <? nparams sg)) 0 (s_args s)
  && rows_ok (nparams sg) (fun j => (0 <=? j)%Z && existsb (fun len => Z.to_nat j <? len) (ret_lens sg)) 0 (s_rets s).

(** The stricter well-formedness a reader of summary.go expects (no rows beyond the parameters at all). *)
Definition conforms_strict (s : summary) (sg : sig) : bool :=
  conforms s sg && (List.length (s_args s) <=? nparams sg) && (List.length (s_rets s) <=? nparams sg).

(** Entries of the regenerated table (coq/gen/GenStd.v): the table entry, the signature of the function it names, the
    pointer-likeness of the parameters (informative) and - the T-dump - the edges of the graph the REAL
    dataflow.NewPredefinedSummary built for that function, read back from both adjacency maps. *)
Record std_entry := mk_std_entry { e_name : string; e_summary : summary; e_sig : sig; e_ptr : list bool;
                                   e_impl_out : list edge; e_impl_in : list edge }.

Definition subset_edges (a b : list edge) : bool := forallb (fun e => existsb (edge_eqb e) b) a.
Definition seteq_edges (a b : list edge) : bool := subset_edges a b && subset_edges b a.

(** model = implementation on one entry (as sets: Go's adjacency maps have no order) *)
Definition entry_matches_impl (e : std_entry) : bool :=
  let g := apply (e_summary e) (e_sig e) in
  seteq_edges (g_out g) (e_impl_out e) && seteq_edges (g_in g) (e_impl_in e).

Definition mem_string (x : string) (l : list string) : bool := existsb (String.eqb x) l.

Definition entry_ok (known : list string) (e : std_entry) : bool :=
  conforms (e_summary e) (e_sig e) || mem_string (e_name e) known.

Definition nonconforming_names (t : list std_entry) : list string :=
  map e_name (filter (fun e => negb (conforms (e_summary e) (e_sig e))) t).

(** Flow reading of a loaded graph, used by Model/Resolve.v: targets reachable in ONE step from parameter i. *)
Definition flows_to_ret (g : graph) (i j : nat) : bool := existsb (edge_eqb (ER i (Z.of_nat j))) (edges g).
Definition flows_to_param (g : graph) (i k : nat) : bool := existsb (edge_eqb (EP i (Z.of_nat k))) (edges g).
