(** * Model of analysis/backtrace/backtrace.go : [Visitor.visit], [addNext], [isBaseCase], [findTrace], [addTrace]  (C03)

    Executable, total, proof-free.  The model works on a *dumped linked inter-procedural graph* (what
    harness/cmd/c03dump prints after running the real analysis): summary graphs with their parameter / free variable /
    return / call-site / referring-closure tables, nodes with their kind, [In()] edges (one tuple index per source,
    as the Go map [in] keeps), [Out()] edges, call arguments, callee summaries, bound variables, closure summaries and
    the write locations of globals.  Everything the Go traversal looks at is a field here; Go map iteration orders are
    the orders of the lists (the driver permutes them, the theorems quantify over all graphs and hence all orders).

    Case-by-case counterpart of the Go [switch] in [visit]:
      the DFS stack, the [seen] set keyed by [VisitorNode.Key()] (node, call trace, closure trace, status kind),
      the mirrored context rules (push the call at Call -> Return and at Arg -> callee Param, pop at Arg -> In(),
      unwinding at Param with and without context), the closure trace, [prevEdgeInfos] and the tuple-index filter of
      [addNext], the lasso and depth stops, the base cases where a trace is recorded ([isBaseCase], and "nothing was
      pushed" for Arg / Call / FreeVar only), trace construction through [Prev] (= [v_path]).
    Go panics / nil dereferences are the distinct outcome [Crash]; the early [return err] of the Param case is
    [Abort]; running out of fuel is [OutOfFuel]. *)
From Coq Require Import List PArith NArith ZArith Bool FMapPositive.
Import ListNotations.

Definition nid := positive.
Definition gid := positive.

Inductive kind :=
| KParam | KFreeVar | KArg | KCall | KReturn | KClosure | KBoundVar | KBoundLabel | KGlobal | KSynth | KIf.

Definition kind_eqb (a b : kind) : bool :=
  match a, b with
  | KParam, KParam | KFreeVar, KFreeVar | KArg, KArg | KCall, KCall | KReturn, KReturn | KClosure, KClosure
  | KBoundVar, KBoundVar | KBoundLabel, KBoundLabel | KGlobal, KGlobal | KSynth, KSynth | KIf, KIf => true
  | _, _ => false
  end.

Record node := mkNode {
  n_kind : kind;
  n_graph : gid;                   (* Graph() *)
  n_idx : nat;                     (* Index(): parameter / argument / free variable / bound variable position,
                                      tuple index of a return value node *)
  n_parent : nid;                  (* ParentNode(): call of an argument, closure of a bound variable *)
  n_fa : bool;                     (* Arg: lang.IsNillableType(Type()); Global: IsWrite *)
  n_fb : bool;                     (* Arg: value has an entry in state.BoundingInfo *)
  n_sum : option gid;              (* Call: CalleeSummary; Closure: ClosureSummary; Global: the GlobalNode *)
  n_fn : N;                        (* Call: identity of Callee() (0 = nil) *)
  n_instr : N;                     (* Call: identity of CallSite() *)
  n_in : list (nid * Z);           (* In(): source, EdgeInfo.Index *)
  n_out : list (nid * list Z);     (* Out(): destination, EdgeInfo.Index of every edge info *)
  n_list : list nid                (* Call: Args(); Closure: BoundVars() *)
}.

Record sgraph := mkSGraph {
  g_constructed : bool;
  g_params : list (option nid);    (* Parent.Params[i] looked up in Params *)
  g_freevars : list (option nid);  (* Parent.FreeVars[i] looked up in FreeVars *)
  g_returns : list nid;            (* all nodes of Returns *)
  g_callsites : list nid;          (* Callsites *)
  g_refclosures : list nid         (* ReferringMakeClosures *)
}.

Record graph := mkGraph {
  nodes : PositiveMap.t node;
  graphs : PositiveMap.t sgraph;
  globals : PositiveMap.t (list nid)   (* GlobalNode -> WriteLocations *)
}.

Record config := mkConfig {
  on_demand : bool;                (* Config.SummarizeOnDemand *)
  max_depth : option nat;          (* Config.UnsafeMaxDepth when > 0 *)
  skip_bound_labels : bool;        (* SlicingSpec.SkipBoundLabels *)
  (* two repairs of known defects; [false] = the pinned code.  The theorems hold for every setting; the tie tries the
     pinned setting first. *)
  fix_tuple : bool;                (* prevEdgeInfos takes every Out() edge info of the source (all tuple indices) *)
  fix_ctrace : bool                (* the closure trace is used only when its top creates the closure being left *)
}.

Definition get_node (g : graph) (n : nid) : option node := PositiveMap.find n (nodes g).
Definition get_graph (g : graph) (i : gid) : option sgraph := PositiveMap.find i (graphs g).

(** ** Visitor nodes and keys *)

Record vnode := mkV {
  v_node : nid;
  v_trace : list nid;              (* call stack, top first ([NodeTree] path read from the leaf) *)
  v_ctrace : list nid;             (* closure stack, top first *)
  v_closure : bool;                (* Status.Kind = ClosureTracing *)
  v_path : list nid;               (* this node followed by the nodes of Prev, Prev.Prev, ... : what [findTrace] returns *)
  v_depth : nat
}.

Definition key := (nid * list nid * list nid * bool)%type.
Definition key_of (v : vnode) : key := (v_node v, v_trace v, v_ctrace v, v_closure v).

Fixpoint list_pos_eqb (a b : list positive) : bool :=
  match a, b with
  | [], [] => true
  | x :: a', y :: b' => Pos.eqb x y && list_pos_eqb a' b'
  | _, _ => false
  end.

Definition key_eqb (a b : key) : bool :=
  let '(n1, t1, c1, k1) := a in
  let '(n2, t2, c2, k2) := b in
  Pos.eqb n1 n2 && list_pos_eqb t1 t2 && list_pos_eqb c1 c2 && Bool.eqb k1 k2.

Definition seen_mem (k : key) (s : list key) : bool := existsb (key_eqb k) s.

Definition pos_mem (x : positive) (l : list positive) : bool := existsb (Pos.eqb x) l.

(** [GetLassoHandle() != nil]: the tree path has more than one node and the label of the last one (compared by
    [String()], which contains the unique node id) occurs strictly above it. *)
Definition lasso (t : list nid) : bool :=
  match t with
  | [] => false
  | x :: rest => pos_mem x rest
  end.

(** [Config.ExceedsMaxDepth] *)
Definition exceeds (c : config) (d : nat) : bool :=
  match max_depth c with
  | None => false
  | Some m => Nat.ltb m d
  end.

(** Prev of a visitor node, read off its path *)
Definition prev_of (v : vnode) : option nid :=
  match v_path v with
  | _ :: p :: _ => Some p
  | _ => None
  end.

(** ** Traversal state *)

Inductive crash :=
| CrNoNode        (* a node id that is not in the graph (ill-formed dump) *)
| CrNilPrev       (* cur.Prev dereferenced while nil *)
| CrIndex         (* index out of range / "no arg at call site" panic / nil param *)
| CrNilCallee     (* "nil callee" / callee summary nil *)
| CrNoBoundVars   (* "no bound vars" / "no bound variable matching free variable" / no referring closure *)
| CrUnhandled.    (* "unhandled graph node type" *)

Record state := mkSt {
  stack : list vnode;                       (* top first *)
  seen : list key;
  pei : PositiveMap.t (list Z);             (* prevEdgeInfos: Arg -> tuple indices *)
  traces : list (list nid);                 (* recorded traces (origin first ... entry last), newest first *)
  silent : list (list nid);                 (* paths of DFS leaves that recorded nothing *)
  visited : list vnode;                     (* expanded visitor nodes, newest first *)
  err : option crash;
  n_adds : N                                (* number of nodes added so far (= length of [seen]); oracle argument *)
}.

Definition pei_get (m : PositiveMap.t (list Z)) (a : nid) : option (list Z) := PositiveMap.find a m.
Definition pei_add (m : PositiveMap.t (list Z)) (a : nid) (i : Z) : PositiveMap.t (list Z) :=
  match PositiveMap.find a m with
  | None => PositiveMap.add a [i] m
  | Some l => PositiveMap.add a (l ++ [i]) m
  end.

Definition set_err (s : state) (c : crash) : state :=
  mkSt (stack s) (seen s) (pei s) (traces s) (silent s) (visited s) (Some c) (n_adds s).

(** [addTrace]: identical traces are recorded once. *)
Definition trace_mem (t : list nid) (l : list (list nid)) : bool := existsb (list_pos_eqb t) l.
Definition add_trace (s : state) (t : list nid) : state :=
  if trace_mem t (traces s) then s
  else mkSt (stack s) (seen s) (pei s) (t :: traces s) (silent s) (visited s) (err s) (n_adds s).
Definition add_silent (s : state) (t : list nid) : state :=
  mkSt (stack s) (seen s) (pei s) (traces s) (t :: silent s) (visited s) (err s) (n_adds s).

(** A candidate successor as handed to [addNext]. *)
Record cand := mkC {
  c_node : nid;
  c_trace : list nid;
  c_ctrace : list nid;
  c_closure : bool;
  c_info : Z;                      (* the edgeInfo argument of addNext (its Index) *)
  c_pei : list Z                   (* Arg case: when added, append these indices to prevEdgeInfos[cur] *)
}.

Definition is_kind (g : graph) (n : nid) (k : kind) : bool :=
  match get_node g n with
  | Some x => kind_eqb (n_kind x) k
  | None => false
  end.

(** [addNext], decision part: crash ([cur.Prev] is nil and the next node is a return value), rejected (tuple-index
    filter, already seen, depth limit, lasso), or accepted. *)
Inductive verdict := VCrash | VNo | VYes.

Definition next_of (cur : vnode) (c : cand) : vnode :=
  mkV (c_node c) (c_trace c) (c_ctrace c) (c_closure c) (c_node c :: v_path cur) (S (v_depth cur)).

Definition tuple_filter (g : graph) (cur : vnode) (c : cand) (p : PositiveMap.t (list Z)) : option bool :=
  if is_kind g (c_node c) KReturn then
    match prev_of cur with
    | None => None                                   (* cur.Prev.Node with cur.Prev == nil *)
    | Some pv =>
        if is_kind g pv KArg then
          match pei_get p pv, get_node g (c_node c) with
          | Some _, Some r => Some (negb (Z.eqb (Z.of_nat (n_idx r)) (c_info c)))
          | _, _ => Some false
          end
        else Some false
    end
  else Some false.

Definition addable (g : graph) (cfg : config) (cur : vnode) (c : cand) (s : state) : verdict :=
  match tuple_filter g cur c (pei s) with
  | None => VCrash
  | Some true => VNo
  | Some false =>
      if seen_mem (key_of (next_of cur c)) (seen s) || exceeds cfg (v_depth cur) then VNo
      else if lasso (c_trace c) || lasso (c_ctrace c) then VNo
      else VYes
  end.

(** [addNext]. Returns the new state and whether the node was added. *)
Definition add_next (g : graph) (cfg : config) (cur : vnode) (c : cand) (s : state) : state * bool :=
  match addable g cfg cur c s with
  | VCrash => (set_err s CrNilPrev, false)
  | VNo => (s, false)
  | VYes =>
      let next := next_of cur c in
      let p := fold_left (fun m i => pei_add m (v_node cur) i) (c_pei c) (pei s) in
      (mkSt (next :: stack s) (key_of next :: seen s) p (traces s) (silent s) (visited s) (err s)
            (N.succ (n_adds s)), true)
  end.

(** all candidates in order; counts how many were added; stops at the first crash *)
Fixpoint add_all (g : graph) (cfg : config) (cur : vnode) (cs : list cand) (s : state) (added : nat) : state * nat :=
  match cs with
  | [] => (s, added)
  | c :: cs' =>
      let '(s', b) := add_next g cfg cur c s in
      match err s' with
      | Some _ => (s', added)
      | None => add_all g cfg cur cs' s' (if b then S added else added)
      end
  end.

(** Go map iteration order: the candidates of one expansion are tried in an order chosen by an oracle.  The oracle
    sees the number of nodes added so far and, for every candidate in model order, its node and whether it would be
    added in the current state; it answers with one rank per candidate.  Candidates are stably sorted by rank, so
    whatever the oracle answers the order tried is a permutation of the candidates. *)
Fixpoint rinsert (x : N * cand) (l : list (N * cand)) : list (N * cand) :=
  match l with
  | [] => [x]
  | y :: l' => if N.leb (fst x) (fst y) then x :: l else y :: rinsert x l'
  end.

Fixpoint with_ranks (cs : list cand) (rs : list N) : list (N * cand) :=
  match cs with
  | [] => []
  | c :: cs' =>
      match rs with
      | [] => (0%N, c) :: with_ranks cs' []
      | r :: rs' => (r, c) :: with_ranks cs' rs'
      end
  end.

Definition sort_by_rank (cs : list cand) (rs : list N) : list cand :=
  map snd (fold_right rinsert [] (with_ranks cs rs)).

(** ** Candidates of each case of the switch

    The switch reads of the current visitor node only its key (node, call trace, closure trace, status kind) and a
    few facts about [cur.Prev] — collected in a [pclass] so that "what the expansion depends on" is explicit. *)

Definition k_node (k : key) : nid := let '(n, _, _, _) := k in n.
Definition k_trace (k : key) : list nid := let '(_, t, _, _) := k in t.
Definition k_ctrace (k : key) : list nid := let '(_, _, c, _) := k in c.
Definition k_closure (k : key) : bool := let '(_, _, _, b) := k in b.

(** what the switch reads from [cur.Prev]: [None] when Prev is nil, otherwise
    (Prev's graph is the graph of the current node, Prev is a bound label or bound variable, Prev is a parameter,
     Prev itself when it is a call argument) *)
Definition pclass := option (bool * bool * bool * option nid).

Definition graph_of (g : graph) (n : nid) : option gid :=
  match get_node g n with
  | Some x => Some (n_graph x)
  | None => None
  end.

Definition same_graph (g : graph) (n : nid) (i : gid) : bool :=
  match graph_of g n with
  | Some j => Pos.eqb i j
  | None => false
  end.

Definition class_of (g : graph) (x : node) (prev : option nid) : pclass :=
  match prev with
  | None => None
  | Some p => Some (same_graph g p (n_graph x),
                    is_kind g p KBoundLabel || is_kind g p KBoundVar,
                    is_kind g p KParam,
                    if is_kind g p KArg then Some p else None)
  end.

Inductive expansion :=
| XCrash (c : crash)
| XAbort                           (* visit returns an error: the traversal of this entry stops *)
| XSkip                            (* nothing is pushed and nothing may be recorded ([break] / [continue]) *)
| XBase                            (* isBaseCase: record the trace *)
| XCands (cs : list cand) (report_if_none : bool).

Definition plain (k : key) (tr : list nid) (n : nid) : cand :=
  mkC n tr (k_ctrace k) (k_closure k) 0%Z [].

Definition in_cands (k : key) (x : node) : list cand :=
  map (fun e => plain k (k_trace k) (fst e)) (n_in x).

(** [UnwindCallstackFromCallee] *)
Definition unwind (g : graph) (callsites : list nid) (trace : list nid) : option nid :=
  match trace with
  | [] => None
  | lbl :: _ =>
      match get_node g lbl with
      | None => None
      | Some l =>
          find (fun x => match get_node g x with
                         | Some xn => N.eqb (n_instr xn) (n_instr l) && N.eqb (n_fn xn) (n_fn l)
                         | None => false
                         end) callsites
      end
  end.

(** [isBaseCase] *)
Definition is_base_case (g : graph) (cfg : config) (x : node) : bool :=
  let has_in := match n_in x with [] => false | _ => true end in
  match n_kind x with
  | KGlobal =>
      let can_inter :=
        if on_demand cfg && negb (n_fa x) then true
        else if n_fa x then has_in
        else match n_sum x with
             | Some gl => match PositiveMap.find gl (globals g) with
                          | Some (_ :: _) => true
                          | _ => false
                          end
             | None => false
             end in
      negb has_in && negb can_inter
  | KArg => false
  | KParam | KCall | KClosure | KBoundVar | KFreeVar => false
  | _ => negb has_in
  end.

(** argument [idx] of every call site of the list; [None] when some call site has no such argument *)
Fixpoint args_at (g : graph) (k : key) (idx : nat) (l : list nid) : option (list cand) :=
  match l with
  | [] => Some []
  | cs :: l' =>
      match get_node g cs with
      | None => None
      | Some csn =>
          match nth_error (n_list csn) idx, args_at g k idx l' with
          | Some a, Some r => Some (plain k (k_trace k) a :: r)
          | _, _ => None
          end
      end
  end.

Definition expand_param (g : graph) (k : key) (pc : pclass) (x : node) : expansion :=
  match pc with
  | None => XCrash CrNilPrev
  | Some (same, from_bound, _, _) =>
      let intra := if same then [] else in_cands k x in
      match get_graph g (n_graph x) with
      | None => XCrash CrNoNode
      | Some sg =>
          let ctx := if from_bound then None else unwind g (g_callsites sg) (k_trace k) in
          match ctx with
          | Some cs =>
              match get_node g cs with
              | None => XCrash CrNoNode
              | Some csn =>
                  match nth_error (n_list csn) (n_idx x) with
                  | None => XAbort             (* after the intra candidates were pushed; nothing else happens *)
                  | Some a => XCands (intra ++ [plain k (k_trace k) a]) false
                  end
              end
          | None =>
              (* no context: every call site *)
              match args_at g k (n_idx x) (g_callsites sg) with
              | None => XCrash CrIndex
              | Some r => XCands (intra ++ r) false
              end
          end
      end
  end.

(** the indices recorded in prevEdgeInfos when the In() source [e] of argument [a] is added: the index of the In()
    edge; with the tuple repair, every index of the source's Out() edge to the argument *)
Definition in_infos (g : graph) (cfg : config) (a : nid) (e : nid * Z) : list Z :=
  if fix_tuple cfg then
    match get_node g (fst e) with
    | Some sx =>
        match find (fun o => Pos.eqb (fst o) a) (n_out sx) with
        | Some (_, (_ :: _) as l) => l
        | _ => [snd e]
        end
    | None => [snd e]
    end
  else [snd e].

Definition expand_arg (g : graph) (cfg : config) (k : key) (pc : pclass) (x : node) : expansion :=
  match get_node g (n_parent x) with
  | None => XCrash CrNoNode
  | Some cs =>
      (* nillable argument: into the callee's parameter *)
      let to_param : option (option (list cand)) :=      (* None = break; Some None = crash *)
        if n_fa x then
          let usable :=
            match n_sum cs with
            | None => if on_demand cfg then Some None else None
            | Some sgid =>
                match get_graph g sgid with
                | None => Some None
                | Some sg =>
                    if negb (g_constructed sg) && negb (on_demand cfg) then None
                    else Some (Some sg)
                end
            end in
          match usable with
          | None => None
          | Some None => Some None
          | Some (Some sg) =>
              match nth_error (g_params sg) (n_idx x) with
              | Some (Some p) =>
                  Some (Some [mkC p (n_parent x :: k_trace k) (k_ctrace k) (k_closure k) 0%Z []])
              | _ => Some None
              end
          end
        else Some (Some []) in
      match to_param with
      | None => XSkip
      | Some None => XCrash CrIndex
      | Some (Some pcands) =>
          let bound :=
            if n_fb x then
              flat_map (fun e => map (fun i => mkC (fst e) (k_trace k) (k_ctrace k) (k_closure k) 0%Z [i])
                                     (snd e)) (n_out x)
            else [] in
          let tr := tl (k_trace k) in
          let follow_in :=
            match pc with
            | None => true
            | Some (same, _, is_param, _) => negb same || (is_param && same)
            end in
          let ins :=
            if follow_in then
              map (fun e => mkC (fst e) tr (k_ctrace k) (k_closure k) 0%Z (in_infos g cfg (k_node k) e)) (n_in x)
            else [] in
          XCands (pcands ++ bound ++ ins) true
      end
  end.

Definition expand_call (g : graph) (k : key) (pc : pclass) (x : node) (p : PositiveMap.t (list Z)) : expansion :=
  if N.eqb (n_fn x) 0 then XCrash CrNilCallee
  else
    match n_sum x with
    | None => XCrash CrNilCallee
    | Some sgid =>
        match get_graph g sgid with
        | None => XCrash CrNoNode
        | Some sg =>
            let prev_edges :=
              match pc with
              | Some (_, _, _, Some a) => match pei_get p a with Some l => l | None => [] end
              | _ => []
              end in
            let tr := k_node k :: k_trace k in
            let rets :=
              flat_map (fun r =>
                          match prev_edges with
                          | [] => [mkC r tr (k_ctrace k) (k_closure k) 0%Z []]
                          | _ => map (fun i => mkC r tr (k_ctrace k) (k_closure k) i []) prev_edges
                          end) (g_returns sg) in
            XCands (rets ++ in_cands k x) true
        end
    end.

Definition expand_global (g : graph) (k : key) (x : node) : expansion :=
  if n_fa x then XCands (in_cands k x) false
  else
    let ws := match n_sum x with
              | Some gl => match PositiveMap.find gl (globals g) with Some l => l | None => [] end
              | None => []
              end in
    XCands (map (fun w => plain k [] w) ws) false.

Definition expand_boundvar (g : graph) (k : key) (x : node) : expansion :=
  match get_node g (n_parent x) with
  | None => XCrash CrNoNode
  | Some cl =>
      match n_sum cl with
      | None => XCrash CrNilCallee
      | Some sgid =>
          match get_graph g sgid with
          | None => XCrash CrNoNode
          | Some sg =>
              match nth_error (g_freevars sg) (n_idx x) with
              | Some (Some fv) =>
                  XCands (in_cands k x ++
                          [mkC fv (k_trace k) (n_parent x :: k_ctrace k) (k_closure k) 0%Z []]) false
              | _ => XCrash CrIndex
              end
          end
      end
  end.

(** bound variable [idx] of every closure node of the list; [None] when some closure has no such variable *)
Fixpoint bvs_at (g : graph) (k : key) (idx : nat) (l : list nid) : option (list cand) :=
  match l with
  | [] => Some []
  | mc :: l' =>
      match get_node g mc with
      | None => None
      | Some cl =>
          match nth_error (n_list cl) idx, bvs_at g k idx l' with
          | Some bv, Some r => Some (mkC bv (k_trace k) [] (k_closure k) 0%Z [] :: r)
          | _, _ => None
          end
      end
  end.

(** the closure trace entry used to leave a closure: its top; with the repair only when that closure node creates
    the closure the free variable belongs to *)
Definition opos_eqb (a b : option positive) : bool :=
  match a, b with
  | Some x, Some y => Pos.eqb x y
  | None, None => true
  | _, _ => false
  end.

Definition ctrace_top (g : graph) (cfg : config) (k : key) (x : node) : option (nid * list nid) :=
  match k_ctrace k with
  | [] => None
  | c :: crest =>
      if fix_ctrace cfg then
        match get_node g c with
        | Some cl => if opos_eqb (n_sum cl) (Some (n_graph x)) then Some (c, crest) else None
        | None => Some (c, crest)
        end
      else Some (c, crest)
  end.

Definition expand_freevar (g : graph) (cfg : config) (k : key) (pc : pclass) (x : node) : expansion :=
  match pc with
  | None => XCrash CrNilPrev
  | Some (same, _, _, _) =>
      if negb same then XCands (in_cands k x) true
      else
        match ctrace_top g cfg k x with
        | Some (c, crest) =>
            match get_node g c with
            | None => XCrash CrNoNode
            | Some cl =>
                match n_list cl with
                | [] => XCrash CrNoBoundVars
                | _ =>
                    match nth_error (n_list cl) (n_idx x) with
                    | Some bv => XCands [mkC bv [] crest true 0%Z []] true
                    | None => XCrash CrNoBoundVars
                    end
                end
            end
        | None =>
            match get_graph g (n_graph x) with
            | None => XCrash CrNoNode
            | Some sg =>
                match g_refclosures sg with
                | [] => XCrash CrNoBoundVars
                | _ =>
                    match bvs_at g k (n_idx x) (g_refclosures sg) with
                    | None => XCrash CrNoBoundVars
                    | Some r => XCands r true
                    end
                end
            end
        end
  end.

(** The body of the loop for one popped visitor node, up to the calls of addNext: a function of the key of the
    node, of [prev] (only through [class_of]) and of prevEdgeInfos (Call case only). *)
Definition expand_k (g : graph) (cfg : config) (k : key) (prev : option nid) (p : PositiveMap.t (list Z)) : expansion :=
  match get_node g (k_node k) with
  | None => XCrash CrNoNode
  | Some x =>
      match get_graph g (n_graph x) with
      | None => XCrash CrNoNode
      | Some sg =>
          if negb (g_constructed sg) && negb (on_demand cfg) then XSkip
          else if is_base_case g cfg x then XBase
          else
            let pc := class_of g x prev in
            match n_kind x with
            | KParam => expand_param g k pc x
            | KArg => expand_arg g cfg k pc x
            | KReturn => XCands (in_cands k x) false
            | KCall => expand_call g k pc x p
            | KSynth => XCands (in_cands k x) false
            | KGlobal => expand_global g k x
            | KBoundVar => expand_boundvar g k x
            | KFreeVar => expand_freevar g cfg k pc x
            | KClosure => XCands (map (fun b => plain k (k_trace k) b) (n_list x)) false
            | KBoundLabel => if skip_bound_labels cfg then XCands [] false else XCands (in_cands k x) false
            | KIf => XCrash CrUnhandled
            end
      end
  end.

Definition expand (g : graph) (cfg : config) (cur : vnode) (s : state) : expansion :=
  expand_k g cfg (key_of cur) (prev_of cur) (pei s).

Inductive outcome := Done | Aborted | Crashed (c : crash) | OutOfFuel.

Definition visit_one (s : state) (cur : vnode) : state :=
  mkSt (stack s) (seen s) (pei s) (traces s) (silent s) (cur :: visited s) (err s) (n_adds s).

Definition oracle := N -> list (nid * bool) -> list N.

Definition no_oracle : oracle := fun _ _ => [].     (* all ranks 0: the order of the lists of the graph *)

Section Oracle.
Variable rank : oracle.

Definition ordered (g : graph) (cfg : config) (cur : vnode) (cs : list cand) (s : state) : list cand :=
  let flags := map (fun c => (c_node c, match addable g cfg cur c s with VYes => true | _ => false end)) cs in
  sort_by_rank cs (rank (n_adds s) flags).

(** One iteration of [for len(stack) != 0]; [None] = the loop goes on. *)
Definition step (g : graph) (cfg : config) (s : state) : state * option outcome :=
  match stack s with
  | [] => (s, Some Done)
  | cur :: rest =>
      let s0 := visit_one (mkSt rest (seen s) (pei s) (traces s) (silent s) (visited s) (err s) (n_adds s)) cur in
      match expand g cfg cur s0 with
      | XCrash c => (set_err s0 c, Some (Crashed c))
      | XAbort => (add_silent s0 (v_path cur), Some Aborted)
      | XSkip => (add_silent s0 (v_path cur), None)
      | XBase => (add_trace s0 (v_path cur), None)
      | XCands cs rep =>
          let '(s1, added) := add_all g cfg cur (ordered g cfg cur cs s0) s0 0 in
          match err s1 with
          | Some c => (s1, Some (Crashed c))
          | None =>
              match added with
              | O => if rep then (add_trace s1 (v_path cur), None) else (add_silent s1 (v_path cur), None)
              | S _ => (s1, None)
              end
          end
      end
  end.

Fixpoint loop (g : graph) (cfg : config) (fuel : nat) (s : state) : state * outcome :=
  match fuel with
  | O => (s, OutOfFuel)
  | S f =>
      match step g cfg s with
      | (s', Some o) => (s', o)
      | (s', None) => loop g cfg f s'
      end
  end.

Definition root (entry : nid) : vnode := mkV entry [] [] false [entry] 0.

Definition init_state (entry : nid) (p : PositiveMap.t (list Z)) : state :=
  mkSt [root entry] [] p [] [] [] None 0%N.

(** [visit] for one entry argument, starting from the given prevEdgeInfos. *)
Definition back (g : graph) (cfg : config) (fuel : nat) (p : PositiveMap.t (list Z)) (entry : nid)
  : state * outcome :=
  loop g cfg fuel (init_state entry p).

End Oracle.

(** [Visit] over the arguments of the entry calls, threading prevEdgeInfos; one result per argument
    (list orders of the graph, no oracle). *)
Fixpoint back_all (g : graph) (cfg : config) (fuel : nat) (p : PositiveMap.t (list Z)) (entries : list nid)
  : list (nid * state * outcome) :=
  match entries with
  | [] => []
  | e :: es =>
      let '(s, o) := back no_oracle g cfg fuel p e in
      (e, s, o) :: back_all g cfg fuel (pei s) es
  end.

(** ** The ideal successors of a visitor node and the closure check of a run

    [ideal_cands]: what the switch would hand to addNext with tuple-index filtering switched off (empty
    prevEdgeInfos: every return value of the callee is followed) and without the seen / depth stops; only the lasso
    stop (no recursion unrolling) remains.  [closed_runb] checks, on a finished run, that for every expanded visitor
    node and every ideal candidate some expanded visitor node has the same key and the same Prev class — i.e. the
    set of expanded nodes is closed under the ideal successor relation.  It is evaluated on every real run by the
    driver; its failures are the candidates for a missed flow. *)
Definition empty_pei : PositiveMap.t (list Z) := PositiveMap.empty (list Z).

Definition static_ok (c : cand) : bool := negb (lasso (c_trace c) || lasso (c_ctrace c)).

Definition ideal_cands (g : graph) (cfg : config) (v : vnode) : list cand :=
  match expand_k g cfg (key_of v) (prev_of v) empty_pei with
  | XCands cs _ => filter static_ok cs
  | _ => []
  end.

Definition vclass (g : graph) (v : vnode) : option pclass :=
  match get_node g (v_node v) with
  | Some x => Some (class_of g x (prev_of v))
  | None => None
  end.

Definition pclass_eqb (a b : pclass) : bool :=
  match a, b with
  | None, None => true
  | Some (a1, a2, a3, a4), Some (b1, b2, b3, b4) =>
      Bool.eqb a1 b1 && Bool.eqb a2 b2 && Bool.eqb a3 b3 && opos_eqb a4 b4
  | _, _ => false
  end.

Definition oclass_eqb (a b : option pclass) : bool :=
  match a, b with
  | None, None => true
  | Some x, Some y => pclass_eqb x y
  | _, _ => false
  end.

Definition same_kc (g : graph) (a b : vnode) : bool :=
  key_eqb (key_of a) (key_of b) && oclass_eqb (vclass g a) (vclass g b).

Definition covered (g : graph) (s : state) (v : vnode) (c : cand) : bool :=
  existsb (same_kc g (next_of v c)) (visited s).

Definition closed_runb (g : graph) (cfg : config) (s : state) : bool :=
  forallb (fun v => forallb (covered g s v) (ideal_cands g cfg v)) (visited s).

(** the failures of [closed_runb], for reporting: (expanded node, ideal successor not expanded with that class) *)
Definition run_gaps (g : graph) (cfg : config) (s : state) : list (vnode * cand) :=
  flat_map (fun v => map (pair v) (filter (fun c => negb (covered g s v c)) (ideal_cands g cfg v))) (visited s).

(** ** The verified trace checker's step relation (executable) *)

(** [bstepb g a b]: [b] is a backward dataflow predecessor of [a] in the linked graph — an [In()] source, or one of
    the inter-procedural links the traversal is allowed to follow (parameter to a call-site argument, nillable
    argument into the callee's parameter, bound argument to its [Out()] targets, call to the callee's return values,
    global read to a write location, bound variable to the closure's free variable, free variable to the bound
    variable of a closure node creating this closure, closure to its bound variables). *)
Definition in_srcs (x : node) : list nid := map fst (n_in x).

Definition bstepb (g : graph) (a b : nid) : bool :=
  match get_node g a with
  | None => false
  | Some x =>
      pos_mem b (in_srcs x) ||
      match n_kind x with
      | KParam =>
          match get_graph g (n_graph x) with
          | Some sg => existsb (fun cs => match get_node g cs with
                                          | Some csn => match nth_error (n_list csn) (n_idx x) with
                                                        | Some a' => Pos.eqb a' b
                                                        | None => false
                                                        end
                                          | None => false
                                          end) (g_callsites sg)
          | None => false
          end
      | KArg =>
          pos_mem b (map fst (n_out x)) ||
          match get_node g (n_parent x) with
          | Some cs => match n_sum cs with
                       | Some sgid => match get_graph g sgid with
                                      | Some sg => match nth_error (g_params sg) (n_idx x) with
                                                   | Some (Some p) => Pos.eqb p b
                                                   | _ => false
                                                   end
                                      | None => false
                                      end
                       | None => false
                       end
          | None => false
          end
      | KCall =>
          match n_sum x with
          | Some sgid => match get_graph g sgid with
                         | Some sg => pos_mem b (g_returns sg)
                         | None => false
                         end
          | None => false
          end
      | KGlobal =>
          negb (n_fa x) &&
          match n_sum x with
          | Some gl => match PositiveMap.find gl (globals g) with Some l => pos_mem b l | None => false end
          | None => false
          end
      | KBoundVar =>
          match get_node g (n_parent x) with
          | Some cl => match n_sum cl with
                       | Some sgid => match get_graph g sgid with
                                      | Some sg => match nth_error (g_freevars sg) (n_idx x) with
                                                   | Some (Some fv) => Pos.eqb fv b
                                                   | _ => false
                                                   end
                                      | None => false
                                      end
                       | None => false
                       end
          | None => false
          end
      | KFreeVar =>
          (* b is the bound variable at the same position of some closure node of the graph *)
          existsb (fun e => match nth_error (n_list (snd e)) (n_idx x) with
                            | Some bv => Pos.eqb bv b
                            | None => false
                            end) (PositiveMap.elements (nodes g))
      | KClosure => pos_mem b (n_list x)
      | _ => false
      end
  end.

(** strict variant of the free-variable link: the closure node must create *this* closure *)
Definition fv_strictb (g : graph) (a b : nid) : bool :=
  match get_node g a, get_node g b with
  | Some x, Some y =>
      if kind_eqb (n_kind x) KFreeVar && kind_eqb (n_kind y) KBoundVar && negb (pos_mem b (in_srcs x)) then
        match get_node g (n_parent y) with
        | Some cl => match n_sum cl with
                     | Some sgid => Pos.eqb sgid (n_graph x)
                     | None => false
                     end
        | None => false
        end
      else true
  | _, _ => true
  end.

(** a trace in the order of [backtrace.Trace] (origin first, entry argument last): every node is a backward
    predecessor of the next one *)
Fixpoint chainb (g : graph) (t : list nid) : bool :=
  match t with
  | b :: ((a :: _) as rest) => bstepb g a b && chainb g rest
  | _ => true
  end.

Fixpoint chain_strictb (g : graph) (t : list nid) : bool :=
  match t with
  | b :: ((a :: _) as rest) => fv_strictb g a b && chain_strictb g rest
  | _ => true
  end.

Definition last_is (t : list nid) (e : nid) : bool :=
  match rev t with
  | x :: _ => Pos.eqb x e
  | [] => false
  end.

(** the T-cert checker run on the real traces *)
Definition trace_wfb (g : graph) (entry : nid) (t : list nid) : bool := last_is t entry && chainb g t.
