(** * The analyzer's concurrency skeleton as a static access matrix  (C20)

    Executable, proof-free.  Hand-written from (line numbers of the pinned tree):
    - analysis/dataflow/state.go        NewInitializedAnalyzerState / NewAnalyzerState (parallel steps 186-197,
                                         AddError/CheckError 259-288, ReachableFunctions 393-414, linkContracts 534)
    - analysis/analyzers.go             RunIntraProceduralPass / runJobs (MapParallel) / collectResults
    - internal/funcutil/collections.go  MapParallel (the channel hand-offs are the happens-before edges worker -> main)
    - analysis/dataflow/inter_procedural.go   BuildGraph (steps 1-3, the report-summaries writer goroutine 163-176,
                                         deferred summariesFile.Close), BuildAndRunVisitor, RunVisitorOnEntryPoints
    - analysis/dataflow/globals.go      GlobalNode.mutex
    - analysis/dataflow/function_summary_graph.go   NewSummaryGraph, SyncGlobals, Print, atomic node ids
    - analysis/taint/taint.go           Analyze (the driver sequencing the above)

    The matrix has two variants selected by [fixed]:
    - [fixed = true]  the code as it is since /repo commit d79ddc0 "fix: write the summaries report synchronously in
                      BuildGraph": the report-summaries writer is a piece of the main goroutine between STEP 2 and STEP 3
                      (happens-before edge writer -> step 3).  THIS is the variant tied to the code by the check.
    - [fixed = false] the code before that commit: the writer is a detached goroutine started by a go statement and
                      never joined (kept because the check must recognise the defect if it comes back).

    A *step* is a maximal piece of one goroutine between two synchronisation points.  Steps are numbered in a
    topological order of happens-before (every edge goes from a smaller to a larger number - checked by [wf_hb]).
    Two summary workers stand for the NumCPU-1 workers (any racing pair of workers is a pair of two of them). *)
From Coq Require Import List Arith Bool String.
Import ListNotations.

Inductive mode := Rd | Wr.

Record access := mkAcc {
  a_step : nat;
  a_obj : nat;
  a_mode : mode;
  a_lock : option nat;      (* the mutex held during the access, if any *)
  a_atomic : bool           (* sync/atomic access *)
}.

Record matrix := mkMatrix {
  m_nsteps : nat;
  m_acc : list access;
  m_hb : list (nat * nat)   (* direct happens-before edges: go statement, WaitGroup join, channel hand-off, program order *)
}.

(** ** happens-before = transitive closure of the edges (edges increase, so paths have at most [m_nsteps] edges) *)
Definition wf_hb (M : matrix) : bool :=
  forallb (fun e => (fst e <? snd e) && (snd e <? m_nsteps M)) (m_hb M).

Definition edge (M : matrix) (a b : nat) : bool :=
  existsb (fun e => (fst e =? a) && (snd e =? b)) (m_hb M).

(* [if] instead of [&&]/[||]: vm_compute is call-by-value, the boolean operators would evaluate every branch *)
Fixpoint reach (M : matrix) (k : nat) (a b : nat) : bool :=
  if edge M a b then true else
  match k with
  | O => false
  | S k' => existsb (fun e => if fst e =? a then reach M k' (snd e) b else false) (m_hb M)
  end.

Definition hb (M : matrix) (a b : nat) : bool := reach M (m_nsteps M) a b.

(** ** conflicts *)
Definition is_wr (x : access) : bool := match a_mode x with Wr => true | Rd => false end.

Definition common_lock (x y : access) : bool :=
  match a_lock x, a_lock y with
  | Some l1, Some l2 => l1 =? l2
  | _, _ => false
  end.

Definition conflict (x y : access) : bool :=
  (a_obj x =? a_obj y) && negb (a_step x =? a_step y) && (is_wr x || is_wr y)
  && negb (common_lock x y) && negb (a_atomic x && a_atomic y).

Definition racy (M : matrix) (p : access * access) : bool :=
  if conflict (fst p) (snd p)
  then if hb M (a_step (fst p)) (a_step (snd p)) then false
       else if hb M (a_step (snd p)) (a_step (fst p)) then false else true
  else false.

Definition racy_pairs (M : matrix) : list (access * access) :=
  filter (racy M) (list_prod (m_acc M) (m_acc M)).

Definition race_free (M : matrix) : bool :=
  wf_hb M && match racy_pairs M with [] => true | _ => false end.

(** ** the analyzer *)

(** steps *)
Definition s_newstate := 0.   (* main: NewAnalyzerState up to the go statements (annotations, cha, contracts init) *)
Definition s_impls := 1.      (* goroutine: PopulateImplementations *)
Definition s_pointer := 2.    (* goroutine: PopulatePointersVerbose (incl. ReachableFunctions) *)
Definition s_globals := 3.    (* goroutine: PopulateGlobalsVerbose *)
Definition s_afterinit := 4.  (* main: wg.Wait, CheckError, linkContracts, bounding analysis, preamble, job list *)
Definition s_worker1 := 5.    (* goroutine: MapParallel worker = runSingleFunctionJob on some functions *)
Definition s_worker2 := 6.    (* goroutine: another worker *)
Definition s_collect := 7.    (* main: range out / collectResults / InsertSummaries *)
Definition s_build12 := 8.    (* main: BuildGraph: openSummaries, STEP 1, STEP 2 *)
Definition s_writer := 9.     (* the report-summaries writer (inter_procedural.go:165-178): main goroutine when [fixed],
                                 a detached goroutine otherwise *)
Definition s_build3 := 10.    (* main: BuildGraph STEP 3 (linking) *)
Definition s_buildret := 11.  (* main: BuildGraph returns: deferred summariesFile.Close() *)
Definition s_visitor := 12.   (* main: openCoverage, RunVisitorOnEntryPoints (incl. on-demand summaries, report files) *)
Definition s_return := 13.    (* main: the analysis returns; the caller may read every report file *)
Definition n_steps := 14.

Definition step_names : list string :=
  (["main.newstate"; "init.implementations"; "init.pointer"; "init.globals"; "main.afterinit"; "worker.1"; "worker.2";
   "main.collect"; "main.buildgraph.step12"; "report-summaries-writer"; "main.buildgraph.step3";
   "main.buildgraph.return"; "main.visitor"; "main.return"])%string.

(** shared objects *)
Definition o_config := 0.       (* state.Config *)
Definition o_program := 1.      (* ssa.Program (read; its method-set caches have their own mutex) *)
Definition o_logger := 2.       (* config.LogGroup -> log.Logger (internal mutex) *)
Definition o_impls := 3.        (* state.ImplementationsByType, state.keys *)
Definition o_contracts := 4.    (* state.DataFlowContracts *)
Definition o_pointer := 5.      (* state.PointerAnalysis *)
Definition o_reach := 6.        (* state.reachableFunctions, isReachabilityCha *)
Definition o_globalsmap := 7.   (* state.Globals *)
Definition o_globalsets := 8.   (* GlobalNode.WriteLocations / ReadLocations *)
Definition o_errors := 9.       (* state.errors *)
Definition o_alarms := 10.      (* state.numAlarms *)
Definition o_fnid := 11.        (* uniqueFunctionIDCounter, SummaryGraph.lastNodeID *)
Definition o_summaries := 12.   (* FlowGraph.Summaries (the map) *)
Definition o_graph1 := 13.      (* the summary graphs produced by worker 1 (nodes, edges, CalleeSummary, Callsites ...) *)
Definition o_graph2 := 14.      (* the summary graphs produced by worker 2 *)
Definition o_bounding := 15.    (* state.BoundingInfo *)
Definition o_jobs := 16.        (* the jobs slice *)
Definition o_sumfile := 17.     (* summaries-*.out: content + open/closed state *)
Definition o_timesfile := 18.   (* summary-times-*.csv *)
Definition o_covfile := 19.     (* coverage-*.out *)
Definition o_pathfiles := 20.   (* flow-*.out (report-paths) *)

Definition obj_names : list string :=
  (["Config"; "ssa.Program"; "Logger"; "ImplementationsByType"; "DataFlowContracts"; "PointerAnalysis";
   "reachableFunctions"; "Globals(map)"; "GlobalNode.locations"; "errors"; "numAlarms"; "id-counters";
   "FlowGraph.Summaries(map)"; "SummaryGraph(worker1)"; "SummaryGraph(worker2)"; "BoundingInfo"; "jobs";
   "summaries-file"; "summary-times-file"; "coverage-file"; "flow-path-files"])%string.

(** locks *)
Definition l_log := 0.        (* log.Logger.mu *)
Definition l_err := 1.        (* AnalyzerState.errorMutex *)
Definition l_glob := 2.       (* GlobalNode.mutex *)
Definition l_prog := 3.       (* ssa.Program internal mutexes *)

Definition rd (s o : nat) := mkAcc s o Rd None false.
Definition wr (s o : nat) := mkAcc s o Wr None false.
Definition wrl (s o l : nat) := mkAcc s o Wr (Some l) false.
Definition rdl (s o l : nat) := mkAcc s o Rd (Some l) false.
Definition atm (s o : nat) := mkAcc s o Wr None true.

Definition log (s : nat) := wrl s o_logger l_log.
Definition prog (s : nat) := wrl s o_program l_prog.

(** what one summary worker touches; [g] is the object standing for the graphs it creates *)
Definition worker (s g : nat) : list access :=
  [ rd s o_jobs; rd s o_summaries; rd s o_globalsmap; wrl s o_globalsets l_glob; rd s o_pointer; rd s o_impls;
    rd s o_contracts; rd s o_config; rd s o_bounding; rd s o_reach; atm s o_fnid; log s; prog s;
    wrl s o_errors l_err; wr s g ].

Section Options.
  Variables report_summaries report_coverage report_paths on_demand : bool.
  Variable fixed : bool.     (* true: the writer runs synchronously before STEP 3 (the code since d79ddc0) *)

  Definition when (b : bool) (l : list access) : list access := if b then l else [].

  Definition analyzer_accesses : list access :=
    (* main.newstate *)
    [ wr s_newstate o_config; wr s_newstate o_impls; wr s_newstate o_contracts; wr s_newstate o_globalsmap;
      wr s_newstate o_summaries; wr s_newstate o_errors; prog s_newstate; log s_newstate ] ++
    (* the three parallel initialisation steps *)
    [ wr s_impls o_impls; wr s_impls o_contracts; atm s_impls o_fnid; prog s_impls; log s_impls;
      wrl s_impls o_errors l_err ] ++
    [ wr s_pointer o_reach; wr s_pointer o_pointer; rd s_pointer o_config; prog s_pointer; log s_pointer;
      wrl s_pointer o_errors l_err ] ++
    [ wr s_globals o_globalsmap; prog s_globals; log s_globals ] ++
    (* main.afterinit *)
    [ wrl s_afterinit o_errors l_err; wr s_afterinit o_contracts; wr s_afterinit o_reach; rd s_afterinit o_pointer;
      wr s_afterinit o_bounding; wr s_afterinit o_config; rd s_afterinit o_impls; atm s_afterinit o_fnid;
      wr s_afterinit o_jobs; log s_afterinit; prog s_afterinit ] ++
    worker s_worker1 o_graph1 ++ worker s_worker2 o_graph2 ++
    (* main.collect *)
    [ wr s_collect o_summaries; rd s_collect o_graph1; rd s_collect o_graph2; log s_collect ] ++
    when report_summaries [ wr s_collect o_timesfile ] ++
    (* BuildGraph steps 1, 2 *)
    [ wr s_build12 o_summaries; wr s_build12 o_graph1; wr s_build12 o_graph2; rd s_build12 o_contracts;
      log s_build12 ] ++
    when report_summaries [ wr s_build12 o_sumfile ] ++
    (* the writer goroutine *)
    when report_summaries
      [ rd s_writer o_summaries; rd s_writer o_graph1; rd s_writer o_graph2; wr s_writer o_sumfile; prog s_writer ] ++
    (* BuildGraph step 3, return *)
    [ wr s_build3 o_summaries; wr s_build3 o_graph1; wr s_build3 o_graph2; rd s_build3 o_reach; atm s_build3 o_fnid;
      log s_build3 ] ++
    when report_summaries [ wr s_buildret o_sumfile ] ++
    (* visitor *)
    [ rd s_visitor o_summaries; wr s_visitor o_graph1; wr s_visitor o_graph2; rd s_visitor o_globalsets;
      atm s_visitor o_alarms; wrl s_visitor o_errors l_err; rd s_visitor o_config; log s_visitor; prog s_visitor ] ++
    when on_demand [ wr s_visitor o_summaries; wrl s_visitor o_globalsets l_glob; atm s_visitor o_fnid ] ++
    when report_coverage [ wr s_visitor o_covfile ] ++
    when report_paths [ wr s_visitor o_pathfiles ] ++
    (* return: report files are expected to be complete *)
    [ wrl s_return o_errors l_err; rd s_return o_summaries ] ++
    when report_summaries [ rd s_return o_sumfile; rd s_return o_timesfile ] ++
    when report_coverage [ rd s_return o_covfile ] ++
    when report_paths [ rd s_return o_pathfiles ].

  Definition analyzer_hb : list (nat * nat) :=
    [ (s_newstate, s_impls); (s_newstate, s_pointer); (s_newstate, s_globals);          (* go statements *)
      (s_impls, s_afterinit); (s_pointer, s_afterinit); (s_globals, s_afterinit);       (* wg.Wait *)
      (s_newstate, s_afterinit);
      (s_afterinit, s_worker1); (s_afterinit, s_worker2);                               (* go + receive on [in] *)
      (s_worker1, s_collect); (s_worker2, s_collect);                                   (* send on [out], close(out) *)
      (s_afterinit, s_collect); (s_collect, s_build12);
      (s_build12, s_writer);                                                            (* go statement *)
      (s_build12, s_build3); (s_build3, s_buildret); (s_buildret, s_visitor); (s_visitor, s_return) ] ++
    (if fixed then [ (s_writer, s_build3) ] else []).

  Definition analyzer : matrix := mkMatrix n_steps analyzer_accesses analyzer_hb.
End Options.

(** names for reports / the tie *)
Definition mode_name (m : mode) : string := match m with Rd => "R"%string | Wr => "W"%string end.

Definition describe (p : access * access) : (string * string * string) * (string * string) :=
  let (x, y) := p in
  ((nth (a_step x) step_names "?"%string, nth (a_step y) step_names "?"%string, nth (a_obj x) obj_names "?"%string),
   (mode_name (a_mode x), mode_name (a_mode y))).

Definition racy_named (M : matrix) := map describe (racy_pairs M).
