(* ====================================================================== *)
(*  Argot.Model.Cond  --  executable model only, no proofs                *)
(*                                                                        *)
(*  Faithful model of the validator machinery of ar-go-tools (C02):       *)
(*    analysis/dataflow/path.go      FindPathBetweenBlocks (stack search, *)
(*                                   first path found), BlockTree.        *)
(*                                   PathToLeaf,                          *)
(*                                   block), SimplePathCondition,         *)
(*                                   isValuePredicateTo, AsPredicateTo    *)
(*    analysis/lang/values.go        ValuesWithSameData, MatchNilCheck,   *)
(*                                   MatchNegation, MatchExtract          *)
(*    analysis/dataflow/intra_procedural.go  checkPathBetweenInstructions *)
(*                                   (same-block shortcut) + the          *)
(*                                   condition attached to a call-arg edge*)
(*    analysis/taint/code_identifiers.go  isValidatorCondition            *)
(*    analysis/taint/dataflow_visitor.go  addNext: edge dropped iff SOME  *)
(*                                   attached condition is a validator    *)
(*                                   condition                            *)
(*  plus the executable SPEC of the property (prune / ideal_kept): is     *)
(*  there a CFG path source->sink that does not pass a validated branch?  *)
(* ====================================================================== *)

From Coq Require Import List Arith Bool.
Import ListNotations.

(* ---------------------------------------------------------------------- *)
(*  SSA values as far as lang.ValuesWithSameData looks into them.  Every   *)
(*  node carries the identity of the SSA value (Go compares pointers).     *)
(* ---------------------------------------------------------------------- *)
Inductive vexpr : Type :=
| VAtom (id : nat)                          (* any other value *)
| VLoad (id : nat) (p : vexpr)              (* *ssa.UnOp with Op = MUL *)
| VFieldAddr (id : nat) (z : vexpr)         (* *ssa.FieldAddr *)
| VExtract (id : nat) (t : vexpr)           (* *ssa.Extract *)
| VMkIface (id : nat) (x : vexpr).          (* *ssa.MakeInterface *)

Definition vid (v : vexpr) : nat :=
  match v with
  | VAtom i => i | VLoad i _ => i | VFieldAddr i _ => i | VExtract i _ => i | VMkIface i _ => i
  end.

(* lang.ValuesWithSameData, statement by statement *)
Fixpoint same_data (v1 : vexpr) : vexpr -> bool :=
  fix inner (v2 : vexpr) : bool :=
    if vid v1 =? vid v2 then true                                   (* v1 == v2 *)
    else if (match v1, v2 with                                        (* matchLoad *)
             | VLoad _ x1, VLoad _ x2 => same_data x1 x2
             | _, _ => false
             end) then true
    else match v2 with
         | VLoad _ (VFieldAddr _ z) => inner z                      (* MatchLoadField(v2): return ...(v1, z) *)
         | VExtract _ t => inner t                                  (* MatchExtract(v2):   return ...(v1, t) *)
         | _ =>
             match v1 with                                            (* matchConversion *)
             | VMkIface _ x => same_data x v2
             | _ => match v2 with
                    | VMkIface _ x2 => inner x2
                    | _ => false
                    end
             end
         end.

(* ---------------------------------------------------------------------- *)
(*  Branch conditions as far as isValuePredicateTo / isValidatorCondition  *)
(*  look into them.                                                        *)
(* ---------------------------------------------------------------------- *)
Inductive rkind := RBool | RErr | ROther | RNone.       (* type of the LAST result of the callee signature *)
Inductive binop := OpEq | OpNeq | OpOther.

Inductive cexpr : Type :=
| CCall (is_val : bool) (rk : rkind) (args : list vexpr)
    (* *ssa.Call; is_val = the callee matches a validator spec (oracle: IsMatchingCodeIDWithCallee) *)
| CBin (op : binop) (errty xnil ynil : bool) (x y : cexpr)
    (* *ssa.BinOp; errty = IsErrorType(X.Type()); xnil/ynil = operand prints as "nil:error" *)
| CUn (isnot : bool) (x : cexpr)                                    (* *ssa.UnOp; isnot = (Op == NOT) *)
| CExtract (idx len : nat) (t : cexpr)                              (* *ssa.Extract of a len-tuple *)
| COther.

Definition is_pred_kind (k : rkind) : bool :=                        (* lang.IsPredicateFunctionType *)
  match k with RBool | RErr => true | _ => false end.

Definition is_eqneq (o : binop) : bool := match o with OpEq | OpNeq => true | OpOther => false end.
Definition is_eq (o : binop) : bool := match o with OpEq => true | _ => false end.

(* dataflow.isValuePredicateTo *)
Fixpoint is_pred_to (c : cexpr) (v : vexpr) : bool :=
  match c with
  | CCall _ rk args => is_pred_kind rk && existsb (fun a => same_data a v) args
  | CBin op errty xnil ynil x y =>
      if is_eqneq op && errty then                                   (* lang.MatchNilCheck *)
        if xnil then is_pred_to y v
        else if ynil then is_pred_to x v
        else false
      else false
  | CUn isnot x => if isnot then is_pred_to x v else false          (* lang.MatchNegation *)
  | CExtract idx len t => (idx =? len - 1) && is_pred_to t v         (* only the last tuple element *)
  | COther => false
  end.

(* taint.isValidatorCondition *)
Fixpoint is_validator_condition (c : cexpr) (positive : bool) : bool :=
  match c with
  | CCall is_val _ _ => positive && is_val
  | CBin op errty xnil ynil x y =>
      if is_eqneq op && errty then
        if xnil then eqb positive (is_eq op) && is_validator_condition y true
        else if ynil then eqb positive (is_eq op) && is_validator_condition x true
        else false
      else false
  | CUn isnot x => if isnot then is_validator_condition x (negb positive) else false
  | CExtract _ _ t => is_validator_condition t positive
  | COther => false
  end.

(* ---------------------------------------------------------------------- *)
(*  Control-flow graph: blocks with successor lists; a block whose last    *)
(*  instruction is an If carries (id of the condition value, condition).   *)
(* ---------------------------------------------------------------------- *)
Record block := mkBlock { succs : list nat; ifc : option (nat * cexpr) }.
Definition cfg := list block.

Definition dflt_block : block := mkBlock [] None.
Definition blk (g : cfg) (b : nat) : block := nth b g dflt_block.
Definition succs_of (g : cfg) (b : nat) : list nat := succs (blk g b).

Definition memb (x : nat) (l : list nat) : bool := existsb (Nat.eqb x) l.

(* a BlockTree node = the path from itself up to the root, i.e. reversed *)
Definition tnode := list nat.

Inductive presult := Found (raw : list nat) | NoPath | OutOfFuel.

(* BlockTree.PathToLeaf + ToBlocks: root ... leaf.  (Until /repo commit 28b75c7 the leaf block was emitted twice; that
   was the finding validator-dup-last-block.) *)
Definition path_to_leaf (t : tnode) : list nat := rev t.

(* the loop of FindPathBetweenBlocks; the stack top is the head of [stack] *)
Fixpoint search (fuel : nat) (g : cfg) (dst : nat) (visited : list nat) (stack : list tnode) : presult :=
  match fuel with
  | 0 => OutOfFuel
  | S f =>
      match stack with
      | [] => NoPath
      | cur :: rest =>
          let b := hd 0 cur in
          let visited' := b :: visited in
          if b =? dst then Found (path_to_leaf cur)
          else
            let fresh := filter (fun s => negb (memb s visited')) (succs_of g b) in
            search f g dst visited' (rev (map (fun s => s :: cur) fresh) ++ rest)
      end
  end.

Definition max_deg (g : cfg) : nat := fold_right (fun b m => Nat.max (length (succs b)) m) 0 g.

Definition fuel_bound (g : cfg) : nat := max_deg g + 2 * max_deg g * length g + 1.

(* dataflow.FindPathBetweenBlocks: begin is NOT marked visited, its successors are pushed unconditionally *)
Definition find_path_fuel (fuel : nat) (g : cfg) (src dst : nat) : presult :=
  search fuel g dst [] (rev (map (fun s => [s; src]) (succs_of g src))).

Definition find_path (g : cfg) (src dst : nat) : presult := find_path_fuel (fuel_bound g) g src dst.

(* dataflow.Condition: (IsPositive, id of Value, Value) *)
Definition cond := (bool * nat * cexpr)%type.

(* dataflow.SimplePathCondition on the block list *)
Fixpoint simple_path_condition (g : cfg) (raw : list nat) : list cond :=
  match raw with
  | b :: ((b' :: _) as tl) =>
      let here :=
        match ifc (blk g b) with
        | Some (cid, c) =>
            match succs_of g b with
            | s0 :: ss =>
                if b' =? s0 then [(true, cid, c)]
                else match ss with
                     | s1 :: _ => if b' =? s1 then [(false, cid, c)] else []
                     | [] => []
                     end
            | [] => []
            end
        | None => []
        end in
      here ++ simple_path_condition g tl
  | _ => []
  end.

(* ConditionInfo.AsPredicateTo *)
Definition as_predicate_to (cs : list cond) (v : vexpr) : list cond :=
  filter (fun c => is_pred_to (snd c) v) cs.

(* the loop at the top of taint Visitor.addNext *)
Definition edge_dropped (cs : list cond) : bool :=
  existsb (fun c => is_validator_condition (snd c) (fst (fst c))) cs.

(* result of dataflow IntraAnalysisState.checkPathBetweenInstructions *)
Inductive flowcond := Unsat | Sat (cs : list cond) | FlowOutOfFuel.

(* source instruction = (block sb, index si), destination = (db, di) *)
Definition check_path (g : cfg) (sb si db di : nat) : flowcond :=
  if (sb =? db) && (si <? di) then Sat []
  else match find_path g sb db with
       | Found raw => Sat (simple_path_condition g raw)
       | NoPath => Unsat
       | OutOfFuel => FlowOutOfFuel
       end.

(* the condition decorating the edge  mark(source instr) -> call argument v  (makeEdgesAtCallSite):
   None = no edge is created; Some [] = edge without condition *)
Definition edge_cond (g : cfg) (sb si db di : nat) (v : vexpr) : option (list cond) :=
  match check_path g sb si db di with
  | Sat cs => Some (as_predicate_to cs v)
  | _ => None
  end.

(* ---------------------------------------------------------------------- *)
(*  Executable spec of the property: a step b -> s of a path is validated   *)
(*  for v  when b ends in an If whose branch towards s (then-branch if      *)
(*  s = Succs[0], else-branch if s = Succs[1], as SimplePathCondition       *)
(*  reads it) is a validator condition that is a predicate on v.            *)
(* ---------------------------------------------------------------------- *)
Definition step_label (g : cfg) (b s : nat) : option cond :=
  match ifc (blk g b) with
  | Some (cid, c) =>
      match succs_of g b with
      | s0 :: ss =>
          if s =? s0 then Some (true, cid, c)
          else match ss with
               | s1 :: _ => if s =? s1 then Some (false, cid, c) else None
               | [] => None
               end
      | [] => None
      end
  | None => None
  end.

Definition cond_validates (c : cond) (v : vexpr) : bool :=
  is_pred_to (snd c) v && is_validator_condition (snd c) (fst (fst c)).

Definition step_validated (g : cfg) (v : vexpr) (b s : nat) : bool :=
  match step_label g b s with
  | Some c => cond_validates c v
  | None => false
  end.

(* remove every validated step; conditions are dropped: only reachability matters afterwards *)
Definition prune_from (g : cfg) (v : vexpr) (i : nat) (bs : list block) : cfg :=
  map (fun ib => mkBlock (filter (fun s => negb (step_validated g v (fst ib) s)) (succs (snd ib))) None)
      (combine (seq i (length bs)) bs).

Definition prune (g : cfg) (v : vexpr) : cfg := prune_from g v 0 g.

(* ideal verdict: the edge must be KEPT iff some CFG path src -> dst avoids every validated step *)
Definition ideal_kept (g : cfg) (src dst : nat) (v : vexpr) : presult := find_path (prune g v) src dst.

(* ---------------------------------------------------------------------- *)
(*  Boolean well-formedness checks, evaluated on every dumped function so   *)
(*  that the hypotheses of the theorems are never vacuous.                  *)
(* ---------------------------------------------------------------------- *)
(* successor indices are in range *)
Definition wf_cfgb (g : cfg) : bool :=
  forallb (fun b => forallb (fun s => s <? length g) (succs b)) g.

(* what is compared with nil is never a negation or another comparison (the Go type checker guarantees it: a
   nil-checked value is an error, a negation a bool) *)
Fixpoint plain (c : cexpr) : bool :=
  match c with
  | CCall _ _ _ => true
  | CExtract _ _ t => plain t
  | COther => true            (* a phi / parameter / constant: not a statement about a validator at all *)
  | _ => false
  end.

Fixpoint wf_cond (c : cexpr) : bool :=
  match c with
  | CBin op errty xnil ynil x y =>
      if is_eqneq op && errty then
        if xnil then plain y else if ynil then plain x else true
      else true
  | CUn _ x => wf_cond x
  | CExtract _ _ t => wf_cond t
  | _ => true
  end.

Definition wf_conds (g : cfg) : bool :=
  forallb (fun b => match ifc b with Some (_, c) => wf_cond c | None => true end) g.

(* ---------------------------------------------------------------------- *)
(*  Sanitizers: the forward traversal (Visitor.Visit) does not expand a     *)
(*  node matching a sanitizer spec (`continue`).  Abstract worklist model:  *)
(*  FIFO queue, seen set, a [stop] node is visited but not expanded.        *)
(*  (The faithful model of Visit/addNext is Model/Visit.v.)                 *)
(* ---------------------------------------------------------------------- *)
Section SanitizerTraversal.
  Variable out : nat -> list nat.      (* successors in the linked dataflow graph *)
  Variable stop : nat -> bool.         (* isSanitizer (or any other non-expanding test) *)

  Fixpoint enqueue (ys queue seen : list nat) : list nat * list nat :=
    match ys with
    | [] => (queue, seen)
    | y :: ys' =>
        if memb y seen then enqueue ys' queue seen
        else enqueue ys' (queue ++ [y]) (y :: seen)
    end.

  Fixpoint bfs (fuel : nat) (queue seen : list nat) : option (list nat) :=
    match fuel with
    | 0 => None
    | S f =>
        match queue with
        | [] => Some seen
        | x :: rest =>
            if stop x then bfs f rest seen
            else let (q, s) := enqueue (out x) rest seen in bfs f q s
        end
    end.

  Definition visit (fuel : nat) (roots : list nat) : option (list nat) :=
    let (q, s) := enqueue roots [] [] in bfs fuel q s.
End SanitizerTraversal.
