(* Executable model of the lightweight may-panic analysis of ar-go-tools
     /repo/analysis/maypanic/lightweight.go   (findGoFunctions, doesRecover, findRecoverFunctions, doesDeferRecover,
                                               findErroredFunctions, allowListed, the filter loop of MayPanicAnalyzer)
     /repo/internal/analysisutil/paths.go      (MakeAbsolute, isExcludedOne, IsExcluded)
   over a mini-IR that keeps exactly the distinctions the three type switches of the Go code make.
   Model only: no proofs here (Proofs/MayPanic.v), so that it still runs when a proof breaks. *)
From Coq Require Import List String Ascii Bool Arith.
Import ListNotations.
Local Open Scope string_scope.
Local Open Scope list_scope.

(* ------------------------------------------------------------------------------------------------ mini-IR *)

Definition fid := nat.   (* index of a function in the program: ssautil.AllFunctions in a fixed order *)
Definition pos := nat.   (* id of the source position of a go statement *)

(* What `Call.IsInvoke()` and the type switch on `Call.Value` can distinguish. *)
Inductive form : Type :=
| FStatic (f : fid)          (* Call.Value is an *ssa.Function: named function, method with static receiver, anonymous
                                function without free variables, generic instance, $thunk wrapper *)
| FClosure (f : fid)         (* Call.Value is an *ssa.MakeClosure whose Fn is an *ssa.Function: closure with free
                                variables, bound-method wrapper M$bound *)
| FClosureOther              (* *ssa.MakeClosure whose Fn is not an *ssa.Function (the inner type switch has no other case) *)
| FInvoke (m : nat)          (* Call.IsInvoke(): method call through an interface value; m identifies interface.method *)
| FBuiltin (name : string)   (* Call.Value is an *ssa.Builtin *)
| FValue (s : nat).          (* any other ssa.Value of function type (parameter, load, phi, call result, ...);
                                s identifies the signature *)

Inductive instr : Type :=
| IGo (fm : form) (p : pos)
| IDefer (fm : form)
| ICall (fm : form)
| IOther.

Record func : Type := mkFunc {
  f_pkg  : option string;    (* f.Pkg.Pkg.Path(); None when f.Pkg == nil (wrappers, generic instances) *)
  f_file : string;           (* program.Fset.Position(f.Pos()).Filename; "" when there is no position *)
  f_body : list instr        (* all instructions of all blocks (the analysis ignores control flow) *)
}.

Record program : Type := mkProgram {
  funcs  : list func;
  impls  : list (nat * list fid);    (* interface method -> declared methods implementing it        (spec only) *)
  values : list (nat * list fid)     (* signature -> functions a value of that signature may denote (spec only) *)
}.

Definition get_func (P : program) (f : fid) : option func := nth_error (funcs P) f.

(* ------------------------------------------------------------------------------------------------ findGoFunctions *)

Definition gomap := list (fid * list pos).

(* addGoFunction: append the position to the entry of f, or create the entry *)
Fixpoint add_go (f : fid) (p : pos) (m : gomap) : gomap :=
  match m with
  | [] => [(f, [p])]
  | (g, ps) :: r => if Nat.eqb g f then (g, ps ++ [p]) :: r else (g, ps) :: add_go f p r
  end.

(* the body of `case *ssa.Go:` : which function, if any, is recorded for this instruction *)
Definition go_target (i : instr) : option (fid * pos) :=
  match i with
  | IGo fm p =>
      match fm with
      | FInvoke _ => None                 (* if v.Call.IsInvoke() { }  -- empty branch *)
      | FStatic f => Some (f, p)          (* case *ssa.Function: addGoFunction(value, v.Pos(), result) *)
      | FClosure f => Some (f, p)         (* case *ssa.MakeClosure: switch fn := value.Fn.(type) { case *ssa.Function: add } *)
      | FClosureOther => None
      | FBuiltin _ => None                (* no case *)
      | FValue _ => None                  (* no case *)
      end
  | _ => None
  end.

Definition scan_go (body : list instr) (m : gomap) : gomap :=
  fold_left (fun m i => match go_target i with Some (f, p) => add_go f p m | None => m end) body m.

Definition find_go_functions (P : program) : gomap :=
  fold_left (fun m fn => scan_go (f_body fn) m) (funcs P) [].

(* ------------------------------------------------------------------------------------------------ doesRecover *)

Definition is_recover_call (i : instr) : bool :=
  match i with
  | ICall fm =>
      match fm with
      | FInvoke _ => false                          (* empty branch *)
      | FStatic _ => false                          (* case *ssa.Function:  -- empty *)
      | FBuiltin name => String.eqb name "recover"  (* case *ssa.Builtin: switch name { case "recover": return true } *)
      | _ => false
      end
  | _ => false
  end.

Definition does_recover (fn : func) : bool := existsb is_recover_call (f_body fn).

(* membership in findRecoverFunctions(allFunctions) *)
Definition in_recover_functions (P : program) (g : fid) : bool :=
  match get_func P g with Some fn => does_recover fn | None => false end.

(* ------------------------------------------------------------------------------------------------ doesDeferRecover *)

Definition is_recovering_defer (P : program) (i : instr) : bool :=
  match i with
  | IDefer fm =>
      match fm with
      | FInvoke _ => false                          (* empty branch *)
      | FStatic g => in_recover_functions P g       (* case *ssa.Function: if recoverFunctions[value] return true *)
      | FClosure g => in_recover_functions P g      (* case *ssa.MakeClosure: value.Fn is an ssa.Function in recoverFunctions *)
      | _ => false
      end
  | _ => false
  end.

Definition does_defer_recover_fn (P : program) (fn : func) : bool := existsb (is_recovering_defer P) (f_body fn).

Definition does_defer_recover (P : program) (f : fid) : bool :=
  match get_func P f with Some fn => does_defer_recover_fn P fn | None => false end.

(* ------------------------------------------------------------------------------------------------ filters *)

Fixpoint str_prefix (p s : string) : bool :=       (* strings.HasPrefix(s, p) *)
  match p with
  | EmptyString => true
  | String a p' => match s with
                   | EmptyString => false
                   | String b s' => if Ascii.eqb a b then str_prefix p' s' else false
                   end
  end.

Fixpoint str_rev_acc (s acc : string) : string :=
  match s with EmptyString => acc | String a s' => str_rev_acc s' (String a acc) end.
Definition str_rev (s : string) : string := str_rev_acc s EmptyString.

Definition str_suffix (suf s : string) : bool := str_prefix (str_rev suf) (str_rev s).   (* strings.HasSuffix(s, suf) *)

(* allowListed(path) *)
Definition allow_listed (allow : list string) (path : string) : bool :=
  existsb (fun p => String.eqb p path || str_prefix (p ++ "/")%string path) allow.

(* analysisutil.MakeAbsolute for one path *)
Definition make_absolute (cwd s : string) : string :=
  if str_prefix "/" s then s else (cwd ++ "/" ++ s)%string.

(* analysisutil.isExcludedOne on the file name of f *)
Definition is_excluded_one (filename exclude : string) : bool :=
  if str_suffix ".go" exclude then String.eqb filename exclude
  else if str_suffix "/" exclude then str_prefix exclude filename
  else str_prefix (exclude ++ "/")%string filename.

Definition is_excluded (filename : string) (exclude : list string) : bool :=
  existsb (is_excluded_one filename) exclude.

Record config : Type := mkConfig {
  c_allow   : list string;      (* the allowList of lightweight.go *)
  c_cwd     : string;
  c_exclude : list string       (* -exclude arguments as given on the command line *)
}.

(* the filter loop of MayPanicAnalyzer: is the go function f deleted from goFunctions? *)
Definition filtered_fn (c : config) (fn : func) : bool :=
  match f_pkg fn with
  | Some path => allow_listed (c_allow c) path
                 || is_excluded (f_file fn) (map (make_absolute (c_cwd c)) (c_exclude c))
  | None => false                                   (* if f.Pkg != nil { ... } *)
  end.

Definition filtered (c : config) (P : program) (f : fid) : bool :=
  match get_func P f with Some fn => filtered_fn c fn | None => false end.

(* ------------------------------------------------------------------------------------------------ the report *)

(* goFunctions after the filter loop; findErroredFunctions keeps those without a recovering defer; the report lists
   each of them with goFunctions[f] as creators (the real output is sorted by name: order is not modelled). *)
Definition report (c : config) (P : program) : gomap :=
  filter (fun e => negb (filtered c P (fst e)) && negb (does_defer_recover P (fst e))) (find_go_functions P).

(* ------------------------------------------------------------------------------------------------ dispatch probes
   The behaviour of the three switches on one representative of every form, as strings, for the T-gen tie
   (Proofs/MayPanic.v compares them with the table regenerated from the Go AST, coq/gen/GenMayPanic.v). *)

Definition probe_forms : list (string * form) :=
  [ ("invoke", FInvoke 0);
    ("*ssa.Function", FStatic 0);
    ("*ssa.MakeClosure/*ssa.Function", FClosure 0);
    ("*ssa.MakeClosure/other", FClosureOther);
    ("*ssa.Builtin", FBuiltin "recover");
    ("other", FValue 0) ].

(* a probe program in which function 0 calls recover, so that a lookup in recoverFunctions succeeds *)
Definition probe_program : program :=
  mkProgram [mkFunc None "" [ICall (FBuiltin "recover")]] [] [].

Definition probe_instr (kind : string) (fm : form) : instr :=
  if String.eqb kind "*ssa.Go" then IGo fm 0
  else if String.eqb kind "*ssa.Defer" then IDefer fm
  else if String.eqb kind "*ssa.Call" then ICall fm
  else IOther.

Definition instr_kinds : list string := ["*ssa.Go"; "*ssa.Defer"; "*ssa.Call"; "other"].

Definition go_action (kind : string) (fm : form) : string :=
  match go_target (probe_instr kind fm) with Some _ => "add" | None => "empty" end.

Definition recover_action (kind : string) (fm : form) : string :=
  if is_recover_call (probe_instr kind fm) then
    (match fm with
     | FBuiltin _ => if is_recover_call (probe_instr kind (FBuiltin "print")) then "return-true" else "name-in:recover"
     | _ => "return-true" end)
  else "empty".

Definition defer_action (kind : string) (fm : form) : string :=
  if is_recovering_defer probe_program (probe_instr kind fm) then
    (if is_recovering_defer (mkProgram [] [] []) (probe_instr kind fm) then "return-true" else "lookup-recover")
  else "empty".
