(* Model/Intra.v -- the intra-procedural rule system R of analysis/dataflow (C08, intra-procedural half of C01).

   Executable definitions only (no proofs): a function as a finite record, the facts [Mark p v m] / [Edge m u], the rule
   system as the predicate [closed], the independent specification [chain] (def-use chains over the SSA operand graph),
   and the boolean validators [check_closed] / [check_wf_ssa] that are extracted and run on the implementation's real
   output (T-cert).

   Correspondence with the Go code (analysis/dataflow):
     point p            a non-ignored ssa.Instruction (FlowInformation.InstrID), the state AFTER the instruction
     value v            FlowInformation.ValueID
     Mark p v m         mark m is in MarkedValues[InstrID*NumValues + ValueID]
     cfg_succ           next instruction in the block / first instruction of a successor block.  The implementation's
                        instrPrev has MORE predecessor edges (populateInstrPrevMap adds RunDefers as a predecessor of
                        every instruction that reaches it); extra edges only add marks, so forward closure is stated
                        for the real CFG
     transfers          the Do* transfer functions (intra_procedural_instruction_ops.go, builtins.go), one data operand
                        at a time, with the tuple-index filter of transferPre at Extract
     is_origin          initialize() (parameters, free variables at the first instruction), callCommonMark (one
                        CallReturn mark per result index on the value of a non-builtin call)
     consumes / Edge    makeEdgesAtReturn / makeEdgesAtCallSite / makeEdgesAtClosure / makeEdgesAtIf
   markValue's alias / referrer / base-object propagation only ADDS marks and has no rule here: the theorems are about
   every set of facts closed under R, and a superset of required facts is never an alarm. *)
From Coq Require Import List Bool PArith NArith FMapPositive FSetPositive.
Import ListNotations.

Definition point := positive.
Definition value := positive.
Definition mark  := positive.
Definition unode := positive.

Inductive builtin :=
| BAppend | BLen | BMin | BMax | BComplex | BReal | BImag | BWrapNilChk     (* value-returning, data flows from operands *)
| BCap | BCopy | BRecover | BNoValue.                                       (* no data transfer to a result *)

Inductive ikind :=
| KBinOp | KUnOp | KConvert | KChangeType | KChangeInterface | KMakeInterface | KTypeAssert | KSliceToArrayPointer
| KSlice | KPhi | KExtract (idx : N) (fromcall : bool) | KField | KFieldAddr | KIndex | KIndexAddr | KLookup | KNext | KRange
| KBuiltin (b : builtin) | KErrorInvoke
| KCall | KGo | KDefer | KMakeClosure | KReturn | KIf | KOther.

Record instr := { i_kind : ikind; i_def : option value; i_ops : list value }.

Definition builtin_transfers (b : builtin) : bool :=
  match b with
  | BAppend | BLen | BMin | BMax | BComplex | BReal | BImag | BWrapNilChk => true
  | BCap | BCopy | BRecover | BNoValue => false
  end.

(* the data operands of a value-computing instruction: the operands the result is computed from *)
Definition data_ops (i : instr) : list value :=
  match i_kind i with
  | KBinOp | KUnOp | KConvert | KChangeType | KChangeInterface | KMakeInterface | KTypeAssert | KSliceToArrayPointer
  | KPhi | KExtract _ _ | KField | KFieldAddr | KIndex | KIndexAddr | KLookup | KNext | KRange | KErrorInvoke => i_ops i
  | KSlice => firstn 1 (i_ops i)             (* the sliced object; Low/High/Max are bounds *)
  | KBuiltin b => if builtin_transfers b then i_ops i else []
  | KCall | KGo | KDefer | KMakeClosure | KReturn | KIf | KOther => []
  end.

Record func := {
  f_instr   : PositiveMap.t instr;                  (* point -> instruction *)
  f_succ    : PositiveMap.t (list point);           (* CFG successors over points *)
  f_def     : PositiveMap.t point;                  (* value -> point where it becomes available *)
  f_origins : list (mark * point * value);          (* origin rules: mark m is put on value v at point p *)
  f_tuple   : PositiveMap.t (value * N);            (* mark of result #k of a multi-result call with tuple value t *)
  f_uses    : PositiveMap.t (list (value * unode))  (* point -> values consumed there into summary node u *)
}.

Inductive fact :=
| Mark (p : point) (v : value) (m : mark)
| Edge (m : mark) (u : unode).

Definition succs (F : func) (p : point) : list point :=
  match PositiveMap.find p (f_succ F) with Some l => l | None => [] end.

Definition uses_at (F : func) (p : point) : list (value * unode) :=
  match PositiveMap.find p (f_uses F) with Some l => l | None => [] end.

Definition defpt (F : func) (v : value) : option point := PositiveMap.find v (f_def F).

(* The tuple-index discipline of transferPre at Extract.  The tuple of a multi-result call t carries one CallReturn mark
   per result index k; Extract #j of t yields exactly result j, so only the mark (t, j) is required to pass (the
   implementation also filters, by index, marks of other calls that alias propagation put on t; those are not required).
   Extract from any other tuple (comma-ok type assertion / receive / lookup, next, select) passes every mark. *)
Definition idx_ok (F : func) (i : instr) (a : value) (m : mark) : bool :=
  match i_kind i with
  | KExtract j true =>
      match PositiveMap.find m (f_tuple F) with
      | Some (t, k) => Pos.eqb t a && N.eqb k j
      | None => false
      end
  | _ => true
  end.

Section Rules.
  Variable F : func.

  Definition cfg_succ (p q : point) : Prop := In q (succs F p).

  Definition transfers (p : point) (a r : value) (m : mark) : Prop :=
    exists i, PositiveMap.find p (f_instr F) = Some i /\ i_def i = Some r /\ In a (data_ops i) /\ idx_ok F i a m = true.

  Definition is_origin (m : mark) (p : point) (v : value) : Prop := In (m, p, v) (f_origins F).

  Definition origin_mark (m : mark) : Prop := exists p v, is_origin m p v.

  Definition consumes (p : point) (v : value) (u : unode) : Prop := In (v, u) (uses_at F p).

  (* the rule system R: S is closed under the origin, forward, transfer and edge rules *)
  Record closed (S : fact -> Prop) : Prop := {
    cl_origin   : forall m p v, is_origin m p v -> S (Mark p v m);
    cl_forward  : forall p q v m, S (Mark p v m) -> cfg_succ p q -> S (Mark q v m);
    cl_transfer : forall p a r m, S (Mark p a m) -> transfers p a r m -> S (Mark p r m);
    cl_edge     : forall p v m u, S (Mark p v m) -> origin_mark m -> consumes p v u -> S (Edge m u)
  }.

  (* least set closed under R *)
  Inductive derivable : fact -> Prop :=
  | d_origin m p v : is_origin m p v -> derivable (Mark p v m)
  | d_forward p q v m : derivable (Mark p v m) -> cfg_succ p q -> derivable (Mark q v m)
  | d_transfer p a r m : derivable (Mark p a m) -> transfers p a r m -> derivable (Mark p r m)
  | d_edge p v m u : derivable (Mark p v m) -> origin_mark m -> consumes p v u -> derivable (Edge m u).

  (* ---- the independent specification: def-use chains over the operand graph (no program points, no state) ---- *)

  (* [chain m a z l]: z is computed from a through the value-computing instructions defining the values of l *)
  Inductive chain (m : mark) : value -> value -> list value -> Prop :=
  | ch_nil v : chain m v v []
  | ch_cons a r z l p : transfers p a r m -> chain m r z l -> chain m a z (r :: l).

  Inductive reach : point -> point -> Prop :=
  | reach_refl p : reach p p
  | reach_step p q r : reach p q -> cfg_succ q r -> reach p r.

  (* SSA well-formedness: definitions are unique and reach their uses along the CFG *)
  Record wf_ssa : Prop := {
    wf_def  : forall p i r, PositiveMap.find p (f_instr F) = Some i -> i_def i = Some r -> defpt F r = Some p;
    wf_orig : forall m p v, is_origin m p v -> defpt F v = Some p;
    wf_ops  : forall p i a d, PositiveMap.find p (f_instr F) = Some i -> In a (data_ops i) -> defpt F a = Some d -> reach d p;
    wf_use  : forall p v u d, consumes p v u -> defpt F v = Some d -> reach d p
  }.

  (* the property: every chain from an origin to a use is covered by an edge *)
  Definition covers_chains (S : fact -> Prop) : Prop :=
    forall m p0 v0 vn l p u, is_origin m p0 v0 -> chain m v0 vn l -> consumes p vn u -> S (Edge m u).
End Rules.

(* ------------------------------------------------ fact sets with fast membership ------------------------------- *)

(* map of sets / map of maps of sets over positive keys; a missing key is the empty set *)
Definition ms := PositiveMap.t PositiveSet.t.
Definition ms_get (k : positive) (m : ms) : PositiveSet.t :=
  match PositiveMap.find k m with Some b => b | None => PositiveSet.empty end.
Definition ms_mem (k x : positive) (m : ms) : bool := PositiveSet.mem x (ms_get k m).
Definition ms_add (k x : positive) (m : ms) : ms := PositiveMap.add k (PositiveSet.add x (ms_get k m)) m.

Definition mm := PositiveMap.t ms.
Definition mm_get (p : positive) (m : mm) : ms :=
  match PositiveMap.find p m with Some a => a | None => PositiveMap.empty _ end.
Definition mm_mem (p v x : positive) (m : mm) : bool := ms_mem v x (mm_get p m).
Definition mm_add (p v x : positive) (m : mm) : mm := PositiveMap.add p (ms_add v x (mm_get p m)) m.

Record fset := { fs_marks : mm;      (* point -> value -> marks *)
                 fs_edges : ms }.    (* mark -> summary nodes *)

Definition fs_empty : fset := {| fs_marks := PositiveMap.empty _; fs_edges := PositiveMap.empty _ |}.

Definition mem_mark (s : fset) (p : point) (v : value) (m : mark) : bool := mm_mem p v m (fs_marks s).

Definition mem_edge (s : fset) (m : mark) (u : unode) : bool := ms_mem m u (fs_edges s).

Definition fs_mem (s : fset) (f : fact) : bool :=
  match f with Mark p v m => mem_mark s p v m | Edge m u => mem_edge s m u end.

Definition fs_add (f : fact) (s : fset) : fset :=
  match f with
  | Mark p v m => {| fs_marks := mm_add p v m (fs_marks s); fs_edges := fs_edges s |}
  | Edge m u => {| fs_marks := fs_marks s; fs_edges := ms_add m u (fs_edges s) |}
  end.

Definition fs_build (l : list fact) : fset := fold_left (fun s f => fs_add f s) l fs_empty.

(* ------------------------------------------------ the validator ------------------------------------------------ *)

Inductive viol :=
| VOrigin (m : mark) (p : point) (v : value)
| VForward (p q : point) (v : value) (m : mark)
| VTransfer (p : point) (a r : value) (m : mark)
| VEdge (p : point) (v : value) (m : mark) (u : unode).

Definition origin_marks (F : func) : PositiveSet.t :=
  fold_left (fun s o => PositiveSet.add (fst (fst o)) s) (f_origins F) PositiveSet.empty.

Definition viol_forward (s : fset) (p : point) (v : value) (m : mark) (qs : list point) : list viol :=
  flat_map (fun q => if mem_mark s q v m then [] else [VForward p q v m]) qs.

Definition viol_transfer (F : func) (s : fset) (p : point) (v : value) (m : mark) : list viol :=
  match PositiveMap.find p (f_instr F) with
  | Some i =>
      match i_def i with
      | Some r => if existsb (Pos.eqb v) (data_ops i) && idx_ok F i v m && negb (mem_mark s p r m)
                  then [VTransfer p v r m] else []
      | None => []
      end
  | None => []
  end.

Definition viol_edge (F : func) (s : fset) (om : PositiveSet.t) (p : point) (v : value) (m : mark) : list viol :=
  if PositiveSet.mem m om then
    flat_map (fun vu => if Pos.eqb (fst vu) v && negb (mem_edge s m (snd vu)) then [VEdge p v m (snd vu)] else [])
             (uses_at F p)
  else [].

Definition viol_fact (F : func) (s : fset) (om : PositiveSet.t) (f : fact) : list viol :=
  match f with
  | Mark p v m => viol_forward s p v m (succs F p) ++ viol_transfer F s p v m ++ viol_edge F s om p v m
  | Edge _ _ => []
  end.

Definition viol_origins (F : func) (s : fset) : list viol :=
  flat_map (fun o => match o with (m, p, v) => if mem_mark s p v m then [] else [VOrigin m p v] end) (f_origins F).

(* all violated rule instances of R in the fact list l *)
Definition violations (F : func) (l : list fact) : list viol :=
  let s := fs_build l in
  let om := origin_marks F in
  viol_origins F s ++ fold_left (fun acc f => viol_fact F s om f ++ acc) l [].   (* fold_left: constant stack *)

Definition check_closed (F : func) (l : list fact) : bool :=
  match violations F l with [] => true | _ :: _ => false end.

(* ------------------------------------------------ SSA well-formedness, boolean ----------------------------------- *)

Fixpoint bfs (sc : point -> list point) (fuel : nat) (work : list point) (seen : PositiveSet.t) : PositiveSet.t :=
  match fuel with
  | O => seen
  | S fuel' =>
      match work with
      | [] => seen
      | x :: w => if PositiveSet.mem x seen then bfs sc fuel' w seen
                  else bfs sc fuel' (sc x ++ w) (PositiveSet.add x seen)
      end
  end.

(* every BFS step pops one work item; at most 1 + (number of CFG edges) items are ever pushed *)
Definition bfs_fuel (F : func) : nat :=
  S (S (PositiveMap.fold (fun _ l n => length l + n) (f_succ F) O)).

Definition reach_set (F : func) (d : point) : PositiveSet.t := bfs (succs F) (bfs_fuel F) [d] PositiveSet.empty.

(* (d, p) pairs: the value defined at d is used at p *)
Definition need_pairs (F : func) : list (point * point) :=
  flat_map (fun pi => flat_map (fun a => match defpt F a with Some d => [(d, fst pi)] | None => [] end) (data_ops (snd pi)))
           (PositiveMap.elements (f_instr F))
  ++ flat_map (fun pl => flat_map (fun vu => match defpt F (fst vu) with Some d => [(d, fst pl)] | None => [] end) (snd pl))
           (PositiveMap.elements (f_uses F)).

Definition group_pairs (l : list (point * point)) : PositiveMap.t (list point) :=
  fold_left (fun g dp => let ps := match PositiveMap.find (fst dp) g with Some ps => ps | None => [] end in
                         PositiveMap.add (fst dp) (snd dp :: ps) g) l (PositiveMap.empty _).

Definition check_defs (F : func) : bool :=
  forallb (fun pi => match i_def (snd pi) with
                     | Some r => match defpt F r with Some d => Pos.eqb d (fst pi) | None => false end
                     | None => true end) (PositiveMap.elements (f_instr F))
  && forallb (fun o => match o with (m, p, v) => match defpt F v with Some d => Pos.eqb d p | None => false end end)
             (f_origins F).

Definition check_reaches (F : func) : bool :=
  forallb (fun dps => let r := reach_set F (fst dps) in forallb (fun p => PositiveSet.mem p r) (snd dps))
          (PositiveMap.elements (group_pairs (need_pairs F))).

Definition check_wf_ssa (F : func) : bool := check_defs F && check_reaches F.

(* ------------------------------------------------ executable chain search (for examples and the driver) ---------- *)

(* values reachable from the origin's value in the operand graph, by a fuelled closure: the executable counterpart of
   [chain]; used to count non-vacuous functions and to produce the list of required edges *)
Definition step_values (F : func) (m : mark) (vs : PositiveSet.t) : PositiveSet.t :=
  PositiveMap.fold (fun _ i acc =>
    match i_def i with
    | Some r => if existsb (fun a => PositiveSet.mem a vs && idx_ok F i a m) (data_ops i) then PositiveSet.add r acc else acc
    | None => acc
    end) (f_instr F) vs.

Fixpoint chain_values (F : func) (m : mark) (fuel : nat) (vs : PositiveSet.t) : PositiveSet.t :=
  match fuel with
  | O => vs
  | S k => let vs' := step_values F m vs in
           if PositiveSet.equal vs' vs then vs else chain_values F m k vs'
  end.

Definition required_edges (F : func) (fuel : nat) : list (mark * unode) :=
  flat_map (fun o => match o with (m, _, v0) =>
      let vs := chain_values F m fuel (PositiveSet.singleton v0) in
      flat_map (fun pl => flat_map (fun vu => if PositiveSet.mem (fst vu) vs then [(m, snd vu)] else []) (snd pl))
               (PositiveMap.elements (f_uses F)) end) (f_origins F).

(* ------------------------------------------------ construction from association lists (examples, tests) ---------- *)

Definition map_of_list {A} (l : list (positive * A)) : PositiveMap.t A :=
  fold_right (fun kv m => PositiveMap.add (fst kv) (snd kv) m) (PositiveMap.empty A) l.

Definition mk_func (instrs : list (point * instr)) (succ : list (point * list point)) (defs : list (value * point))
           (origins : list (mark * point * value)) (tuples : list (mark * (value * N)))
           (uses : list (point * list (value * unode))) : func :=
  {| f_instr := map_of_list instrs; f_succ := map_of_list succ; f_def := map_of_list defs; f_origins := origins;
     f_tuple := map_of_list tuples; f_uses := map_of_list uses |}.
