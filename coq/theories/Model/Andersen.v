(* Andersen-style inclusion-based points-to analysis with on-the-fly call-graph construction for muSSA.
   Executable model + the declarative constraint system it solves (definitions only; proofs in Proofs/Andersen*.v).

   What is modelled after /repo/internal/pointer (gen.go, solve.go): one node per SSA register / parameter / free
   variable of a function (context-insensitive: free variables "are treated like global variables"), one node per
   abstract cell of an allocation site (field-sensitive, arrays/slices/channels smashed to one element cell, maps to a
   key and a value cell), one result node per function; addr / copy / load / store / offset constraints; closures
   (MakeClosure copies the bindings to the callee's free-variable nodes); static calls; dynamic calls resolved when a
   function label reaches the callee operand; interface invokes resolved by the dynamic type tag of the tagged objects
   reaching the receiver operand (method table lookup = prog.LookupMethod); type assertions filter by tag; constraints
   of a function are generated only once it is reachable (genFunc on demand).
   NOT modelled: the HVN/HU pre-solver optimisation (hvn.go, opt.go), the difference-propagation worklist of solve.go
   (a saturating chaotic-iteration solver over finite label sets is used instead: both compute the least solution), reflection (reflect.go), the intrinsics
   table, context-sensitive contours of small functions (the translator clones such callees per static call site),
   tuples/multiple results, struct values in registers, append/copy. *)
From Coq Require Import List NArith PArith Bool FMapPositive.
From Argot Require Import Lang.MuSSA.
Import ListNotations.

Inductive node := NReg (f : fname) (r : reg) | NCell (s : site) (off : N) | NRet (f : fname).
Inductive label := LObj (s : site) (off : N) | LBox (s : site) (t : tag) | LFun (f : fname).
Inductive fact := FPts (n : node) (l : label) | FReach (f : fname) | FEdge (cs : site) (g : fname).

Definition acell (k : okind) (off : N) : N :=
  match k with KStruct => off | KArr st => N.modulo off st end.

(* abstraction of a pointer to cell [off] of object [ob] *)
Definition lab_of (ob : obj) (off : N) : label :=
  match otag ob with
  | Some t => LBox (osite ob) t
  | None => LObj (osite ob) (acell (okd ob) off)
  end.

Definition cell_node (ob : obj) (i : nat) : node := NCell (osite ob) (acell (okd ob) (N.of_nat i)).

(* ------------------------------------------------------------------------------ declarative constraint system *)
Record sol := { pts : node -> label -> Prop; reach : fname -> Prop; edge : site -> fname -> Prop }.

Definition holds (S : sol) (x : fact) : Prop :=
  match x with FPts n l => pts S n l | FReach f => reach S f | FEdge cs g => edge S cs g end.

Definition op_pts (S : sol) (f : fname) (o : operand) (l : label) : Prop :=
  match o with
  | OReg r => pts S (NReg f r) l
  | OGlobal g => l = LObj g 0
  | OFun g => l = LFun g
  | OConst => False
  end.

Definition flows (S : sol) (f : fname) (o : operand) (n : node) : Prop := forall l, op_pts S f o l -> pts S n l.
Definition sub (S : sol) (n1 n2 : node) : Prop := forall l, pts S n1 l -> pts S n2 l.

Fixpoint bind_ok (S : sol) (f : fname) (args : list operand) (params : list reg) (g : fname) : Prop :=
  match args, params with
  | a :: args', p :: ps => flows S f a (NReg g p) /\ bind_ok S f args' ps g
  | _, _ => True
  end.

Definition call_ok (S : sol) (P : prog) (f : fname) (d : reg) (cs : site) (g : fname) (args : list operand) : Prop :=
  reach S g /\ edge S cs g /\
  (forall gfn, find_func P g = Some gfn -> bind_ok S f args (fparams gfn) g) /\
  sub S (NRet g) (NReg f d).

Definition invoke_ok (S : sol) (P : prog) (f : fname) (d : reg) (cs : site) (s : site) (g : fname) (args : list operand) : Prop :=
  reach S g /\ edge S cs g /\
  (forall gfn, find_func P g = Some gfn ->
     match fparams gfn with
     | p0 :: ps => sub S (NCell s 0) (NReg g p0) /\ bind_ok S f args ps g
     | [] => True
     end) /\
  sub S (NRet g) (NReg f d).

Definition instr_ok (S : sol) (P : prog) (f : fname) (i : instr) : Prop :=
  match i with
  | IAlloc d s k n => pts S (NReg f d) (LObj s 0)
  | ICopy d o => flows S f o (NReg f d)
  | IPhi d es => forall b o, In (b, o) es -> flows S f o (NReg f d)
  | IScalar _ => True
  | ILoad d a => forall s off, op_pts S f a (LObj s off) -> sub S (NCell s off) (NReg f d)
  | IStore a v => forall s off, op_pts S f a (LObj s off) -> flows S f v (NCell s off)
  | IFieldAddr d b k => forall s off, op_pts S f b (LObj s off) -> pts S (NReg f d) (LObj s (off + k))
  | IIndexAddr d b w => forall s off, op_pts S f b (LObj s off) -> pts S (NReg f d) (LObj s w)
  | IMakeClosure d g bs =>
      pts S (NReg f d) (LFun g) /\ (forall gfn, find_func P g = Some gfn -> bind_ok S f bs (ffree gfn) g)
  | IMakeIface d s t x => pts S (NReg f d) (LBox s t) /\ flows S f x (NCell s 0)
  | ITypeAssert d x t => forall s, op_pts S f x (LBox s t) -> sub S (NCell s 0) (NReg f d)
  | ICall d cs c args =>
      match c with
      | CStatic g => call_ok S P f d cs g args
      | CDyn x => forall g, op_pts S f x (LFun g) -> call_ok S P f d cs g args
      | CInvoke x m => forall s t g, op_pts S f x (LBox s t) -> lookup_m P t m = Some g -> invoke_ok S P f d cs s g args
      end
  end.

Definition term_ok (S : sol) (f : fname) (t : term) : Prop :=
  match t with TReturn o => flows S f o (NRet f) | _ => True end.

(* S is a post-fixpoint of the constraint system of P *)
Definition closed (P : prog) (S : sol) : Prop :=
  (forall r, In r (roots P) -> reach S r) /\
  (forall f fn, In (f, fn) (funcs P) -> reach S f ->
     forall blk, In blk (fblocks fn) ->
       (forall i, In i (binstrs blk) -> instr_ok S P f i) /\ term_ok S f (bterm blk)).

(* derived call graph *)
Definition calls_in (fn : func) (cs : site) : Prop :=
  exists blk d c args, In blk (fblocks fn) /\ In (ICall d cs c args) (binstrs blk).

Definition cg_edge (P : prog) (S : sol) (f g : fname) : Prop :=
  exists fn cs, In (f, fn) (funcs P) /\ calls_in fn cs /\ edge S cs g.

Inductive cg_reach (P : prog) (S : sol) : fname -> Prop :=
| cr_root r : In r (roots P) -> cg_reach P S r
| cr_step f g : cg_reach P S f -> cg_edge P S f g -> cg_reach P S g.

(* -------------------------------------------------------------------------------------- finite solutions *)
Definition label_eqb (a b : label) : bool :=
  match a, b with
  | LObj s o, LObj s' o' => Pos.eqb s s' && N.eqb o o'
  | LBox s t, LBox s' t' => Pos.eqb s s' && Pos.eqb t t'
  | LFun f, LFun f' => Pos.eqb f f'
  | _, _ => false
  end.

Fixpoint lmem (l : label) (ls : list label) : bool :=
  match ls with [] => false | x :: r => label_eqb x l || lmem l r end.

Fixpoint pmem (x : positive) (xs : list positive) : bool :=
  match xs with [] => false | y :: r => Pos.eqb y x || pmem x r end.

Module PM := PositiveMap.

(* finite label sets with logarithmic membership: site -> (cell+1) -> (), site -> tag -> (), function -> () *)
Record lset := { ls_obj : PM.t (PM.t unit); ls_box : PM.t (PM.t unit); ls_fun : PM.t unit }.

Definition ls_empty : lset := {| ls_obj := PM.empty _; ls_box := PM.empty _; ls_fun := PM.empty _ |}.

Definition mem1 (m : PM.t unit) (a : positive) : bool :=
  match PM.find a m with Some _ => true | None => false end.

Definition mem2 (m : PM.t (PM.t unit)) (a b : positive) : bool :=
  match PM.find a m with Some m' => mem1 m' b | None => false end.

Definition add2 (m : PM.t (PM.t unit)) (a b : positive) : PM.t (PM.t unit) :=
  PM.add a (PM.add b tt (match PM.find a m with Some m' => m' | None => PM.empty _ end)) m.

Definition ls_mem (l : label) (s : lset) : bool :=
  match l with
  | LObj a o => mem2 (ls_obj s) a (N.succ_pos o)
  | LBox a t => mem2 (ls_box s) a t
  | LFun f => mem1 (ls_fun s) f
  end.

Definition ls_add (l : label) (s : lset) : lset :=
  match l with
  | LObj a o => {| ls_obj := add2 (ls_obj s) a (N.succ_pos o); ls_box := ls_box s; ls_fun := ls_fun s |}
  | LBox a t => {| ls_obj := ls_obj s; ls_box := add2 (ls_box s) a t; ls_fun := ls_fun s |}
  | LFun f => {| ls_obj := ls_obj s; ls_box := ls_box s; ls_fun := PM.add f tt (ls_fun s) |}
  end.

Definition keys2 (m : PM.t (PM.t unit)) : list (positive * positive) :=
  flat_map (fun am => map (fun bu => (fst am, fst bu)) (PM.elements (snd am))) (PM.elements m).

Definition ls_elements (s : lset) : list label :=
  map (fun ab => LObj (fst ab) (Pos.pred_N (snd ab))) (keys2 (ls_obj s)) ++
  map (fun ab => LBox (fst ab) (snd ab)) (keys2 (ls_box s)) ++
  map (fun fu => LFun (fst fu)) (PM.elements (ls_fun s)).

Record fsol := {
  m_reg : PM.t (PM.t lset);
  m_cell : PM.t (PM.t lset);
  m_ret : PM.t lset;
  m_reach : PM.t unit;
  m_edge : PM.t (list fname) }.

Definition empty_fsol : fsol :=
  {| m_reg := PM.empty _; m_cell := PM.empty _; m_ret := PM.empty _; m_reach := PM.empty _; m_edge := PM.empty _ |}.

Definition get2 (m : PM.t (PM.t lset)) (a b : positive) : lset :=
  match PM.find a m with
  | Some m' => match PM.find b m' with Some l => l | None => ls_empty end
  | None => ls_empty
  end.

Definition gets (m : PM.t lset) (a : positive) : lset :=
  match PM.find a m with Some l => l | None => ls_empty end.

Definition get1 {A} (m : PM.t (list A)) (a : positive) : list A :=
  match PM.find a m with Some l => l | None => [] end.

Definition set2 (m : PM.t (PM.t lset)) (a b : positive) (ls : lset) : PM.t (PM.t lset) :=
  PM.add a (PM.add b ls (match PM.find a m with Some m' => m' | None => PM.empty _ end)) m.

Definition fset (F : fsol) (n : node) : lset :=
  match n with
  | NReg f r => get2 (m_reg F) f r
  | NCell s off => get2 (m_cell F) s (N.succ_pos off)
  | NRet f => gets (m_ret F) f
  end.

Definition fpts (F : fsol) (n : node) : list label := ls_elements (fset F n).

Definition freach (F : fsol) (f : fname) : bool :=
  match PM.find f (m_reach F) with Some _ => true | None => false end.

Definition fedges (F : fsol) (cs : site) : list fname := get1 (m_edge F) cs.

Definition holdsb (F : fsol) (x : fact) : bool :=
  match x with
  | FPts n l => ls_mem l (fset F n)
  | FReach f => freach F f
  | FEdge cs g => pmem g (fedges F cs)
  end.

Definition add_fact (x : fact) (F : fsol) : fsol :=
  if holdsb F x then F else
  match x with
  | FPts (NReg f r) l =>
      {| m_reg := set2 (m_reg F) f r (ls_add l (get2 (m_reg F) f r)); m_cell := m_cell F; m_ret := m_ret F;
         m_reach := m_reach F; m_edge := m_edge F |}
  | FPts (NCell s off) l =>
      {| m_reg := m_reg F; m_cell := set2 (m_cell F) s (N.succ_pos off) (ls_add l (get2 (m_cell F) s (N.succ_pos off)));
         m_ret := m_ret F; m_reach := m_reach F; m_edge := m_edge F |}
  | FPts (NRet f) l =>
      {| m_reg := m_reg F; m_cell := m_cell F; m_ret := PM.add f (ls_add l (gets (m_ret F) f)) (m_ret F);
         m_reach := m_reach F; m_edge := m_edge F |}
  | FReach f =>
      {| m_reg := m_reg F; m_cell := m_cell F; m_ret := m_ret F; m_reach := PM.add f tt (m_reach F); m_edge := m_edge F |}
  | FEdge cs g =>
      {| m_reg := m_reg F; m_cell := m_cell F; m_ret := m_ret F; m_reach := m_reach F;
         m_edge := PM.add cs (g :: get1 (m_edge F) cs) (m_edge F) |}
  end.

Definition interp (F : fsol) : sol :=
  {| pts := fun n l => In l (fpts F n);
     reach := fun f => freach F f = true;
     edge := fun cs g => In g (fedges F cs) |}.

(* ------------------------------------------------------------------- immediate consequences of a finite solution *)
Definition op_labels (F : fsol) (f : fname) (o : operand) : list label :=
  match o with
  | OReg r => fpts F (NReg f r)
  | OGlobal g => [LObj g 0]
  | OFun g => [LFun g]
  | OConst => []
  end.

Definition flow (F : fsol) (f : fname) (o : operand) (n : node) : list fact := map (FPts n) (op_labels F f o).
Definition subn (F : fsol) (n1 n2 : node) : list fact := map (FPts n2) (fpts F n1).

Fixpoint bind_facts (F : fsol) (f : fname) (args : list operand) (params : list reg) (g : fname) : list fact :=
  match args, params with
  | a :: args', p :: ps => flow F f a (NReg g p) ++ bind_facts F f args' ps g
  | _, _ => []
  end.

Definition call_facts (P : prog) (F : fsol) (f : fname) (d : reg) (cs : site) (g : fname) (args : list operand) : list fact :=
  FReach g :: FEdge cs g ::
  (match find_func P g with Some gfn => bind_facts F f args (fparams gfn) g | None => [] end) ++
  subn F (NRet g) (NReg f d).

Definition invoke_facts (P : prog) (F : fsol) (f : fname) (d : reg) (cs : site) (s : site) (g : fname) (args : list operand)
  : list fact :=
  FReach g :: FEdge cs g ::
  (match find_func P g with
   | Some gfn =>
       match fparams gfn with
       | p0 :: ps => subn F (NCell s 0) (NReg g p0) ++ bind_facts F f args ps g
       | [] => []
       end
   | None => []
   end) ++
  subn F (NRet g) (NReg f d).

Definition instr_facts (P : prog) (F : fsol) (f : fname) (i : instr) : list fact :=
  match i with
  | IAlloc d s k n => [FPts (NReg f d) (LObj s 0)]
  | ICopy d o => flow F f o (NReg f d)
  | IPhi d es => flat_map (fun bo => flow F f (snd bo) (NReg f d)) es
  | IScalar _ => []
  | ILoad d a =>
      flat_map (fun l => match l with LObj s off => subn F (NCell s off) (NReg f d) | _ => [] end) (op_labels F f a)
  | IStore a v =>
      flat_map (fun l => match l with LObj s off => flow F f v (NCell s off) | _ => [] end) (op_labels F f a)
  | IFieldAddr d b k =>
      flat_map (fun l => match l with LObj s off => [FPts (NReg f d) (LObj s (off + k))] | _ => [] end) (op_labels F f b)
  | IIndexAddr d b w =>
      flat_map (fun l => match l with LObj s off => [FPts (NReg f d) (LObj s w)] | _ => [] end) (op_labels F f b)
  | IMakeClosure d g bs =>
      FPts (NReg f d) (LFun g) ::
      match find_func P g with Some gfn => bind_facts F f bs (ffree gfn) g | None => [] end
  | IMakeIface d s t x => FPts (NReg f d) (LBox s t) :: flow F f x (NCell s 0)
  | ITypeAssert d x t =>
      flat_map (fun l => match l with
                         | LBox s t' => if Pos.eqb t' t then subn F (NCell s 0) (NReg f d) else []
                         | _ => []
                         end) (op_labels F f x)
  | ICall d cs c args =>
      match c with
      | CStatic g => call_facts P F f d cs g args
      | CDyn x =>
          flat_map (fun l => match l with LFun g => call_facts P F f d cs g args | _ => [] end) (op_labels F f x)
      | CInvoke x m =>
          flat_map (fun l => match l with
                             | LBox s t =>
                                 match lookup_m P t m with Some g => invoke_facts P F f d cs s g args | None => [] end
                             | _ => []
                             end) (op_labels F f x)
      end
  end.

Definition term_facts (F : fsol) (f : fname) (t : term) : list fact :=
  match t with TReturn o => flow F f o (NRet f) | _ => [] end.

Definition block_facts (P : prog) (F : fsol) (f : fname) (blk : block) : list fact :=
  flat_map (instr_facts P F f) (binstrs blk) ++ term_facts F f (bterm blk).

Definition func_facts (P : prog) (F : fsol) (ffn : fname * func) : list fact :=
  if freach F (fst ffn) then flat_map (block_facts P F (fst ffn)) (fblocks (snd ffn)) else [].

Definition conseq (P : prog) (F : fsol) : list fact :=
  map FReach (roots P) ++ flat_map (func_facts P F) (funcs P).

(* verified validator: F is closed under the constraint system *)
Definition check_closed (P : prog) (F : fsol) : bool := forallb (holdsb F) (conseq P F).

(* saturating solver: chaotic iteration, one instruction at a time (facts derived from an instruction are added before
   the next instruction is looked at), repeated until a whole round adds nothing; the result is returned as [Done] only
   after the validator accepted it *)
Inductive result := Done (F : fsol) | OutOfFuel (F : fsol).

Definition add_all (xs : list fact) (Fc : fsol * bool) : fsol * bool :=
  fold_right (fun x Fc => if holdsb (fst Fc) x then Fc else (add_fact x (fst Fc), true)) Fc xs.

Definition step_instr (P : prog) (f : fname) (Fc : fsol * bool) (i : instr) : fsol * bool :=
  add_all (instr_facts P (fst Fc) f i) Fc.

Definition step_block (P : prog) (f : fname) (Fc : fsol * bool) (blk : block) : fsol * bool :=
  let Fc1 := fold_left (step_instr P f) (binstrs blk) Fc in
  add_all (term_facts (fst Fc1) f (bterm blk)) Fc1.

Definition step_func (P : prog) (Fc : fsol * bool) (ffn : fname * func) : fsol * bool :=
  if freach (fst Fc) (fst ffn) then fold_left (step_block P (fst ffn)) (fblocks (snd ffn)) Fc else Fc.

Definition round (P : prog) (F : fsol) : fsol * bool :=
  fold_left (step_func P) (funcs P) (add_all (map FReach (roots P)) (F, false)).

Fixpoint solve (fuel : nat) (P : prog) (F : fsol) : result :=
  match fuel with
  | O => OutOfFuel F
  | S k =>
      let Fc := round P F in
      if snd Fc then solve k P (fst Fc)
      else if check_closed P (fst Fc) then Done (fst Fc) else OutOfFuel (fst Fc)
  end.

Definition analyze (fuel : nat) (P : prog) : result := solve fuel P empty_fsol.

(* ------------------------------------------------------------------------ call-graph reachability (worklist) *)
(* model of dataflow.CallGraphReachable: DFS with an explicit frontier over the successor lists of the call graph *)
Fixpoint cg_reachable (fuel : nat) (succs : fname -> list fname) (frontier : list fname) (seen : PM.t unit)
  : option (PM.t unit) :=
  match frontier with
  | [] => Some seen
  | f :: rest =>
      match fuel with
      | O => None
      | S k =>
          let new := filter (fun g => match PM.find g seen with Some _ => false | None => true end) (succs f) in
          let seen' := fold_right (fun g s => PM.add g tt s) seen new in
          cg_reachable k succs (new ++ rest) seen'
      end
  end.

Definition cg_reachable_from (fuel : nat) (succs : fname -> list fname) (entries : list fname) : option (PM.t unit) :=
  cg_reachable fuel succs entries (fold_right (fun g s => PM.add g tt s) (PM.empty _) entries).
