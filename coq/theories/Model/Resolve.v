(** Model of how a call site obtains the summary of its callee when dataflow contracts (dataflow-specs) are present:
    analysis/dataflow/state.go [ResolveCallee], [LoadExternalContractSummary], [HasExternalContractSummary],
    [linkContracts]; callgraph.go [ComputeMethodImplementations]/[addContractSummaryGraph]; inter_procedural.go
    [BuildGraph] STEP 2 / STEP 3 ([resolveCalleeSummary], [findSummary]); intra_procedural.go [ShouldBuildSummary]; and
    of the one step the taint visitor takes through a callee summary (taint/dataflow_visitor.go, cases CallNodeArg /
    ParamNode / ReturnValNode).  Executable definitions only; proofs in Proofs/Resolve.v. *)
From Coq Require Import List ZArith Bool Arith.
Import ListNotations.
From Argot Require Import Model.Summ.

(** Functions are identified by a number (their String()); interface methods by a number (the method key
    "<interface type>.<method>"). *)
Record fn := mk_fn {
  f_id : nat;
  f_sig : sig;                 (* what NewSummaryGraph sees: #params incl. receiver, return-node tuples *)
  f_ikey : option nat          (* s.keys[f.String()]: the interface-method key f implements, if any *)
}.

(** How the callee of a call node was determined (state.go CalleeType). *)
Inductive ctype := Static | CallGraph | InterfaceContract | InterfaceMethod.

Definition ctype_is_ic (t : ctype) : bool := match t with InterfaceContract => true | _ => false end.

(** The analyzer state after NewAnalyzerState:
    - [w_fun_contract f] : the summary of a function contract whose key equals f.String() (linkContracts built its
      graph on f itself because f is reachable);
    - [w_iface_contract k] : DataFlowContracts[k] is non-nil for the interface-method key k: the contract's summary and
      the REPRESENTATIVE implementation addContractSummaryGraph happened to build the graph on (the first implementing
      method met while iterating over maps: any implementation);
    - [w_body f] : the param->param / param->result edges of the summary the intra-procedural analysis computes from
      the body of f (eagerly or on demand);
    - [w_predef f] : a predefined std summary (summaries.SummaryOfFunc). *)
Record world := mk_world {
  w_fun_contract : nat -> option summary;
  w_iface_contract : nat -> option (summary * fn);
  w_body : nat -> list edge;
  w_predef : nat -> option summary
}.

(** A call instruction as ResolveCallee sees it. *)
Record callsite := mk_callsite {
  cs_static : option fn;       (* instr.Common().StaticCallee() *)
  cs_mkey : option nat;        (* lang.InstrMethodKey: Some k iff the call is an interface invoke *)
  cs_cg : list fn;             (* callees of this site in the pointer-analysis call graph *)
  cs_impls : list fn           (* ImplementationsByType[k] *)
}.

(** ResolveCallee(instr, useContracts). *)
Definition resolve_callee (w : world) (use_contracts : bool) (cs : callsite) : list (fn * ctype) :=
  match cs_static cs with
  | Some f => [(f, Static)]
  | None =>
    let ic := if use_contracts then
                match cs_mkey cs with
                | Some k => match w_iface_contract w k with Some (_, rep) => Some rep | None => None end
                | None => None
                end
              else None in
    match ic with
    | Some rep => [(rep, InterfaceContract)]
    | None =>
      match cs_cg cs with
      | _ :: _ => map (fun f => (f, CallGraph)) (cs_cg cs)
      | [] => match cs_mkey cs with
              | Some _ => map (fun f => (f, InterfaceMethod)) (cs_impls cs)
              | None => []
              end
      end
    end
  end.

(** The graph of a contract: NewSummaryGraph(nil, f, ..) + PopulateGraphFromSummary = Summ.apply on f's signature. *)
Definition contract_graph (s : summary) (f : fn) : graph := apply s (f_sig f).

(** LoadExternalContractSummary(node): interface contract first (only for an invoke whose callee was resolved through
    the interface contract), then the function contract of the callee. *)
Definition load_external (w : world) (cs : callsite) (f : fn) (t : ctype) : option graph :=
  let via_iface :=
    match cs_mkey cs with
    | Some k => if ctype_is_ic t then
                  match w_iface_contract w k with Some (s, rep) => Some (contract_graph s rep) | None => None end
                else None
    | None => None
    end in
  match via_iface with
  | Some g => Some g
  | None => match w_fun_contract w (f_id f) with Some s => Some (contract_graph s f) | None => None end
  end.

(** HasExternalContractSummary / ShouldBuildSummary (no pkg-filter, not on demand). *)
Definition has_external_contract (w : world) (f : fn) : bool :=
  match f_ikey f with
  | Some k => match w_iface_contract w k with Some _ => true | None => false end
  | None => match w_fun_contract w (f_id f) with Some _ => true | None => false end
  end.

Definition should_build_summary (w : world) (f : fn) : bool :=
  match w_predef w (f_id f) with Some _ => false | None => negb (has_external_contract w f) end.

(** BuildGraph STEP 2 overwrites g.Summaries[callee] with the contract graph for every call node that has one.  The
    only overwrite another call node can later read back (STEP 3, findSummary) is the interface-contract graph stored
    under its representative: [linked_rep w prog f] is that graph, if some invoke site of the program resolved to f
    through an interface contract. *)
Fixpoint linked_rep (w : world) (prog : list callsite) (f : fn) : option graph :=
  match prog with
  | [] => None
  | cs :: rest =>
    match cs_static cs, cs_mkey cs with
    | None, Some k =>
      match w_iface_contract w k with
      | Some (s, rep) => if Nat.eqb (f_id rep) (f_id f) then Some (contract_graph s rep) else linked_rep w rest f
      | None => linked_rep w rest f
      end
    | _, _ => linked_rep w rest f
    end
  end.

Definition body_graph (w : world) (f : fn) : graph := mk_graph (w_body w (f_id f)) (w_body w (f_id f)).

(** The summary a call node ends up with: STEP 2 (contract), else STEP 3 (resolveCalleeSummary: the summary stored
    for the callee - possibly a representative's contract graph, else the summary of the body - else a predefined
    one). *)
Definition callee_graph (w : world) (prog : list callsite) (cs : callsite) (ft : fn * ctype) : graph :=
  let (f, t) := ft in
  match load_external w cs f t with
  | Some g => g
  | None =>
    if ctype_is_ic t then
      match w_predef w (f_id f) with Some s => contract_graph s f | None => empty_graph end
    else
      match w_fun_contract w (f_id f), linked_rep w prog f with
      | None, Some g => g
      | _, _ => match w_predef w (f_id f) with
                | Some s => contract_graph s f
                | None => body_graph w f
                end
      end
  end.

(** One visitor step through a call: CallNodeArg i -> ParamNode i of the callee summary -> its out-edges (the
    out-edges of a parameter reached from another node of the same summary are NOT followed, so there is no
    transitivity inside a contract graph) -> ReturnValNode j -> call node, resp. ParamNode k -> CallNodeArg k. *)
Definition flow_ret (w : world) (prog : list callsite) (cs : callsite) (i j : nat) : bool :=
  existsb (fun ft => flows_to_ret (callee_graph w prog cs ft) i j) (resolve_callee w true cs).

Definition flow_arg (w : world) (prog : list callsite) (cs : callsite) (i k : nat) : bool :=
  existsb (fun ft => flows_to_param (callee_graph w prog cs ft) i k) (resolve_callee w true cs).

(** What the dataflow-specs entry [s] attached to a function with signature [sg] says (the property's reading). *)
Definition spec_ret (s : summary) (sg : sig) (i j : nat) : bool :=
  existsb (Z.eqb (Z.of_nat j)) (nth i (s_rets s) []) && (i <? nparams sg) && existsb (fun len => j <? len) (ret_lens sg).

Definition spec_arg (s : summary) (sg : sig) (i k : nat) : bool :=
  existsb (Z.eqb (Z.of_nat k)) (nth i (s_args s) []) && (i <? nparams sg) && (k <? nparams sg).

(** Call forms used by the tie (tools/props/c10.py). *)
Definition static_call (f : fn) : callsite := mk_callsite (Some f) None [] [].
Definition funcvalue_call (fs : list fn) : callsite := mk_callsite None None fs [].
Definition invoke_call (k : nat) (cg impls : list fn) : callsite := mk_callsite None (Some k) cg impls.
