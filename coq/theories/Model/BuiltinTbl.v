(* Model/BuiltinTbl.v -- row types and evaluation of the builtin-call tables regenerated from
   analysis/dataflow/builtins.go (coq/gen/GenBuiltins.v, T-gen).  Executable definitions only. *)
From Coq Require Import List String Bool Arith.
Import ListNotations.
Open Scope string_scope.

(* one `case` of doBuiltinCall that returns true *)
Record brow := { b_name : string;          (* callCommon.Value.Name() *)
                 b_arity : option nat;     (* Some k: the case only applies when len(Args) == k *)
                 b_all : bool;             (* transfers every operand to the call value by a loop over Args *)
                 b_pos : list nat }.       (* operand positions transferred to the call value explicitly *)

Record gobuiltin := { g_name : string; g_value : bool; g_lo : nat; g_hi : option nat }.

(* the row applies at arity n and the result receives the marks of all n operands *)
Definition transfers_all (r : brow) (n : nat) : bool :=
  match b_arity r with Some k => Nat.eqb k n | None => true end
  && (b_all r || forallb (fun i => existsb (Nat.eqb i) (b_pos r)) (seq 0 n)).

Definition is_handled (tbl : list (string * option nat)) (name : string) (n : nat) : bool :=
  existsb (fun h => String.eqb (fst h) name && match snd h with Some k => Nat.eqb k n | None => true end) tbl.

Definition some_row_transfers_all (tbl : list brow) (name : string) (n : nat) : bool :=
  existsb (fun r => String.eqb (b_name r) name && transfers_all r n) tbl.

(* builtins whose result carries data of the operands (the property's "handled builtins"); cap (by design: "taking the
   capacity does not propagate taint"), copy (returns a count) and recover (reported as an unsound feature) do not *)
Definition data_builtin (name : string) : bool :=
  existsb (String.eqb name) ["append"; "len"; "min"; "max"; "complex"; "real"; "imag"; "ssa:wrapnilchk"].

(* arity classes examined for a builtin: every arity lo..hi when hi is finite; lo..4 and the class ">= 5" (represented by
   None) for variadic builtins.  For the class ">= 5" only a row with no arity guard and an all-operands loop can be right. *)
Definition arities (g : gobuiltin) : list (option nat) :=
  match g_hi g with
  | Some h => map Some (seq (g_lo g) (S h - g_lo g))
  | None => map Some (seq (g_lo g) (5 - g_lo g)) ++ [None]
  end.

Definition row_any_arity (tbl : list brow) (name : string) : bool :=
  existsb (fun r => String.eqb (b_name r) name && match b_arity r with None => b_all r | Some _ => false end) tbl.

Definition builtin_ok (handled : list (string * option nat)) (tbl : list brow) (g : gobuiltin) : bool :=
  negb (g_value g) || negb (data_builtin (g_name g)) ||
  forallb (fun a =>
    match a with
    | Some n => negb (is_handled handled (g_name g) n) || some_row_transfers_all tbl (g_name g) n
    | None => negb (is_handled handled (g_name g) 5) || row_any_arity tbl (g_name g)
    end) (arities g).

(* every value-returning builtin of the language is known to the table's classification *)
Definition builtin_classified (g : gobuiltin) : bool :=
  negb (g_value g) || data_builtin (g_name g) || existsb (String.eqb (g_name g)) ["cap"; "copy"; "recover"].

(* the "x.Error() of the builtin error interface" special case: every condition of isHandledBuiltinCall / doBuiltinCall that
   mentions the method name Error must be exactly   invoke /\ method name = "Error" /\ zero arguments   (atoms sorted by the
   generator); an `Error` method WITH arguments is an ordinary call and must get a call node *)
Definition error_guard_spec : list string := ["invoke"; "method-name=Error"; "nargs=0"].

Definition guard_exact (g : string * list string) : bool :=
  Nat.eqb (List.length (snd g)) (List.length error_guard_spec)
  && forallb (fun ab => String.eqb (fst ab) (snd ab)) (combine (snd g) error_guard_spec).

(* the special case is present in both functions (node creation / edge building and the transfer function agree) *)
Definition guards_cover (gs : list (string * list string)) : bool :=
  existsb (fun g => String.eqb (fst g) "isHandledBuiltinCall") gs && existsb (fun g => String.eqb (fst g) "doBuiltinCall") gs.
