(* EscTable: the fixed side of the T-gen tie for C13/C14.
   - lverdict: what a case of analysis/escape.instructionLocality does (regenerated table coq/gen/GenLocality.v);
   - mem_access_spec: which SSA instruction kinds dereference a pointer-like operand at run time, i.e. access memory that
     another goroutine may reach through an alias of that operand.  Justification per entry (x/tools go/ssa doc):
       Store  *Addr = Val                      writes through Addr
       UnOp MUL   *X                           reads through X
       UnOp ARROW <-X                          receives from channel X (reads/writes the channel's buffer)
       Send   Chan <- X                        writes the channel's buffer
       MapUpdate  Map[Key] = Value             writes the map's hash table
       Lookup X[Index] (X a map)               reads the hash table (X a string: immutable, harmless to guard)
       Range  range X (X a map)                creates an iterator over the hash table (runtime.mapiterinit reads it)
       Next   next Iter (map iterator)         reads the hash table
       Select                                  sends/receives on States[i].Chan
     Address computations (FieldAddr, IndexAddr on *array or on a slice value), value operations (Field, Index, Extract,
     Phi, BinOp), conversions that do not read memory (ChangeType, ChangeInterface, MakeInterface, SliceToArrayPointer,
     Slice of a slice value or of *array), allocations, control flow and calls to functions (whose bodies are analysed in
     their own contexts) do not dereference.
   - kinds that dereference an operand and are NOT instructions with a callee body (in mem_access_spec since fix 913f0a4;
     the pinned tree classified them as always Local, confirmed with the race detector):
       Call of builtin append/copy/delete/clear/close, len/cap (on map, chan)     read or write through Args
       Convert []byte/[]rune -> string                                             reads the slice's backing array
     The table abstracts from the operand-type filter inside the builtin case (slices, maps and channels only; len/cap
     skip slices, whose header is a value): that part is covered by the race-detector scenarios. *)
From Coq Require Import List String Bool.
Import ListNotations.
Open Scope string_scope.

Inductive lverdict : Type := LLocal | LGuard (operand : string) | LNonLocal | LFallthrough | LUnknown.

Definition lverdict_eqb (a b : lverdict) : bool :=
  match a, b with
  | LLocal, LLocal | LNonLocal, LNonLocal | LFallthrough, LFallthrough | LUnknown, LUnknown => true
  | LGuard x, LGuard y => String.eqb x y
  | _, _ => false
  end.

Fixpoint find_entry (t : list (string * string * lverdict)) (k sub : string) : option lverdict :=
  match t with
  | [] => None
  | (k', s', v) :: r => if String.eqb k k' && String.eqb sub s' then Some v else find_entry r k sub
  end.

(* verdict of instruction kind k in sub-case sub: the entry for (k, sub), else the entry for the clause's remaining case
   (k, ""), else the default after the switch.  A clause that can fall out of the switch (LFallthrough) gets the default. *)
Definition table_verdict (t : list (string * string * lverdict)) (dflt : lverdict) (k sub : string) : lverdict :=
  match find_entry t k sub with
  | Some LFallthrough => dflt
  | Some v => v
  | None => match find_entry t k "" with
            | Some LFallthrough => dflt
            | Some v => v
            | None => dflt
            end
  end.

Definition mem_access_spec : list (string * string * string) :=
  [("Store", "", "Addr"); ("UnOp", "MUL", "X"); ("UnOp", "ARROW", "X"); ("Send", "", "Chan");
   ("MapUpdate", "", "Map"); ("Lookup", "", "X"); ("Range", "Map", "X"); ("Next", "", "Iter");
   ("Select", "each", "States.Chan");
   (* instructions without a callee body that dereference an operand: builtin calls and []byte/[]rune -> string *)
   ("Call", "builtin&name=append", "Call.Args.arg"); ("Call", "builtin&name=copy", "Call.Args.arg");
   ("Call", "builtin&name=delete", "Call.Args.arg"); ("Call", "builtin&name=clear", "Call.Args.arg");
   ("Call", "builtin&name=close", "Call.Args.arg"); ("Call", "builtin&name=len", "Call.Args.arg");
   ("Call", "builtin&name=cap", "Call.Args.arg"); ("Convert", "Slice", "X")].

Definition guarded_or_nonlocal (v : lverdict) (op : string) : bool :=
  match v with
  | LGuard o => String.eqb o op
  | LNonLocal => true
  | _ => false
  end.

Definition table_sound (t : list (string * string * lverdict)) (dflt : lverdict) : bool :=
  forallb (fun e => guarded_or_nonlocal (table_verdict t dflt (fst (fst e)) (snd (fst e))) (snd e)) mem_access_spec.

(* every instruction type of the ssa package gets a verdict that is not "unknown": either it has a case, or it takes the
   conservative default *)
Definition table_total (t : list (string * string * lverdict)) (dflt : lverdict) (instrs : list string) : bool :=
  forallb (fun k => match table_verdict t dflt k "" with LUnknown => false | _ => true end) instrs &&
  match dflt with LNonLocal => true | _ => false end.

(* transferFunction: instruction kinds whose execution can change the points-to/escape facts must have a handling case *)
Definition transfer_required : list string :=
  ["Alloc"; "MakeClosure"; "MakeMap"; "MakeChan"; "MakeSlice"; "FieldAddr"; "Field"; "IndexAddr"; "Store"; "UnOp"; "Send";
   "Slice"; "Select"; "Call"; "Go"; "Index"; "Lookup"; "MapUpdate"; "Next"; "Range"; "MakeInterface"; "TypeAssert";
   "Convert"; "ChangeInterface"; "ChangeType"; "SliceToArrayPointer"; "Phi"; "Extract"].
(* Defer/RunDefers run a call (at function exit) and therefore can change the facts as well *)
Definition transfer_required_defer : list string := ["Defer"; "RunDefers"].

Definition handled (t : list (string * bool)) (k : string) : bool :=
  existsb (fun e => String.eqb (fst e) k && snd e) t.
