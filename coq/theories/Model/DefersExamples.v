(** * Example CFGs for the non-vacuity witnesses of [Properties/C16.v] (definitions only) *)
From Coq Require Import List.
From Argot Require Import Model.Defers.
Import ListNotations.

(** if c() { defer A } else { defer B }; return  — a diamond with one defer on either side *)
Definition ex_diamond : cfg :=
  [ mkBlock [KOther] [1; 2];
    mkBlock [KDefer; KOther] [3];
    mkBlock [KOther; KDefer] [3];
    mkBlock [KRunDefers; KOther] [] ].
Definition ex_diamond_order : list nat := [0; 1; 2; 3].
Definition ex_diamond_order' : list nat := [3; 2; 0; 1].

(** for c() { defer A }; return  — a defer inside a loop *)
Definition ex_loop : cfg :=
  [ mkBlock [KOther] [1];
    mkBlock [KOther] [2; 3];
    mkBlock [KDefer; KOther] [1];
    mkBlock [KRunDefers; KOther] [] ].
Definition ex_loop_order : list nat := [0; 1; 2; 3].

(** the final state of a finished run, for stating examples *)
Definition final (o : outcome) : astate :=
  match o with Done st => st | OutOfFuel => mkA [] [] [] true end.
