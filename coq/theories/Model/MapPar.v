(** * Model of internal/funcutil/collections.go [MapParallel]  (C20)

    Executable, total, proof-free small-step model.  One transition = one scheduling decision.

<<
    func MapParallel[T, S any](a []T, f func(T) S, numRoutines int) []S {
        in := make(chan elt[T])                                   // unbuffered: send/receive = one rendezvous step
        go func() { defer close(in); for i, x := range a { in <- elt[T]{i, x} } }()          // PRODUCER
        out := make(chan elt[S])
        wg := &sync.WaitGroup{}
        if numRoutines <= 0 { numRoutines = 1 }
        wg.Add(numRoutines)
        for i := 0; i < numRoutines; i++ {
            go func() { defer wg.Done(); for x := range in { out <- elt[S]{x.idx, f(x.x)} } }()   // WORKER
        }
        go func() { wg.Wait(); close(out) }()                                                 // CLOSER
        xs := make([]elt[S], 0, len(out))
        for x := range out { xs = append(xs, x) }                                             // MAIN = COLLECTOR
        res := make([]S, len(xs))
        for _, x := range xs { res[x.idx] = x.x }
        return res
    }
>>
    Threads: main (spawns everything, then collects, then builds [res] by index), producer, [nw] workers, closer.
    Generic in the element types, the mapped function [f] and the zero value of [S] (Section variables). *)
From Coq Require Import List Arith Bool ZArith.
Import ListNotations.

Section MapPar.
  Variables A B : Type.
  Variable f : A -> B.
  Variable zero : B.                       (* the zero value [make([]S, n)] fills [res] with *)

  (** program counters *)
  Inductive mpc := MStart | MSpawn | MRange | MDone.      (* main: before [go producer] | spawning workers/closer
                                                             | [for x := range out] | returned *)
  Inductive ppc := PNone | PRun | PDone.                  (* producer: not started | in its loop | returned (in closed) *)
  Inductive cpc := CNone | CWait | CDone.                 (* closer: not started | in wg.Wait() | returned (out closed) *)
  Inductive wst :=                                        (* a worker *)
  | WRecv                                                 (*   at [for x := range in] *)
  | WHave (ix : nat * A)                                  (*   received x, about to evaluate f *)
  | WSend (iy : nat * B)                                  (*   blocked in [out <- elt{idx, f x}] *)
  | WDone.                                                (*   loop left, wg.Done() executed, returned *)

  Record state := mkState {
    st_nw : nat;                      (* numRoutines after clamping (constant) *)
    st_main : mpc;
    st_prod : ppc;
    st_unsent : list (nat * A);       (* the suffix of the indexed input not yet sent on [in] *)
    st_in_closed : bool;
    st_workers : list wst;            (* the workers spawned so far *)
    st_wg : nat;                      (* the WaitGroup counter *)
    st_closer : cpc;
    st_out_closed : bool;
    st_collected : list (nat * B);    (* [xs], in arrival order *)
    st_result : option (option (list B))   (* None: not returned; Some None: index panic; Some (Some res) *)
  }.

  (** [numRoutines] clamping *)
  Definition nworkers (nr : Z) : nat := if (nr <=? 0)%Z then 1 else Z.to_nat nr.

  (** [for i, x := range a] *)
  Definition indexed (xs : list A) : list (nat * A) := combine (seq 0 (length xs)) xs.

  Definition init (xs : list A) (nr : Z) : state :=
    mkState (nworkers nr) MStart PNone (indexed xs) false [] 0 CNone false [] None.

  (** scheduling decisions *)
  Inductive choice :=
  | CMain                 (* main: next spawn step, or leave [range out] once [out] is closed and build [res] *)
  | CProdSend (w : nat)   (* rendezvous on [in]: producer sends the next element, worker w receives it *)
  | CProdClose            (* producer: loop finished, deferred close(in), return *)
  | CWorkCompute (w : nat)(* worker w evaluates f *)
  | CWorkSend (w : nat)   (* rendezvous on [out]: worker w sends, main receives and appends *)
  | CWorkExit (w : nat)   (* worker w: [range in] sees closed channel, deferred wg.Done(), return *)
  | CCloser.              (* closer: wg.Wait() returns (counter = 0), close(out), return *)

  Fixpoint upd {X} (n : nat) (x : X) (l : list X) : list X :=
    match l, n with
    | [], _ => []
    | _ :: t, O => x :: t
    | h :: t, S n' => h :: upd n' x t
    end.

  (** [res[x.idx] = x.x]; [None] = index out of range (run-time panic) *)
  Fixpoint set_nth (i : nat) (y : B) (l : list B) : option (list B) :=
    match l, i with
    | [], _ => None
    | _ :: t, O => Some (y :: t)
    | h :: t, S i' => match set_nth i' y t with Some t' => Some (h :: t') | None => None end
    end.

  Fixpoint fill (res : list B) (xs : list (nat * B)) : option (list B) :=
    match xs with
    | [] => Some res
    | (i, y) :: xs' => match set_nth i y res with Some res' => fill res' xs' | None => None end
    end.

  Definition build (xs : list (nat * B)) : option (list B) := fill (repeat zero (length xs)) xs.

  Definition set_workers (s : state) (ws : list wst) : state :=
    mkState (st_nw s) (st_main s) (st_prod s) (st_unsent s) (st_in_closed s) ws (st_wg s) (st_closer s)
            (st_out_closed s) (st_collected s) (st_result s).

  Definition step_main (s : state) : option state :=
    match st_main s with
    | MStart =>      (* go producer; make out; wg.Add(n) *)
        Some (mkState (st_nw s) MSpawn PRun (st_unsent s) (st_in_closed s) (st_workers s) (st_nw s) (st_closer s)
                      (st_out_closed s) (st_collected s) (st_result s))
    | MSpawn =>
        if length (st_workers s) <? st_nw s
        then Some (set_workers s (st_workers s ++ [WRecv]))                                  (* go worker *)
        else Some (mkState (st_nw s) MRange (st_prod s) (st_unsent s) (st_in_closed s) (st_workers s) (st_wg s) CWait
                           (st_out_closed s) (st_collected s) (st_result s))                 (* go closer *)
    | MRange =>
        if st_out_closed s
        then Some (mkState (st_nw s) MDone (st_prod s) (st_unsent s) (st_in_closed s) (st_workers s) (st_wg s)
                           (st_closer s) (st_out_closed s) (st_collected s) (Some (build (st_collected s))))
        else None                                                   (* blocked in receive *)
    | MDone => None
    end.

  Definition step_prod_send (w : nat) (s : state) : option state :=
    match st_prod s, st_unsent s, nth_error (st_workers s) w with
    | PRun, ix :: rest, Some WRecv =>
        Some (mkState (st_nw s) (st_main s) PRun rest (st_in_closed s) (upd w (WHave ix) (st_workers s)) (st_wg s)
                      (st_closer s) (st_out_closed s) (st_collected s) (st_result s))
    | _, _, _ => None
    end.

  Definition step_prod_close (s : state) : option state :=
    match st_prod s, st_unsent s with
    | PRun, [] =>
        Some (mkState (st_nw s) (st_main s) PDone [] true (st_workers s) (st_wg s) (st_closer s) (st_out_closed s)
                      (st_collected s) (st_result s))
    | _, _ => None
    end.

  Definition step_work_compute (w : nat) (s : state) : option state :=
    match nth_error (st_workers s) w with
    | Some (WHave (i, x)) => Some (set_workers s (upd w (WSend (i, f x)) (st_workers s)))
    | _ => None
    end.

  Definition step_work_send (w : nat) (s : state) : option state :=
    match st_main s, st_out_closed s, nth_error (st_workers s) w with
    | MRange, false, Some (WSend iy) =>
        Some (mkState (st_nw s) MRange (st_prod s) (st_unsent s) (st_in_closed s) (upd w WRecv (st_workers s)) (st_wg s)
                      (st_closer s) false (st_collected s ++ [iy]) (st_result s))
    | _, _, _ => None                (* a send on a closed [out] would panic; unreachable, see Proofs *)
    end.

  Definition step_work_exit (w : nat) (s : state) : option state :=
    match st_in_closed s, nth_error (st_workers s) w with
    | true, Some WRecv =>
        Some (mkState (st_nw s) (st_main s) (st_prod s) (st_unsent s) true (upd w WDone (st_workers s)) (pred (st_wg s))
                      (st_closer s) (st_out_closed s) (st_collected s) (st_result s))
    | _, _ => None
    end.

  Definition step_closer (s : state) : option state :=
    match st_closer s, st_wg s with
    | CWait, O =>
        Some (mkState (st_nw s) (st_main s) (st_prod s) (st_unsent s) (st_in_closed s) (st_workers s) 0 CDone true
                      (st_collected s) (st_result s))
    | _, _ => None
    end.

  Definition step (c : choice) (s : state) : option state :=
    match c with
    | CMain => step_main s
    | CProdSend w => step_prod_send w s
    | CProdClose => step_prod_close s
    | CWorkCompute w => step_work_compute w s
    | CWorkSend w => step_work_send w s
    | CWorkExit w => step_work_exit w s
    | CCloser => step_closer s
    end.

  (** strict execution of a trace of decisions: every decision must be enabled *)
  Fixpoint exec (tr : list choice) (s : state) : option state :=
    match tr with
    | [] => Some s
    | c :: tr' => match step c s with Some s' => exec tr' s' | None => None end
    end.

  (** all decisions that can possibly be enabled, and the enabled ones *)
  Definition all_choices (s : state) : list choice :=
    CMain :: CProdClose :: CCloser ::
    flat_map (fun w => [CProdSend w; CWorkCompute w; CWorkSend w; CWorkExit w]) (seq 0 (length (st_workers s))).

  Definition is_some {X} (o : option X) : bool := match o with Some _ => true | None => false end.

  Definition enabled (s : state) : list choice := filter (fun c => is_some (step c s)) (all_choices s).

  (** a scheduler is a stream of numbers; at every step the [r mod k]-th of the k enabled decisions is taken.
      [run fuel sched s] = (state reached, steps executed); it stops when nothing is enabled. *)
  Fixpoint run (fuel : nat) (sched : nat -> nat) (s : state) : state * nat :=
    match fuel with
    | O => (s, 0)
    | S fuel' =>
        match enabled s with
        | [] => (s, 0)
        | (c0 :: _) as en =>
            match step (nth (sched 0 mod length en) en c0) s with
            | Some s' => let (r, k) := run fuel' (fun i => sched (S i)) s' in (r, S k)
            | None => (s, 0)
            end
        end
    end.

  (** finite schedule given as a list (used by the extracted driver): numbers beyond the list are 0 *)
  Definition sched_of_list (l : list nat) : nat -> nat := fun i => nth i l 0.

  (** number of steps of every complete run *)
  Definition bound (len nw : nat) : nat := 3 * len + 2 * nw + 5.

  Definition final (s : state) : bool := match st_main s with MDone => true | _ => false end.

  Definition is_wdone (w : wst) : bool := match w with WDone => true | _ => false end.

  Definition all_terminated (s : state) : bool :=
    final s && match st_prod s with PDone => true | _ => false end
            && match st_closer s with CDone => true | _ => false end
            && forallb is_wdone (st_workers s) && (length (st_workers s) =? st_nw s).

  (** convenience for the tie: run to completion under a list schedule *)
  Definition map_parallel (xs : list A) (nr : Z) (sched : list nat) : option (option (list B)) * nat * bool :=
    let '(s, k) := run (bound (length xs) (nworkers nr)) (sched_of_list sched) (init xs nr) in
    (st_result s, k, all_terminated s).

End MapPar.

Arguments WRecv {A B}.
Arguments WDone {A B}.
Arguments WHave {A B} ix.
Arguments WSend {A B} iy.
Arguments st_nw {A B} s.
Arguments st_main {A B} s.
Arguments st_prod {A B} s.
Arguments st_unsent {A B} s.
Arguments st_in_closed {A B} s.
Arguments st_workers {A B} s.
Arguments st_wg {A B} s.
Arguments st_closer {A B} s.
Arguments st_out_closed {A B} s.
Arguments st_collected {A B} s.
Arguments st_result {A B} s.
