(* Esc: executable model of the escape analysis of analysis/escape for the calculus Lang/Conc.v.  No proofs here.

   graph     EscapeGraph: points-to edges + status per node (graph.go:114).  Variable edges (KindVar -> pointee) and
             field edges (object -f-> object; the impl goes through a field subnode, statuses flow base -> subnode ->
             pointee, which is what a labelled edge with status n <= status n' expresses).
   status    Local(0) < Escaped(1) < Leaked(2); intrinsic status by node kind (Node.IntrinsicEscape, graph.go:95).
   close     computeEdgeClosure (graph.go:594): statuses are propagated along field edges until stable; explicit fuel,
             None = out of fuel.
   transfer  transferFunction (escape.go:249) for Alloc / copy-like / load (LoadField + EnsureLoadNode) / store
             (StoreField) / global load & store / go (CallUnknown on the arguments).
   verdict   instructionLocality + derefsAreLocal (escape.go:1547,1567).
   arb_ctx   ComputeArbitraryContext: parameter i points to its KindParam node (intrinsically Escaped).
   check_annot  validity of a per-program-point annotation (post-fixpoint of the transfer functions);
   analyze      the block-less monotone-framework loop (round robin with fuel) producing such an annotation. *)
From Coq Require Import List Arith Bool Lia.
From Argot Require Import Lang.Conc.
Import ListNotations.

Inductive node : Type :=
| NReg (r : reg)
| NAlloc (fn pc : nat)
| NParam (i : nat)
| NLoad (fn pc : nat)
| NGlob (g : gvar).

Definition node_eqb (a b : node) : bool :=
  match a, b with
  | NReg x, NReg y => Nat.eqb x y
  | NAlloc f p, NAlloc g q => Nat.eqb f g && Nat.eqb p q
  | NParam x, NParam y => Nat.eqb x y
  | NLoad f p, NLoad g q => Nat.eqb f g && Nat.eqb p q
  | NGlob x, NGlob y => Nat.eqb x y
  | _, _ => false
  end.

(* status: 0 Local, 1 Escaped, 2 Leaked *)
Definition intrinsic (n : node) : nat :=
  match n with
  | NParam _ | NLoad _ _ => 1
  | NGlob _ => 2
  | _ => 0
  end.

Record graph : Type := {
  g_v : list (reg * node);            (* variable r points to node *)
  g_f : list (node * fld * node);     (* field edge *)
  g_s : list (node * nat) }.          (* status raised above the intrinsic one *)

Definition empty_graph : graph := {| g_v := []; g_f := []; g_s := [] |}.

Fixpoint lookup_st (l : list (node * nat)) (n : node) : nat :=
  match l with
  | [] => 0
  | (m, s) :: t => if node_eqb m n then Nat.max s (lookup_st t n) else lookup_st t n
  end.

Definition st (g : graph) (n : node) : nat := Nat.max (intrinsic n) (lookup_st (g_s g) n).

Definition ve_eqb (a b : reg * node) : bool := Nat.eqb (fst a) (fst b) && node_eqb (snd a) (snd b).
Definition fe_eqb (a b : node * fld * node) : bool :=
  node_eqb (fst (fst a)) (fst (fst b)) && Nat.eqb (snd (fst a)) (snd (fst b)) && node_eqb (snd a) (snd b).

Definition add_v (e : reg * node) (l : list (reg * node)) := if existsb (ve_eqb e) l then l else e :: l.
Definition add_f (e : node * fld * node) (l : list (node * fld * node)) := if existsb (fe_eqb e) l then l else e :: l.

Definition vsucc (g : graph) (r : reg) : list node :=
  map snd (filter (fun e => Nat.eqb (fst e) r) (g_v g)).
Definition fsucc (g : graph) (n : node) (f : fld) : list node :=
  map snd (filter (fun e => node_eqb (fst (fst e)) n && Nat.eqb (snd (fst e)) f) (g_f g)).

Definition raise (n : node) (s : nat) (g : graph) : graph :=
  if Nat.leb s (st g n) then g else {| g_v := g_v g; g_f := g_f g; g_s := (n, s) :: g_s g |}.

Definition with_v (g : graph) (es : list (reg * node)) : graph :=
  {| g_v := fold_right add_v (g_v g) es; g_f := g_f g; g_s := g_s g |}.
Definition with_f (g : graph) (es : list (node * fld * node)) : graph :=
  {| g_v := g_v g; g_f := fold_right add_f (g_f g) es; g_s := g_s g |}.

(* closure of statuses along field edges *)
Definition closedb (g : graph) : bool :=
  forallb (fun e => Nat.leb (st g (fst (fst e))) (st g (snd e))) (g_f g).

Definition close_round (g : graph) : graph :=
  fold_right (fun e acc => raise (snd e) (st acc (fst (fst e))) acc) g (g_f g).

Fixpoint close_fuel (fuel : nat) (g : graph) : option graph :=
  if closedb g then Some g else
  match fuel with
  | O => None
  | S k => close_fuel k (close_round g)
  end.

Definition close (g : graph) : option graph := close_fuel (S (2 * length (g_f g))) g.

(* transfer functions (before closure) *)
Definition pairs {A B : Type} (xs : list A) (ys : list B) : list (A * B) :=
  flat_map (fun x => map (fun y => (x, y)) ys) xs.

Definition transfer_raw (fn pc : nat) (i : instr) (g : graph) : graph :=
  match i with
  | IAlloc r => with_v g [(r, NAlloc fn pc)]
  | ICopy r q => with_v g (map (fun n => (r, n)) (vsucc g q))
  | ILoad r q f =>
    let bases := vsucc g q in
    (* EnsureLoadNode: a non-local base gets a load node *)
    let g1 := with_f g (map (fun n => (n, f, NLoad fn pc)) (filter (fun n => negb (Nat.eqb (st g n) 0)) bases)) in
    (* WeakAssign r <- every pointee of base.f *)
    with_v g1 (flat_map (fun n => map (fun m => (r, m)) (fsucc g1 n f)) bases)
  | IStore r f q =>
    with_f g (map (fun p => (fst p, f, snd p)) (pairs (vsucc g r) (vsucc g q)))
  | IGLoad r gv =>
    let g1 := with_f g [(NGlob gv, 0, NLoad fn pc)] in
    with_v g1 (map (fun m => (r, m)) (fsucc g1 (NGlob gv) 0))
  | IGStore gv q =>
    with_f g (map (fun m => (NGlob gv, 0, m)) (vsucc g q))
  | IGo _ args =>
    fold_right (fun n acc => raise n 2 acc) g (flat_map (vsucc g) args)
  | INop => g
  end.

Definition transfer (fn pc : nat) (i : instr) (g : graph) : option graph := close (transfer_raw fn pc i g).

(* derefsAreLocal: every pointee of the pointer register is Local (an empty points-to set is Local, as in the impl) *)
Definition is_local (g : graph) (r : reg) : bool := forallb (fun n => Nat.eqb (st g n) 0) (vsucc g r).

(* instructionLocality: Some r = guarded by derefsAreLocal on register r; the global accesses go through the global's
   storage node, which is intrinsically Leaked, hence never local. *)
Inductive verdict : Type := VLocal | VNonLocal.
Definition instr_verdict (g : graph) (i : instr) : verdict :=
  match i with
  | ILoad _ q _ => if is_local g q then VLocal else VNonLocal
  | IStore r _ _ => if is_local g r then VLocal else VNonLocal
  | IGLoad _ _ | IGStore _ _ => VNonLocal
  | _ => VLocal
  end.

(* graph order (LessEqual, graph.go:1106) *)
Definition leb_graph (g h : graph) : bool :=
  forallb (fun e => existsb (ve_eqb e) (g_v h)) (g_v g) &&
  forallb (fun e => existsb (fe_eqb e) (g_f h)) (g_f g) &&
  forallb (fun e => Nat.leb (snd e) (st h (fst e))) (g_s g).

Definition join (g h : graph) : graph :=
  fold_right (fun e acc => raise (fst e) (snd e) acc) (with_f (with_v g (g_v h)) (g_f h)) (g_s h).

(* arbitrary context of a function with n pointer parameters (registers 0..n-1) *)
Definition arb_ctx (n : nat) : graph :=
  {| g_v := map (fun i => (i, NParam i)) (seq 0 n); g_f := []; g_s := [] |}.

Definition annot := list (list graph).
Definition getA (A : annot) (fn pc : nat) : graph := nth pc (nth fn A []) empty_graph.

Definition go_ok (P : prog) (i : instr) : bool :=
  match i with
  | IGo fn args => match nth_error P fn with Some f => Nat.leb (length args) (f_arity f) | None => false end
  | _ => true
  end.

Definition check_func (P : prog) (A : annot) (fn : nat) (f : func) : bool :=
  leb_graph (arb_ctx (f_arity f)) (getA A fn 0) &&
  forallb (fun pc =>
    closedb (getA A fn pc) &&
    match nth_error (f_code f) pc with
    | None => true
    | Some (i, succs) =>
      go_ok P i &&
      match transfer fn pc i (getA A fn pc) with
      | None => false
      | Some g' => forallb (fun pc' => leb_graph g' (getA A fn pc')) succs
      end
    end) (seq 0 (S (length (f_code f)))).

Definition check_annot (P : prog) (A : annot) : bool :=
  forallb (fun fn => match nth_error P fn with Some f => check_func P A fn f | None => true end) (seq 0 (length P)) &&
  forallb (fun f => forallb (fun ic => forallb (fun pc' => Nat.ltb pc' (length (f_code f))) (snd ic)) (f_code f)) P.

(* the monotone-framework loop: propagate until nothing changes (round robin over all program points) *)
Definition setA (A : annot) (fn pc : nat) (g : graph) : annot :=
  set_nth A fn (set_nth (nth fn A []) pc g).

Definition propagate_one (P : prog) (fn pc : nat) (A : annot) : option annot :=
  match fetch P fn pc with
  | None => Some A
  | Some (i, succs) =>
    match transfer fn pc i (getA A fn pc) with
    | None => None
    | Some g' =>
      fold_right (fun pc' acc =>
        match acc with
        | None => None
        | Some A1 => if leb_graph g' (getA A1 fn pc') then Some A1
                     else match close (join (getA A1 fn pc') g') with
                          | Some j => Some (setA A1 fn pc' j)
                          | None => None
                          end
        end) (Some A) succs
    end
  end.

Definition all_points (P : prog) : list (nat * nat) :=
  flat_map (fun fn => match nth_error P fn with
                      | Some f => map (fun pc => (fn, pc)) (seq 0 (length (f_code f)))
                      | None => [] end) (seq 0 (length P)).

Definition round (P : prog) (A : annot) : option annot :=
  fold_left (fun acc p => match acc with None => None | Some A1 => propagate_one P (fst p) (snd p) A1 end)
            (all_points P) (Some A).

Definition init_annot (P : prog) : annot :=
  map (fun f => arb_ctx (f_arity f) :: map (fun _ => empty_graph) (f_code f)) P.

Inductive result : Type := Annot (A : annot) | OutOfFuel.

Fixpoint analyze_fuel (fuel : nat) (P : prog) (A : annot) : result :=
  if check_annot P A then Annot A else
  match fuel with
  | O => OutOfFuel
  | S k => match round P A with Some A' => analyze_fuel k P A' | None => OutOfFuel end
  end.

Definition analyze (fuel : nat) (P : prog) : result := analyze_fuel fuel P (init_annot P).

(* per-instruction verdicts of an annotated program, in program order: (fn, pc, verdict) *)
Definition verdicts (P : prog) (A : annot) : list (nat * nat * verdict) :=
  flat_map (fun p => match fetch P (fst p) (snd p) with
                     | Some (i, _) => [(fst p, snd p, instr_verdict (getA A (fst p) (snd p)) i)]
                     | None => [] end) (all_points P).
