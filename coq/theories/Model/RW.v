(** * Model/RW — which operand positions must the syntactic scans [lang.FnReadsFrom] / [lang.FnWritesTo] cover?

    Executable definitions only.  The tables ([rw_schema], [rw_reads_from], [rw_writes_to]) are regenerated from the Go
    source on every run by harness/cmd/gentables/gen_rw.go into coq/gen/GenRW.v (T-gen); the finite theorems about them
    are in Proofs/RWGen.v.

    Background (analysis/taint/dataflow_visitor.go, AccessGlobalNode case): in on-demand mode, when tainted data is
    written to a global [G] the visitor builds the summary of every reachable function [f] with [FnReadsFrom f G] and
    then jumps to the read locations of [G] known so far.  The eager mode creates a global access node for EVERY
    instruction that has [G] among its operands (function_summary_graph.go, "Add global nodes").  Hence on-demand =
    eager needs: whenever an instruction of [f] references [G] at an operand position where the reference is not a pure
    write, [FnReadsFrom f G] holds.  The backward analysis uses [FnWritesTo] symmetrically for the write positions. *)
From Coq Require Import List String Bool.
Import ListNotations.
Open Scope string_scope.

Definition pos := (string * string)%type.            (* (instruction type, operand field) *)

Definition pos_eqb (a b : pos) : bool := String.eqb (fst a) (fst b) && String.eqb (snd a) (snd b).
Definition covered (l : list pos) (p : pos) : bool := existsb (pos_eqb p) l.

(** roles written by the generator: "read" (dereferenced for reading), "use" (the address is copied: stored, passed,
    returned, boxed, offset), "write" (written through), "nonptr" (static type is never a pointer, cannot be a global),
    "debug" (DebugRef only). *)
Definition must_read (role : string) : bool := String.eqb role "read" || String.eqb role "use".
Definition must_write (role : string) : bool := String.eqb role "write".

(** operand positions that a scan fails to cover *)
Definition gaps (must : string -> bool) (schema : list (string * string * string)) (scan : list pos) : list pos :=
  map (fun e => (fst (fst e), snd (fst e)))
      (filter (fun e => must (snd e) && negb (covered scan (fst (fst e), snd (fst e)))) schema).

Definition read_gaps schema reads := gaps must_read schema reads.
Definition write_gaps schema writes := gaps must_write schema writes.

(** the full statement (DESIGN 4 C05 [rw_cover]): no gap *)
Definition rw_cover (schema : list (string * string * string)) (reads writes : list pos) : Prop :=
  read_gaps schema reads = [] /\ write_gaps schema writes = [].

(** the statement that holds on the pinned tree: every gap is one of the listed ones *)
Definition rw_cover_except (known : list pos) schema reads writes : bool :=
  forallb (covered known) (read_gaps schema reads) && forallb (covered known) (write_gaps schema writes).

(** The read gaps of the pinned tree (finding F5 and its siblings).  A SUPERSET of the current gaps is fine: repairing
    FnReadsFrom only shrinks the gap list.  Whether a gap loses a flow in on-demand mode is established dynamically by
    tools/props/c05.py (one generated reader per instruction kind, eager vs on-demand). *)
Definition known_rw_gaps : list pos := [
  ("Call", "Call.Args[]"); ("Go", "Call.Args[]"); ("Defer", "Call.Args[]");
  ("ChangeType", "X"); ("MultiConvert", "X"); ("IndexAddr", "X"); ("Slice", "X"); ("Lookup", "Index");
  ("MakeClosure", "Bindings[]"); ("MakeInterface", "X"); ("MapUpdate", "Key"); ("Phi", "Edges[]");
  ("Return", "Results[]"); ("Select", "States[].Send")
].
