(** * The reachability model instantiated with the tables regenerated from the checked tree (C18)

    [GenReach.v] is written by harness/cmd/gentables/gen_reach.go on every run of the check.  The only hand-written
    data here is [nonfun_names]: the operand fields that cannot hold a [*ssa.Function] constant because of SSA typing
    (a function constant has a signature type).  Every dumped program is checked against this classification by
    [wf_ops] (a function constant found in such a field is reported), fields of types unknown here count as
    "may hold a function" (conservative). *)
From Coq Require Import List String PArith Bool.
From Argot Require Import Model.Reach.
From ArgotGen Require Import GenReach.
Import ListNotations.
Local Open Scope string_scope.

Definition nonfun_names : list (string * string) :=
  [ ("If", "Cond");                                      (* bool *)
    ("Index", "X"); ("Index", "Index");                  (* array / integer *)
    ("IndexAddr", "X"); ("IndexAddr", "Index");          (* pointer-to-array or slice / integer *)
    ("Lookup", "X"); ("Lookup", "Index");                (* map or string / comparable key (functions are not comparable) *)
    ("MakeChan", "Size"); ("MakeMap", "Reserve"); ("MakeSlice", "Len"); ("MakeSlice", "Cap");   (* integers *)
    ("MapUpdate", "Map"); ("MapUpdate", "Key");
    ("Next", "Iter"); ("Range", "X");
    ("Slice", "X"); ("Slice", "Low"); ("Slice", "High"); ("Slice", "Max");
    ("Store", "Addr");                                   (* pointer *)
    ("Send", "Chan"); ("Select", "States.Chan");         (* channels *)
    ("Extract", "Tuple"); ("Field", "X"); ("FieldAddr", "X");
    ("TypeAssert", "X"); ("ChangeInterface", "X"); ("Panic", "X");    (* interface values *)
    ("UnOp", "X");                                       (* pointer (load), number, bool, channel (receive) *)
    ("Convert", "X");                                    (* basic types, strings, byte/rune slices; func->func is ChangeType *)
    ("SliceToArrayPointer", "X");
    ("MultiConvert", "X");                               (* only in uninstantiated generic bodies, which never execute *)
    ("Defer", "DeferStack") ].                           (* *deferStack intrinsic *)

Fixpoint id_of (names : list (positive * string)) (s : string) : option positive :=
  match names with
  | [] => None
  | (i, n) :: names' => if String.eqb n s then Some i else id_of names' s
  end.

Definition resolve (l : list (string * string)) : list (positive * positive) :=
  flat_map (fun p => match id_of type_names (fst p), id_of field_names (snd p) with
                     | Some t, Some k => [(t, k)]
                     | _, _ => []
                     end) l.

Definition gen_tables : tables :=
  {| t_schema := schema; t_instr_types := instr_types; t_instr := instr_tbl; t_value := value_tbl;
     t_callee := callee_tbl; t_nonfun := resolve nonfun_names;
     ty_function := T_Function; ty_makeclosure := T_MakeClosure; ty_makeinterface := T_MakeInterface;
     ty_typeassert := T_TypeAssert; k_callvalue := K_Call_Value; k_fn := K_Fn;
     ft_static := F_static_fn; ft_closure := F_closure_fn; ft_iface := F_iface |}.

(** the operand fields of Defer / Go call arguments: the known finding [defer-go-call-args] *)
Definition known_uncovered : list (positive * positive) :=
  resolve [("Defer", "Call.Args"); ("Go", "Call.Args")].
