(** * Model of code-identifier matching and candidate construction  (C04)

    Executable, total, proof-free.  Counterparts in /repo:
      - [match1]            analysis/config/code_identifier.go  [equalOnNonEmptyFields]   (both branches)
      - [exists_cid], [is_*] analysis/config/config.go          [ExistsCid], [TaintSpec.IsSource] ...
      - [elt]               internal/analysisutil/analysisutil.go [FindEltTypePackage]
      - [receiver_str]      internal/analysisutil/analysisutil.go [ReceiverStr]
      - [entry_cands], [op_cands]   internal/analysisutil/analysisutil.go [IsEntrypointNode], [isFuncEntrypoint],
                                     [isAliasEntrypoint], [FindSafeCalleePkg], [FindValuePackage]
      - [call_cands], [arg_cands], [fn_cand]  analysis/taint/code_identifiers.go [IsMatchingCodeIDWithCallee],
                                     [isMatchingCodeID]
      - [expand_sinks]      analysis/taint/taint.go [populateConfigInterfaces], [findImpls], [interfaceMethodIdent],
                                     [interfaceImplMethodIdent]
      - [site_of]           what x/tools/go/ssa + the pointer analysis produce for each call form (checked against the
                            dump of real programs by the tie)
    The regex engine is the section variable [rmatch] (Go's RE2 [MatchString] on a compiled pattern). *)
From Coq Require Import String List Bool Ascii.
Import ListNotations.
Open Scope string_scope.

(** ** Code identifiers *)

Record cid := mkCid {
  c_context : string; c_package : string; c_interface : string; c_method : string; c_receiver : string;
  c_field : string; c_type : string; c_kind : string; c_valuematch : string }.

Definition cid0 : cid := mkCid "" "" "" "" "" "" "" "" "".

(** a specification = a code identifier of the config + whether [compileRegexes] was applied to it
    ([config.Load] applies it to every identifier; identifiers built in Go code may be uncompiled) *)
Record spec := mkSpec { sp_cid : cid; sp_compiled : bool }.

Inductive fld := FContext | FPackage | FInterface | FMethod | FReceiver | FField | FType | FValueMatch.

Definition all_flds : list fld := [FContext; FPackage; FInterface; FMethod; FReceiver; FField; FType; FValueMatch].

Definition get (c : cid) (f : fld) : string :=
  match f with
  | FContext => c_context c | FPackage => c_package c | FInterface => c_interface c | FMethod => c_method c
  | FReceiver => c_receiver c | FField => c_field c | FType => c_type c | FValueMatch => c_valuematch c
  end.

Definition is_empty (s : string) : bool := match s with EmptyString => true | _ => false end.

(** the regex the code uses for field [f] of the specification: the [Interface] conjunct uses [packageRegex] *)
Definition spec_regex (s : cid) (f : fld) : string :=
  match f with FInterface => c_package s | _ => get s f end.

(** the candidate string the uncompiled branch compares with: the [Interface] conjunct compares [cid.Package] *)
Definition uncompiled_cand (c : cid) (f : fld) : string :=
  match f with FInterface => c_package c | _ => get c f end.

(** a taint-tracking problem ([config.TaintSpec]); a slicing problem uses [p_sources] for its backtrace points *)
Record problem := mkProblem {
  p_sources : list spec; p_sinks : list spec; p_sanitizers : list spec; p_validators : list spec }.

Section Matcher.
  Variable rmatch : string -> string -> bool.

  Definition fld_ok (sp : spec) (c : cid) (f : fld) : bool :=
    (if sp_compiled sp then rmatch (spec_regex (sp_cid sp) f) (get c f)
     else String.eqb (uncompiled_cand c f) (get (sp_cid sp) f))
    || is_empty (get (sp_cid sp) f).

  (** [cid.equalOnNonEmptyFields(cidRef)] with [cid] = candidate [c], [cidRef] = specification [sp] *)
  Definition match1 (sp : spec) (c : cid) : bool :=
    forallb (fld_ok sp c) all_flds && String.eqb (c_kind (sp_cid sp)) (c_kind c).

  (** what the property demands of one specification: every non-empty field is matched by ITS OWN pattern *)
  Definition fld_ok_ideal (sp : cid) (c : cid) (f : fld) : bool := rmatch (get sp f) (get c f) || is_empty (get sp f).
  Definition match_ideal (sp : cid) (c : cid) : bool :=
    forallb (fld_ok_ideal sp c) all_flds && String.eqb (c_kind sp) (c_kind c).

  (** [ExistsCid specs cand.equalOnNonEmptyFields] *)
  Definition exists_cid (specs : list spec) (c : cid) : bool := existsb (fun sp => match1 sp c) specs.

  (** a node is classified when the oracle accepts one of the candidates built for it *)
  Definition classify (specs : list spec) (cands : list cid) : bool := existsb (exists_cid specs) cands.

  Definition classify_ideal (specs : list cid) (ids : list cid) : bool :=
    existsb (fun c => existsb (fun sp => match_ideal sp c) specs) ids.

  (** ** Config-wide oracles ([Config.isSomeTaintSpecCid], [IsSomeSource] ... [IsSomeBacktracePoint]) *)

  (** [Config.IsSomeX cid]: some problem of the configuration, in any position, has an identifier accepting [cid] *)
  Definition is_some (sel : problem -> list spec) (cfg : list problem) (c : cid) : bool :=
    existsb (fun p => exists_cid (sel p) c) cfg.

  (** [taint.IsNodeOfInterest] (without annotations): the intra-procedural pass creates a graph node for an
      instruction iff one of its entry candidates is accepted by [IsSomeSource] or by [IsSomeSink] *)
  Definition node_of_interest (cfg : list problem) (cands : list cid) : bool :=
    existsb (is_some p_sources cfg) cands || existsb (is_some p_sinks cfg) cands.
End Matcher.

(** ** String helpers *)

Definition star : ascii := "*"%char.
Definition dot : ascii := "."%char.

Fixpoint remove_stars (s : string) : string :=
  match s with
  | EmptyString => EmptyString
  | String c r => if Ascii.eqb c star then remove_stars r else String c (remove_stars r)
  end.

(** text after the last '.' ([strings.Split(typ, ".")] then last element) *)
Fixpoint last_seg_aux (s cur : string) : string :=
  match s with
  | EmptyString => cur
  | String c r => if Ascii.eqb c dot then last_seg_aux r EmptyString else last_seg_aux r (cur ++ String c EmptyString)
  end.

(** [ReceiverStr] applied to the type string *)
Definition receiver_str (t : string) : string := last_seg_aux (remove_stars t) EmptyString.

(** [strings.Split(s, ".")] *)
Fixpoint split_dot_aux (s cur : string) : list string :=
  match s with
  | EmptyString => [cur]
  | String c r => if Ascii.eqb c dot then cur :: split_dot_aux r EmptyString else split_dot_aux r (cur ++ String c EmptyString)
  end.
Definition split_dot (s : string) : list string := split_dot_aux s EmptyString.

Fixpoint join_dot (l : list string) : string :=
  match l with
  | [] => EmptyString
  | [x] => x
  | x :: r => x ++ "." ++ join_dot r
  end.

Fixpoint prefixb (p s : string) : bool :=
  match p, s with
  | EmptyString, _ => true
  | String a p', String b s' => Ascii.eqb a b && prefixb p' s'
  | _, _ => false
  end.

(** [strings.Contains s sub] *)
Fixpoint containsb (sub s : string) : bool :=
  prefixb sub s || match s with EmptyString => false | String _ r => containsb sub r end.

(** ** Types as seen by [FindEltTypePackage] *)

Inductive ty :=
| TPtr (e : ty)
| TNamed (pkgname : option string) (pkgpath : option string) (name : string)   (* None: universe (error, ...) *)
| TNamedNoObj
| TArray (len : string) (e : ty)          (* decimal length *)
| TMap (key : string) (e : ty)            (* key type printed by types.Type.String *)
| TSlice (e : ty)
| TChan (e : ty)
| TOther                                   (* Basic, Tuple, Interface, Signature: error *)
| TStruct                                  (* anonymous struct: error *)
| TUnexpected.                             (* default branch (Alias, TypeParam, ...): returns "", "", nil *)

(** [FindEltTypePackage t preform]: the format string always has its hole at the end, so it is a prefix.
    Result: (package NAME, rendered type). *)
Fixpoint elt (t : ty) (prefix : string) : option (string * string) :=
  match t with
  | TPtr e => elt e (prefix ++ "*")
  | TNamed (Some p) _ n => Some (p, prefix ++ n)
  | TNamed None _ n => Some ("", n)                  (* universe object: the accumulated prefix is dropped *)
  | TNamedNoObj => None
  | TArray n e => elt e (prefix ++ "[" ++ n ++ "]")
  | TMap k e => elt e (prefix ++ "map[" ++ k ++ "]")
  | TSlice e => elt e (prefix ++ "[]")
  | TChan e => elt e (prefix ++ "chan ")
  | TOther => None
  | TStruct => None
  | TUnexpected => Some ("", "")
  end.

(** the same walk, but with the package PATH of the element's named type (what the property's "named type" means) *)
Fixpoint elt_path (t : ty) (prefix : string) : option (string * string) :=
  match t with
  | TPtr e => elt_path e (prefix ++ "*")
  | TNamed _ (Some p) n => Some (p, prefix ++ n)
  | TNamed _ None n => Some ("", n)
  | TNamedNoObj => None
  | TArray n e => elt_path e (prefix ++ "[" ++ n ++ "]")
  | TMap k e => elt_path e (prefix ++ "map[" ++ k ++ "]")
  | TSlice e => elt_path e (prefix ++ "[]")
  | TChan e => elt_path e (prefix ++ "chan ")
  | TOther => None
  | TStruct => None
  | TUnexpected => Some ("", "")
  end.

(** ** Call sites: raw SSA facts *)

Inductive instr_kind := ICall | IGo | IDefer.

(** one label of the points-to set of the called value: [is_func] = the label's value is an [*ssa.Function];
    [a_pkg] = path of its [Package()] if any *)
Record alias := mkAlias { a_is_func : bool; a_name : string; a_pkg : option string }.

(** a function as identified by [lang.PackageNameFromFunction] / [Name()] / [String()] *)
Record fnid := mkFn { f_pkg : string; f_name : string; f_str : string }.

Record site := mkSite {
  s_instr : instr_kind;
  s_invoke : bool;                       (* Common().IsInvoke() *)
  s_value_name : string;                 (* Common().Value.Name() *)
  s_parent : string;                     (* Parent().String() *)
  s_static_pkg : option string;          (* StaticCallee().Pkg.Pkg.Path() when both are non-nil *)
  s_inv_pkg : option string;             (* Common().Method.Pkg().Path() *)
  s_inv_method : string;                 (* Common().Method.Name() *)
  s_recv_type : string;                  (* Common().Value.Type().String() (invoke) *)
  s_sig_recv : option string;            (* Common().Signature().Recv().Type().String() *)
  s_str : string;                        (* the instruction's String() *)
  s_aliases : option (list alias)        (* pointer.Queries[Common().Value] labels; None: no query result *)
}.

(** [FindValuePackage] of a function label.  The pinned tree returns [ssa.Package.String()] = "package " ++ path
    ([pkg_string]); the proposed fix C04-funcvalue-pkgpath returns the path ([pkg_path]).  The candidate construction
    is parametrised by this function [fvpkg]; the tie reads off the real [FindValuePackage] which one applies. *)
Definition pkg_string (p : string) : string := "package " ++ p.
Definition pkg_path (p : string) : string := p.

Definition alias_cands (fvpkg : string -> string) (s : site) : list cid :=
  match s_aliases s with
  | None => []
  | Some l =>
      flat_map (fun a => if a_is_func a then
                           match a_pkg a with
                           | Some p => [mkCid "" (fvpkg p) "" (a_name a) "" "" "" "" ""]
                           | None => []
                           end
                         else []) l
  end.

(** candidates offered to the oracle by [IsEntrypointNode] for a call-like instruction (sources, backtrace points) *)
Definition entry_cands (fvpkg : string -> string) (s : site) : list cid :=
  match s_instr s with
  | ICall =>
      if s_invoke s then
        match s_inv_pkg s with
        | Some p => [mkCid (s_parent s) p "" (s_inv_method s) (s_value_name s) "" "" "" ""]
        | None => []
        end
      else
        (match s_static_pkg s with
         | Some p => [mkCid (s_parent s) p "" (s_value_name s) "" "" "" "" ""]
         | None => []
         end) ++ alias_cands fvpkg s
  | IGo | IDefer => []
  end.

(** the candidate of [IsMatchingCodeIDWithCallee oracle callee instr] for Call / Go / Defer *)
Definition call_cands (s : site) (callee : option fnid) : list cid :=
  let recv := if s_invoke s then s_recv_type s
              else match s_sig_recv s with Some t => receiver_str t | None => "" end in
  let meth := if s_invoke s then s_inv_method s else s_value_name s in
  let pkg := if s_invoke s then s_inv_pkg s else s_static_pkg s in
  match pkg with
  | Some p => [mkCid (s_parent s) p "" meth recv "" "" "" (s_str s)]
  | None =>
      match callee with
      | Some k => [mkCid (s_parent s) (f_pkg k) "" meth recv "" "" "" (s_str s)]
      | None => []
      end
  end.

(** [IsMatchingCodeIDWithCallee oracle _ f] for an [*ssa.Function] node *)
Definition fn_cand (f : fnid) : cid := mkCid "" (f_pkg f) "" (f_name f) "" "" "" "" (f_str f).

(** [isMatchingCodeID] on a [CallNodeArg]: the call node's verdict, or the callee's parameter's parent function *)
Definition arg_cands (s : site) (callee : option fnid) (param_fn : option fnid) : list cid :=
  call_cands s callee ++ match param_fn with Some f => [fn_cand f] | None => [] end.

(** [isValidatorCondition] on a call value: [IsMatchingCodeIDWithCallee IsValidator nil call] *)
Definition validator_cands (s : site) : list cid :=
  match s_instr s with ICall => call_cands s None | _ => [] end.

(** [backtrace.IsInterProceduralEntryPoint] on a function *)
Definition fn_bt_cand (f : fnid) : cid := mkCid "" (f_pkg f) "" (f_name f) "" "" "" "" "".

(** ** Field / alloc / store / receive instructions *)

Inductive opkind := OField | OFieldAddr | OAlloc | OStore | ORecv.

Record op := mkOp { o_kind : opkind; o_parent : string; o_ty : ty; o_field : string }.

Definition op_kind_str (k : opkind) : string :=
  match k with OStore => "store" | ORecv => "channel receive" | _ => "" end.

Definition op_has_field (k : opkind) : bool :=
  match k with OField | OFieldAddr | OStore => true | _ => false end.

Definition op_cid (o : op) (pt : string * string) : cid :=
  mkCid (o_parent o) (fst pt) "" "" "" (if op_has_field (o_kind o) then o_field o else "") (snd pt)
        (op_kind_str (o_kind o)) "".

(** [IsEntrypointNode] on Field / FieldAddr / Alloc / Store-to-FieldAddr / UnOp-ARROW *)
Definition op_cands (o : op) : list cid :=
  match elt (o_ty o) "" with Some pt => [op_cid o pt] | None => [] end.

(** [IsMatchingCodeIDWithCallee oracle nil instr]: only stores are looked at *)
Definition op_sink_cands (o : op) : list cid :=
  match o_kind o with OStore => op_cands o | _ => [] end.

(** identity demanded by the property: the element's named type with its package PATH *)
Definition op_ids (o : op) : list cid :=
  match elt_path (o_ty o) "" with Some pt => [op_cid o pt] | None => [] end.

(** ** Interface expansion of sinks ([populateConfigInterfaces]) *)

(** an entry of [ImplementationsByType]: key "pkg/path.Iface.Method", implementations (function id, type string of
    its first parameter) *)
Record impl_entry := mkImpl { i_key : string; i_impls : list (fnid * string) }.

(** [CodeIdentifier.FullMethodName] *)
Definition full_method_name (c : cid) : string :=
  if negb (is_empty (c_method c)) then c_package c ++ "." ++ c_receiver c ++ "." ++ c_method c
  else if negb (is_empty (c_interface c)) then c_package c ++ "." ++ c_interface c
  else "<invalid-cid>".

Fixpoint firstn_s (n : nat) (l : list string) : list string :=
  match n, l with
  | S n', x :: r => x :: firstn_s n' r
  | _, _ => []
  end.

Definition nth_s (n : nat) (l : list string) : string := nth n l "".

(** [interfaceMethodIdent] *)
Definition iface_method_ident (key : string) : spec :=
  let sp := split_dot key in
  let n := length sp in
  if Nat.leb 3 n then
    mkSpec (mkCid "" (join_dot (firstn_s (n - 2) sp)) "" (nth_s (n - 1) sp) (nth_s (n - 2) sp) "" "" "" "") true
  else mkSpec cid0 false.

(** [interfaceImplMethodIdent] *)
Definition impl_ident (im : fnid * string) : spec :=
  mkSpec (mkCid "" (f_pkg (fst im)) "" (f_name (fst im)) (receiver_str (snd im)) "" "" "" "") true.

(** sinks added for one sink identifier [ci] (as a set; the code iterates Go maps, so the order is unspecified) *)
Definition expand_one (tbl : list impl_entry) (ci : spec) : list spec :=
  if is_empty (c_interface (sp_cid ci)) then []
  else
    let hits := filter (fun e => containsb (full_method_name (sp_cid ci)) (i_key e)) tbl in
    if existsb (fun e => negb (match i_impls e with [] => true | _ => false end)) hits then
      flat_map (fun e => iface_method_ident (i_key e) :: map impl_ident (i_impls e)) hits
    else [].

Definition expand_sinks (tbl : list impl_entry) (sinks : list spec) : list spec :=
  sinks ++ flat_map (expand_one tbl) sinks.

(** ** Call forms: what the SSA builder and the pointer analysis produce for a call to a given callee *)

(** a callee as the property names it: package path, name, receiver type name ("" for a function),
    and the printed receiver type (e.g. "*q3/sub.T") *)
Record callee := mkCallee { k_pkg : string; k_name : string; k_recv : string; k_recv_type : string; k_str : string }.

Inductive form := Static | Method | IfaceInvoke | FuncValue | MethodValue | MethodExpr | Deferred | GoCall | InClosure.

(** incidental facts of a site that do not identify the callee *)
Record env := mkEnv {
  e_parent : string;              (* enclosing function *)
  e_reg : string;                 (* name of the SSA value holding the function / interface value *)
  e_str : string;                 (* printed instruction *)
  e_addr_taken : bool;            (* the function object has a node in the pointer analysis *)
  e_iface_pkg : string;           (* package declaring the interface method (IfaceInvoke) *)
  e_iface_type : string;          (* printed interface type (IfaceInvoke) *)
  e_other_aliases : list alias    (* further labels of the function value (FuncValue) *)
}.

Definition self_alias (k : callee) : alias := mkAlias true (k_name k) (Some (k_pkg k)).

Definition direct_site (i : instr_kind) (k : callee) (e : env) : site :=
  mkSite i false (k_name k) (e_parent e) (Some (k_pkg k)) None "" ""
         (if is_empty (k_recv k) then None else Some (k_recv_type k)) (e_str e)
         (if e_addr_taken e then Some [self_alias k] else None).

Definition site_of (f : form) (k : callee) (e : env) : site :=
  match f with
  | Static | Method | InClosure => direct_site ICall k e
  | Deferred => direct_site IDefer k e
  | GoCall => direct_site IGo k e
  | IfaceInvoke =>
      mkSite ICall true (e_reg e) (e_parent e) None (Some (e_iface_pkg e)) (k_name k) (e_iface_type e) None (e_str e)
             (Some (e_other_aliases e))
  | FuncValue =>
      mkSite ICall false (e_reg e) (e_parent e) None None "" "" None (e_str e)
             (Some (self_alias k :: e_other_aliases e))
  | MethodValue =>
      (* StaticCallee is the synthetic wrapper M$bound, whose Pkg is nil *)
      mkSite ICall false (e_reg e) (e_parent e) None None "" "" None (e_str e)
             (Some [mkAlias true (k_name k ++ "$bound") None])
  | MethodExpr =>
      (* the called value is the synthetic thunk M$thunk, whose Pkg is nil *)
      mkSite ICall false (k_name k ++ "$thunk") (e_parent e) None None "" "" None (e_str e)
             (if e_addr_taken e then Some [mkAlias true (k_name k ++ "$thunk") None] else None)
  end.

(** the function the dataflow graph's call node resolves to for each form *)
Definition node_callee (f : form) (k : callee) : fnid :=
  match f with
  | MethodValue => mkFn (k_pkg k) (k_name k ++ "$bound") (k_str k ++ "$bound")
  | MethodExpr => mkFn (k_pkg k) (k_name k ++ "$thunk") (k_str k ++ "$thunk")
  | _ => mkFn (k_pkg k) (k_name k) (k_str k)
  end.

(** identity of a call as the property names it *)
Definition identity (k : callee) (e : env) : cid :=
  mkCid (e_parent e) (k_pkg k) "" (k_name k) (k_recv k) "" "" "" (e_str e).
