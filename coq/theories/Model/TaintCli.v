(** * Model/TaintCli — executable model of the verdict of [cmd/argot/taint] ([Run], cmd/argot/taint/taint.go:150) and of
    [cmd/argot/main.go] ([errExit]): the process exit status as a function of the analysis result.

    No proofs here.  Tied to the code by running the real CLI (built from the current tree by vlib.build_argot) on every
    generated program and comparing its exit status with the status computed from the in-process result
    (tools/props/c01.py, "exit" tie). *)
From Coq Require Import List Arith Bool.
Import ListNotations.

Section Cli.
  Variable Pair : Type.     (* a reported (source, sink) flow *)
  Variable Esc : Type.      (* a reported (source, escape location) pair *)

  Record analysis_result := {
    flows : list Pair;       (* TaintFlows.Sinks, flattened *)
    escapes : list Esc;      (* TaintFlows.Escapes, flattened *)
    analysis_error : bool    (* taint.Analyze returned err <> nil (load error, state errors) *)
  }.

  (** [Run]: "taint analysis failed" when Analyze fails; otherwise an error iff some flow or escape was found. *)
  Definition run_returns_error (r : analysis_result) : bool :=
    analysis_error r || negb (Nat.eqb (length (flows r)) 0) || negb (Nat.eqb (length (escapes r)) 0).

  (** [main]: [errExit] exits with status 2 on every error of the sub-command, 0 otherwise. *)
  Definition exit_code (r : analysis_result) : nat := if run_returns_error r then 2 else 0.
End Cli.
