(** * Independent specification for the defer analysis (C16)

    Definitions only, no proofs: the order on stacks, sorted sets, CFG paths, the concrete ("real") defer-stack
    semantics of a path, and the graph properties used by the theorems of [Properties/C16.v].
    Nothing here mentions the analysis ([analyze], [astate], ...) except the shared syntax
    ([cfg], [block], [ikind], [iid], [stack]) of [Model/Defers.v]. *)
From Coq Require Import List Arith Bool Sorted.
From Argot Require Import Model.Defers.
Import ListNotations.

(** ** the order induced by [stack_compare] and sorted, duplicate-free stack sets *)
Definition slt (a b : stack) : Prop := stack_compare a b = Lt.
Definition sle (a b : stack) : Prop := stack_compare a b <> Gt.
(** [StronglySorted] of a strict order: sorted and duplicate-free (see [sorted_NoDup], [sorted_iff_Sorted]) *)
Definition sorted (l : list stack) : Prop := StronglySorted slt l.

(** ** program points *)
Definition blk (c : cfg) (b : nat) : block := nth b c (mkBlock [] []).
Definition instr_at (c : cfg) (p : iid) : option ikind := nth_error (instrs (blk c (fst p))) (snd p).
Definition is_defer (c : cfg) (p : iid) : Prop := instr_at c p = Some KDefer.
Definition is_rundefers (c : cfg) (p : iid) : Prop := instr_at c p = Some KRunDefers.

(** ** CFG paths.
    [bpath c a p b]: starting at the beginning of block [a], control executes the blocks of [p] completely, one
    after the other along [succs] edges ([p] starts with [a] unless it is empty), and then stands at the
    beginning of block [b]. *)
Inductive bpath (c : cfg) : nat -> list nat -> nat -> Prop :=
| bp_nil  : forall a, bpath c a [] a
| bp_step : forall a p b b', bpath c a p b -> In b' (succs (blk c b)) -> bpath c a (p ++ [b]) b'.

(** paths from the entry block (index 0) *)
Definition epath (c : cfg) (p : list nat) (b : nat) : Prop := bpath c 0 p b.
Definition reachable (c : cfg) (b : nat) : Prop := exists p, epath c p b.
(** block [b] lies on a CFG cycle (at least one edge) *)
Definition on_cycle (c : cfg) (b : nat) : Prop := exists q, q <> [] /\ bpath c b q b.
(** some defer instruction that is reachable from the entry lies on a cycle *)
Definition defer_on_cycle (c : cfg) : Prop :=
  exists d, is_defer c d /\ reachable c (fst d) /\ on_cycle c (fst d).

(** ** stack semantics of instruction sequences, blocks and paths, parametric in the per-instruction step *)
Section Sem.
  Variable step : iid -> ikind -> stack -> stack.

  (** execute the instructions [ks], which sit at indices [j], [j+1], ... of block [b] *)
  Fixpoint exec (b j : nat) (ks : list ikind) (s : stack) : stack :=
    match ks with
    | [] => s
    | k :: ks' => exec b (S j) ks' (step (b, j) k s)
    end.
  Definition block_exec (c : cfg) (b : nat) (s : stack) : stack := exec b 0 (instrs (blk c b)) s.
  (** the stack after executing all blocks of [p], starting with the empty stack *)
  Definition path_exec (c : cfg) (p : list nat) : stack := fold_left (fun s b => block_exec c b s) p [].
  (** the stack right before instruction [snd r] of block [fst r], given the stack at the beginning of the block *)
  Definition at_exec (c : cfg) (r : iid) (s : stack) : stack :=
    exec (fst r) 0 (firstn (snd r) (instrs (blk c (fst r)))) s.
End Sem.

(** The concrete semantics: [defer] pushes the instruction, [RunDefers] runs (pops) everything. *)
Definition step_real (p : iid) (k : ikind) (s : stack) : stack :=
  match k with
  | KDefer => s ++ [p]
  | KRunDefers => []
  | KOther => s
  end.

(** [point_stacks c r s]: some path from the entry to the point right before instruction [r] has defer stack [s] *)
Definition point_stacks (c : cfg) (r : iid) (s : stack) : Prop :=
  exists p, epath c p (fst r) /\ s = at_exec step_real c r (path_exec step_real c p).
(** ... and [r] is a [RunDefers] instruction *)
Definition path_stacks (c : cfg) (r : iid) (s : stack) : Prop :=
  is_rundefers c r /\ point_stacks c r s.

(** The plain sequence of all defer instructions executed (no reset at all): under [wf_cfg] this is what the
    stack at the first [RunDefers] of a block is (lemma [real_no_reset]). *)
Definition step_seq (p : iid) (k : ikind) (s : stack) : stack :=
  match k with KDefer => s ++ [p] | _ => s end.

(** ** fairness of the block order: every reachable block occurs in it ([DomPreorder] lists every block) *)
Definition fair (c : cfg) (order : list nat) : Prop :=
  forall b, b < length c -> reachable c b -> In b order.
Definition covers_all (c : cfg) (order : list nat) : Prop :=
  forall b, b < length c -> In b order.

(** ** the abstraction computed by the analysis: push unless already present, reset at [RunDefers] *)
Definition step_abs (p : iid) (k : ikind) (s : stack) : stack :=
  match k with
  | KDefer => push_defer p s
  | KRunDefers => []
  | KOther => s
  end.
Definition abs_stacks (c : cfg) (r : iid) (s : stack) : Prop :=
  is_rundefers c r /\ exists p, epath c p (fst r) /\ s = at_exec step_abs c r (path_exec step_abs c p).
