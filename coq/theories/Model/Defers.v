(** * Model of analysis/defers/defer.go  (C16)

    Executable, total, proof-free.  Line-by-line counterpart of
    [stackCompare], [stackSetUnion], [dataflowTransfer], [AnalyzeFunction].
    Instructions are abstracted to their kind (the analysis looks at nothing else). *)
From Coq Require Import List Arith Bool.
Import ListNotations.

Inductive ikind := KDefer | KRunDefers | KOther.

Record block := mkBlock { instrs : list ikind; succs : list nat }.
Definition cfg := list block.

(** [InstrIndices] *)
Definition iid := (nat * nat)%type.
Definition stack := list iid.

(** [stackCompare]: common prefix lexicographically on (Block, Ins), then by length. *)
Fixpoint stack_compare (a b : stack) : comparison :=
  match a, b with
  | [], [] => Eq
  | [], _ :: _ => Lt
  | _ :: _, [] => Gt
  | (ab, ai) :: a', (bb, bi) :: b' =>
      match Nat.compare ab bb with
      | Lt => Lt
      | Gt => Gt
      | Eq => match Nat.compare ai bi with
              | Lt => Lt
              | Gt => Gt
              | Eq => stack_compare a' b'
              end
      end
  end.

(** [stackSetUnion]: sorted merge; the flag is "result is the same as [a]". *)
Fixpoint stack_set_union (a : list stack) : list stack -> list stack * bool :=
  fix aux (b : list stack) : list stack * bool :=
    match a, b with
    | [], [] => ([], true)
    | [], _ :: _ => (b, false)
    | _ :: _, [] => (a, true)
    | x :: a', y :: b' =>
        match stack_compare x y with
        | Lt => let (r, s) := stack_set_union a' b in (x :: r, s)
        | Gt => let (r, _) := aux b' in (y :: r, false)
        | Eq => let (r, s) := stack_set_union a' b' in (x :: r, s)
        end
    end.

Definition iid_eqb (x y : iid) : bool := Nat.eqb (fst x) (fst y) && Nat.eqb (snd x) (snd y).
Definition stack_mem (d : iid) (s : stack) : bool := existsb (iid_eqb d) s.

(** sort.Slice with [stackCompare < 0]: equal elements are identical, so every correct sort returns the same
    list; we use insertion sort. *)
Fixpoint sinsert (x : stack) (l : list stack) : list stack :=
  match l with
  | [] => [x]
  | y :: l' => match stack_compare x y with
               | Gt => y :: sinsert x l'
               | _ => x :: l
               end
  end.
Definition ssort (l : list stack) : list stack := fold_right sinsert [] l.

(** adjacent de-duplication of the sorted slice *)
Fixpoint sdedup (l : list stack) : list stack :=
  match l with
  | [] => []
  | x :: l' => match l' with
               | [] => [x]
               | y :: _ => match stack_compare x y with
                           | Eq => sdedup l'
                           | _ => x :: sdedup l'
                           end
               end
  end.

Definition push_defer (d : iid) (s : stack) : stack := if stack_mem d s then s else s ++ [d].

(** [dataflowTransfer] *)
Definition transfer (d : iid) (k : ikind) (initial : list stack) : list stack * bool :=
  match k with
  | KDefer => (sdedup (ssort (map (push_defer d) initial)), existsb (stack_mem d) initial)
  | KRunDefers => ([[]], false)
  | KOther => (initial, false)
  end.

(** analysis state of [AnalyzeFunction] *)
Record astate := mkA {
  inits : list (list stack);          (* dataflowBlockInitialStates *)
  chg   : list bool;                  (* dataflowBlockChanged *)
  rds   : list (iid * list stack);    (* runDeferSets, latest binding first *)
  rep   : bool                        (* anyRepeated *)
}.

Fixpoint upd {A} (l : list A) (i : nat) (x : A) : list A :=
  match l, i with
  | [], _ => []
  | _ :: l', 0 => x :: l'
  | y :: l', S i' => y :: upd l' i' x
  end.

(** the inner loop over the instructions of block [b] starting at index [j] *)
Fixpoint run_instrs (b j : nat) (ks : list ikind) (value : list stack)
         (rd : list (iid * list stack)) (rp : bool) : list stack * list (iid * list stack) * bool :=
  match ks with
  | [] => (value, rd, rp)
  | k :: ks' =>
      let rd' := match k with KRunDefers => ((b, j), value) :: rd | _ => rd end in
      let (v', r) := transfer (b, j) k value in
      run_instrs b (S j) ks' v' rd' (rp || r)
  end.

Fixpoint push_succs (ss : list nat) (value : list stack) (ini : list (list stack)) (ch : list bool)
  : list (list stack) * list bool :=
  match ss with
  | [] => (ini, ch)
  | s :: ss' =>
      let (u, same) := stack_set_union (nth s ini []) value in
      push_succs ss' value (upd ini s u) (upd ch s (nth s ch false || negb same))
  end.

Definition process_block (c : cfg) (i : nat) (st : astate) : astate :=
  let b := nth i c (mkBlock [] []) in
  let '(value, rd, rp) := run_instrs i 0 (instrs b) (nth i (inits st) []) (rds st) (rep st) in
  let (ini, ch) := push_succs (succs b) value (inits st) (upd (chg st) i false) in
  mkA ini ch rd rp.

(** one iteration of the outer [for] over [blocks] (= DomPreorder); returns iterationChanged *)
Fixpoint sweep (c : cfg) (order : list nat) (st : astate) (any : bool) : astate * bool :=
  match order with
  | [] => (st, any)
  | i :: order' =>
      if nth i (chg st) false then sweep c order' (process_block c i st) true
      else sweep c order' st any
  end.

Inductive outcome := Done (st : astate) | OutOfFuel.

Fixpoint iterate (fuel : nat) (c : cfg) (order : list nat) (st : astate) : outcome :=
  match fuel with
  | 0 => OutOfFuel
  | S f => let (st', any) := sweep c order st false in
           if any then iterate f c order st' else Done st'
  end.

Definition init_state (c : cfg) : astate :=
  mkA (upd (map (fun _ => []) c) 0 [[]]) (upd (map (fun _ => false) c) 0 true) [] false.

(** [AnalyzeFunction]; [order] is [fn.DomPreorder()] as block indices. Functions without blocks: bounded, no sets. *)
Definition analyze (fuel : nat) (c : cfg) (order : list nat) : outcome :=
  match c with
  | [] => Done (mkA [] [] [] false)
  | _ => iterate fuel c order (init_state c)
  end.

Definition bounded (st : astate) : bool := negb (rep st).

Fixpoint lookup_rd (p : iid) (rd : list (iid * list stack)) : option (list stack) :=
  match rd with
  | [] => None
  | (q, v) :: rd' => if iid_eqb p q then Some v else lookup_rd p rd'
  end.

(** [RunDeferSets] restricted to the keys present *)
Definition run_sets (st : astate) (p : iid) : option (list stack) := lookup_rd p (rds st).

(** ** executable well-formedness of a dumped CFG *)
Definition has_rundefers (b : block) : bool := existsb (fun k => match k with KRunDefers => true | _ => false end) (instrs b).
Fixpoint no_defer_after_run (ks : list ikind) (seen : bool) : bool :=
  match ks with
  | [] => true
  | KRunDefers :: ks' => no_defer_after_run ks' true
  | KDefer :: ks' => negb seen && no_defer_after_run ks' seen
  | KOther :: ks' => no_defer_after_run ks' seen
  end.
Definition wf_block (n : nat) (b : block) : bool :=
  forallb (fun s => Nat.ltb s n) (succs b)
  && (if has_rundefers b then match succs b with [] => true | _ => false end else true)
  && no_defer_after_run (instrs b) false.
Definition wf_cfg (c : cfg) : bool := forallb (wf_block (length c)) c.
