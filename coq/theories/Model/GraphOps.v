(** * Model of the dataflow-graph mutators (C17)

    Executable, total, proof-free.  Counterpart of
    - [updateEdgeInfo] / [addInEdge], [addParamEdgeByPos], [addReturnEdgeByPos], [addGlobalEdge], [SyncGlobals],
      [PopulateGraphFromSummary]                        (analysis/dataflow/function_summary_graph.go)
    - the edge-building half of [RunIntraProcedural]    (intra_procedural.go: edges, SyncGlobals, Constructed)
    - the linking steps of [BuildGraph] / [Sync] / [resolveCalleeSummary] (inter_procedural.go).

    Nodes, summaries, instructions and globals are numbers ([N], 0 = "none").  The [out] adjacency stores, as in
    the Go code ([map[GraphNode][]EdgeInfo]), a LIST of edge infos per (source, destination); the [in] adjacency
    ([map[GraphNode]EdgeInfo]) stores ONE edge info per (destination, source). *)
From stdpp Require Import gmap.
From Coq Require Import ZArith.

(** ** Data *)

Inductive kind := KP | KF | KC | KA | KR | KK | KB | KL | KY | KG | KI.
(* param, freevar, call, call arg, return value, closure, bound var, bound label, synthetic, global access, if *)

Global Instance kind_eq_dec : EqDecision kind.
Proof. solve_decision. Defined.

(** [EdgeInfo]: tuple index (-1 = unused), condition (pointer identity, 0 = nil), set of (label, access path) pairs
    (interned as numbers, kept as a sorted duplicate-free list). *)
Record einfo := mkE { ei_idx : Z; ei_cond : N; ei_paths : list N }.

Global Instance einfo_eq_dec : EqDecision einfo.
Proof. solve_decision. Defined.

Record nattr := mkNA { n_kind : kind; n_sum : N; n_instr : N; n_glob : N }.
Record sattr := mkSA { s_params : list (N * N); s_rets : list (N * N); s_hasret : bool }.

Notation nset := (gmap N unit).

Record state := mkState {
  (* static skeleton: which nodes / summaries exist *)
  nodes : gmap N nattr;
  sums : gmap N sattr;
  (* the two adjacency maps *)
  outm : gmap N (gmap N (list einfo));
  inm : gmap N (gmap N einfo);
  (* CallNode.CalleeSummary and SummaryGraph.Callsites *)
  callee : gmap N N;
  callsites : gmap N (gmap N N);
  (* ClosureNode.ClosureSummary and SummaryGraph.ReferringMakeClosures *)
  closum : gmap N N;
  refclos : gmap N (gmap N N);
  (* AccessGlobalNode.IsWrite, SummaryGraph.Constructed, GlobalNode.WriteLocations / ReadLocations *)
  iswrite : nset;
  constructed : nset;
  wlocs : gmap N nset;
  rlocs : gmap N nset
}.

Definition empty_over (ns : gmap N nattr) (ss : gmap N sattr) : state :=
  mkState ns ss ∅ ∅ ∅ ∅ ∅ ∅ ∅ ∅ ∅ ∅.

(** ** Accessors *)

Definition get2 {A} (m : gmap N (gmap N A)) (a b : N) : option A :=
  match m !! a with Some m' => m' !! b | None => None end.

Definition set2 {A} (m : gmap N (gmap N A)) (a b : N) (x : A) : gmap N (gmap N A) :=
  <[a := <[b := x]> (default ∅ (m !! a))]> m.

Definition mem (s : nset) (x : N) : bool := bool_decide (is_Some (s !! x)).
Definition mem2 (m : gmap N nset) (a b : N) : bool := bool_decide (is_Some (get2 m a b)).

Definition kind_of (s : state) (n : N) : option kind := n_kind <$> nodes s !! n.
Definition sum_of (s : state) (n : N) : N := default 0%N (n_sum <$> nodes s !! n).
Definition instr_of (s : state) (n : N) : N := default 0%N (n_instr <$> nodes s !! n).
Definition glob_of (s : state) (n : N) : N := default 0%N (n_glob <$> nodes s !! n).
Definition is_kind (s : state) (n : N) (k : kind) : bool := bool_decide (kind_of s n = Some k).

Fixpoint assoc (l : list (N * N)) (k : N) : option N :=
  match l with
  | [] => None
  | (k', v) :: l' => if bool_decide (k' = k) then Some v else assoc l' k
  end.

Definition zpos (l : list (N * N)) (i : Z) : option N :=
  if bool_decide (i < 0)%Z then None else assoc l (Z.to_N i).

(** ** [updateEdgeInfo] + [addInEdge] *)

Fixpoint insert_sorted (p : N) (l : list N) : list N :=
  match l with
  | [] => [p]
  | q :: l' => if bool_decide (p = q) then l
               else if bool_decide (p < q)%N then p :: l else q :: insert_sorted p l'
  end.

(** the loop over [edgeInfos]: every entry with a matching index gets the access path; reports whether one did *)
Fixpoint add_path (idx : Z) (p : N) (es : list einfo) : list einfo * bool :=
  match es with
  | [] => ([], false)
  | e :: es' =>
      let (r, f) := add_path idx p es' in
      if bool_decide (ei_idx e = idx)
      then (mkE (ei_idx e) (ei_cond e) (insert_sorted p (ei_paths e)) :: r, true)
      else (e :: r, f)
  end.

Definition update_edge (s : state) (src dst : N) (idx : Z) (p cond : N) : state :=
  let es := default [] (get2 (outm s) src dst) in
  let (es', found) := add_path idx p es in
  let fresh := mkE idx cond [p] in
  let es'' := if found then es' else es ++ [fresh] in
  mkState (nodes s) (sums s)
    (set2 (outm s) src dst es'')
    (set2 (inm s) dst src fresh)            (* addInEdge: the entry of [src] is overwritten *)
    (callee s) (callsites s) (closum s) (refclos s) (iswrite s) (constructed s) (wlocs s) (rlocs s).

(** an edge whose out-list is appended without looking at the indices ([add*EdgeByPos]) *)
Definition append_edge (s : state) (src dst : N) (e : einfo) : state :=
  let es := default [] (get2 (outm s) src dst) in
  mkState (nodes s) (sums s)
    (set2 (outm s) src dst (es ++ [e]))
    (set2 (inm s) dst src e)
    (callee s) (callsites s) (closum s) (refclos s) (iswrite s) (constructed s) (wlocs s) (rlocs s).

(** [addParamEdgeByPos]: the maps [Params] only hold parameter nodes (Go typing, here a kind test) *)
Definition param_edge (s : state) (g : N) (i j : Z) : state :=
  match sums s !! g with
  | None => s
  | Some sa =>
      match zpos (s_params sa) i, zpos (s_params sa) j with
      | Some a, Some b =>
          if is_kind s a KP && is_kind s b KP then append_edge s a b (mkE 0 0 []) else s
      | _, _ => s
      end
  end.

(** [addReturnEdgeByPos]: all entries of [Returns] hold the same tuple of return nodes *)
Definition return_edge (s : state) (g : N) (i pos : Z) : state :=
  match sums s !! g with
  | None => s
  | Some sa =>
      if s_hasret sa then
        match zpos (s_params sa) i, zpos (s_rets sa) pos with
        | Some a, Some r =>
            if is_kind s a KP && is_kind s r KR then append_edge s a r (mkE pos 0 []) else s
        | _, _ => s
        end
      else s
  end.

(** ** building a summary: edges, [SyncGlobals], [Constructed] *)

Record medge := mkM { m_glob : bool; m_src : N; m_dst : N; m_idx : Z; m_path : N; m_cond : N }.

Definition set_write (s : state) (n : N) : state :=
  mkState (nodes s) (sums s) (outm s) (inm s) (callee s) (callsites s) (closum s) (refclos s)
    (<[n := tt]> (iswrite s)) (constructed s) (wlocs s) (rlocs s).

(** one edge made inside the function summarised by [g]: source (and, for [addGlobalEdge], the access node that
    becomes a written one) belong to [g]; return-value nodes have no out map and global edges go to access nodes *)
Definition build_edge (g : N) (s : state) (e : medge) : state :=
  if bool_decide (sum_of s (m_src e) = g) && negb (is_kind s (m_src e) KR) && bool_decide (is_Some (nodes s !! m_src e)) then
    if m_glob e then
      if is_kind s (m_dst e) KG && bool_decide (sum_of s (m_dst e) = g)
      then update_edge (set_write s (m_dst e)) (m_src e) (m_dst e) (m_idx e) (m_path e) (m_cond e)
      else s
    else update_edge s (m_src e) (m_dst e) (m_idx e) (m_path e) (m_cond e)
  else s.

Definition out_nonempty (s : state) (n : N) : bool :=
  match outm s !! n with Some m => negb (bool_decide (map_to_list m = [])) | None => false end.

Definition add_loc (m : gmap N nset) (g n : N) : gmap N nset := set2 m g n tt.

(** [SyncGlobals]: written access nodes become write locations, read access nodes with an outgoing edge become read
    locations of their global *)
Definition sync_node (g : N) (s : state) (x : N * nattr) : state :=
  let (n, na) := x in
  if bool_decide (n_kind na = KG) && bool_decide (n_sum na = g) then
    if mem (iswrite s) n then
      mkState (nodes s) (sums s) (outm s) (inm s) (callee s) (callsites s) (closum s) (refclos s)
        (iswrite s) (constructed s) (add_loc (wlocs s) (n_glob na) n) (rlocs s)
    else if out_nonempty s n then
      mkState (nodes s) (sums s) (outm s) (inm s) (callee s) (callsites s) (closum s) (refclos s)
        (iswrite s) (constructed s) (wlocs s) (add_loc (rlocs s) (n_glob na) n)
    else s
  else s.

Definition sync_globals (s : state) (g : N) : state :=
  fold_left (sync_node g) (map_to_list (nodes s)) s.

Definition set_constructed (s : state) (g : N) : state :=
  mkState (nodes s) (sums s) (outm s) (inm s) (callee s) (callsites s) (closum s) (refclos s)
    (iswrite s) (<[g := tt]> (constructed s)) (wlocs s) (rlocs s).

(** [RunIntraProcedural] as its callers use it ([BuildSummary] and the on-demand steps only run it on summaries that
    are not constructed) *)
Definition build (s : state) (g : N) (es : list medge) : state :=
  if mem (constructed s) g then s
  else set_constructed (sync_globals (fold_left (build_edge g) es s) g) g.

(** [PopulateGraphFromSummary] *)
Definition populate (s : state) (g : N) (args rets : list (Z * Z)) : state :=
  let s1 := fold_left (fun s x => param_edge s g (fst x) (snd x)) args s in
  let s2 := fold_left (fun s x => return_edge s g (fst x) (snd x)) rets s1 in
  set_constructed s2 g.

(** ** linking *)

(** BuildGraph step 2/3 for one call node: [node.CalleeSummary = resolve...] under the guard [CalleeSummary == nil];
    the callee registers the call site unless it already has a node for that instruction *)
Definition link (s : state) (n g : N) : state :=
  if is_kind s n KC && negb (bool_decide (is_Some (callee s !! n))) then
    let i := instr_of s n in
    let cs := match get2 (callsites s) g i with
              | Some _ => callsites s
              | None => set2 (callsites s) g i n
              end in
    mkState (nodes s) (sums s) (outm s) (inm s) (<[n := g]> (callee s)) cs (closum s) (refclos s)
      (iswrite s) (constructed s) (wlocs s) (rlocs s)
  else s.

(** BuildGraph / Sync for one closure node: [findClosureSummary] answered [g] (0 = nil) *)
Definition sync_closure (s : state) (c g : N) : state :=
  if is_kind s c KK then
    if bool_decide (g = 0%N) then
      mkState (nodes s) (sums s) (outm s) (inm s) (callee s) (callsites s) (delete c (closum s)) (refclos s)
        (iswrite s) (constructed s) (wlocs s) (rlocs s)
    else
      mkState (nodes s) (sums s) (outm s) (inm s) (callee s) (callsites s) (<[c := g]> (closum s))
        (set2 (refclos s) g (instr_of s c) c)
        (iswrite s) (constructed s) (wlocs s) (rlocs s)
  else s.

(** ** operations *)

Inductive op :=
| OUpdate (src dst : N) (idx : Z) (p cond : N)
| OParamEdge (g : N) (i j : Z)
| OReturnEdge (g : N) (i pos : Z)
| OBuild (g : N) (es : list medge)
| OPopulate (g : N) (args rets : list (Z * Z))
| OLink (n g : N)
| OSyncClosure (c g : N).

Definition apply_op (s : state) (o : op) : state :=
  match o with
  | OUpdate a b i p c =>
      (* edges leaving a global access node, and edges marking one as written, only arise while its summary is
         built ([OBuild]); return-value nodes have no out map *)
      if is_kind s a KG || is_kind s a KR then s else update_edge s a b i p c
  | OParamEdge g i j => param_edge s g i j
  | OReturnEdge g i p => return_edge s g i p
  | OBuild g es => build s g es
  | OPopulate g a r => if mem (constructed s) g then s else populate s g a r
  | OLink n g => if bool_decide (g = 0%N) then s else link s n g
  | OSyncClosure c g => sync_closure s c g
  end.

Definition run (s : state) (os : list op) : state := fold_left apply_op os s.

Definition has_node (s : state) (n : N) : bool := bool_decide (is_Some (nodes s !! n)).
Definition has_sum (s : state) (g : N) : bool := bool_decide (is_Some (sums s !! g)).

(** ** loading a dump (T-cert) and printing a state (T-dump) *)

Inductive dline :=
| LS (g : N) (constr hasret : bool)
| LP (g pos n : N)
| LR (g pos n : N)
| LN (n : N) (k : kind) (g instr glob : N) (write : bool) (lnk : N)
| LO (src dst : N) (e : einfo)
| LOE (src dst : N)
| LI (dst src : N) (e : einfo)
| LCS (g instr n : N)
| LRC (g instr n : N)
| LGW (gl n : N)
| LGR (gl n : N).

Definition upd_sum (s : state) (g : N) (f : sattr -> sattr) : state :=
  mkState (nodes s) (<[g := f (default (mkSA [] [] false) (sums s !! g))]> (sums s)) (outm s) (inm s) (callee s)
    (callsites s) (closum s) (refclos s) (iswrite s) (constructed s) (wlocs s) (rlocs s).

Definition load_line (s : state) (l : dline) : state :=
  match l with
  | LS g c h =>
      let s1 := upd_sum s g (fun sa => mkSA (s_params sa) (s_rets sa) h) in
      if c then set_constructed s1 g else s1
  | LP g pos n => upd_sum s g (fun sa => mkSA (s_params sa ++ [(pos, n)]) (s_rets sa) (s_hasret sa))
  | LR g pos n => upd_sum s g (fun sa => mkSA (s_params sa) (s_rets sa ++ [(pos, n)]) (s_hasret sa))
  | LN n k g i gl w lnk =>
      let s1 := mkState (<[n := mkNA k g i gl]> (nodes s)) (sums s) (outm s) (inm s)
                  (match k with KC => if bool_decide (lnk = 0%N) then callee s else <[n := lnk]> (callee s) | _ => callee s end)
                  (callsites s)
                  (match k with KK => if bool_decide (lnk = 0%N) then closum s else <[n := lnk]> (closum s) | _ => closum s end)
                  (refclos s) (if w then <[n := tt]> (iswrite s) else iswrite s) (constructed s) (wlocs s) (rlocs s) in
      s1
  | LO a b e =>
      mkState (nodes s) (sums s) (set2 (outm s) a b (default [] (get2 (outm s) a b) ++ [e])) (inm s) (callee s)
        (callsites s) (closum s) (refclos s) (iswrite s) (constructed s) (wlocs s) (rlocs s)
  | LOE a b =>
      mkState (nodes s) (sums s) (set2 (outm s) a b (default [] (get2 (outm s) a b))) (inm s) (callee s)
        (callsites s) (closum s) (refclos s) (iswrite s) (constructed s) (wlocs s) (rlocs s)
  | LI b a e =>
      mkState (nodes s) (sums s) (outm s) (set2 (inm s) b a e) (callee s)
        (callsites s) (closum s) (refclos s) (iswrite s) (constructed s) (wlocs s) (rlocs s)
  | LCS g i n =>
      mkState (nodes s) (sums s) (outm s) (inm s) (callee s)
        (set2 (callsites s) g i n) (closum s) (refclos s) (iswrite s) (constructed s) (wlocs s) (rlocs s)
  | LRC g i n =>
      mkState (nodes s) (sums s) (outm s) (inm s) (callee s)
        (callsites s) (closum s) (set2 (refclos s) g i n) (iswrite s) (constructed s) (wlocs s) (rlocs s)
  | LGW gl n =>
      mkState (nodes s) (sums s) (outm s) (inm s) (callee s)
        (callsites s) (closum s) (refclos s) (iswrite s) (constructed s) (add_loc (wlocs s) gl n) (rlocs s)
  | LGR gl n =>
      mkState (nodes s) (sums s) (outm s) (inm s) (callee s)
        (callsites s) (closum s) (refclos s) (iswrite s) (constructed s) (wlocs s) (add_loc (rlocs s) gl n)
  end.

Definition load (ls : list dline) : state := fold_left load_line ls (empty_over ∅ ∅).

(** the dynamic part of a state as lines (order irrelevant, the driver sorts) *)
Definition flat2 {A B} (f : N -> N -> A -> list B) (m : gmap N (gmap N A)) : list B :=
  concat (map (fun x => concat (map (fun y => f (fst x) (fst y) (snd y)) (map_to_list (snd x)))) (map_to_list m)).

Definition dump_state (s : state) : list dline :=
  flat2 (fun a b es => match es with [] => [LOE a b] | _ => map (LO a b) es end) (outm s)
  ++ flat2 (fun b a e => [LI b a e]) (inm s)
  ++ flat2 (fun g i n => [LCS g i n]) (callsites s)
  ++ flat2 (fun g i n => [LRC g i n]) (refclos s)
  ++ flat2 (fun g n _ => [LGW g n]) (wlocs s)
  ++ flat2 (fun g n _ => [LGR g n]) (rlocs s)
  ++ map (fun x => let (n, na) := (x : N * nattr) in
                   LN n (n_kind na) (n_sum na) (n_instr na) (n_glob na) (mem (iswrite s) n)
                      (match n_kind na with
                       | KC => default 0%N (callee s !! n)
                       | KK => default 0%N (closum s !! n)
                       | _ => 0%N end)) (map_to_list (nodes s))
  ++ map (fun x => LS (fst x) (mem (constructed s) (fst x)) (s_hasret (snd x))) (map_to_list (sums s)).

(** ** the properties as decidable statements (for the verified validator)

    Each clause is written with bounded quantifiers over the finite maps so that it is decidable; Proofs/GraphOps.v
    shows them equivalent to the readable statements [consistent] / [consistent_idx]. *)

(* C1 edges: b ∈ dom(out a) <-> a ∈ dom(in b) *)
Definition edges_ok (s : state) : Prop :=
  map_Forall (fun a m => map_Forall (fun b (_ : list einfo) => is_Some (get2 (inm s) b a)) m) (outm s)
  ∧ map_Forall (fun b m => map_Forall (fun a (_ : einfo) => is_Some (get2 (outm s) a b)) m) (inm s).

(* C2 calls: callee link <-> call-site registration *)
Definition calls_ok (s : state) : Prop :=
  map_Forall (fun n g => get2 (callsites s) g (instr_of s n) = Some n) (callee s)
  ∧ map_Forall (fun g m => map_Forall (fun i n => callee s !! n = Some g ∧ instr_of s n = i) m) (callsites s).

(* C3 closures *)
Definition closures_ok (s : state) : Prop :=
  map_Forall (fun c g => get2 (refclos s) g (instr_of s c) = Some c) (closum s)
  ∧ map_Forall (fun g m => map_Forall (fun i c => closum s !! c = Some g ∧ instr_of s c = i) m) (refclos s).

(* C4 globals: write/read locations = access nodes of constructed summaries *)
Definition is_wloc (s : state) (gl n : N) : Prop :=
  match nodes s !! n with
  | Some na => n_kind na = KG ∧ n_glob na = gl ∧ mem (constructed s) (n_sum na) = true ∧ mem (iswrite s) n = true
  | None => False
  end.
Definition is_rloc (s : state) (gl n : N) : Prop :=
  match nodes s !! n with
  | Some na => n_kind na = KG ∧ n_glob na = gl ∧ mem (constructed s) (n_sum na) = true ∧ mem (iswrite s) n = false
               ∧ out_nonempty s n = true
  | None => False
  end.

Global Instance is_wloc_dec s gl n : Decision (is_wloc s gl n).
Proof. unfold is_wloc. destruct (nodes s !! n); apply _. Defined.
Global Instance is_rloc_dec s gl n : Decision (is_rloc s gl n).
Proof. unfold is_rloc. destruct (nodes s !! n); apply _. Defined.

Definition globals_ok (s : state) : Prop :=
  map_Forall (fun gl m => map_Forall (fun n (_ : unit) => is_wloc s gl n) m) (wlocs s)
  ∧ map_Forall (fun gl m => map_Forall (fun n (_ : unit) => is_rloc s gl n) m) (rlocs s)
  ∧ map_Forall (fun n na => is_wloc s (n_glob na) n -> is_Some (get2 (wlocs s) (n_glob na) n)) (nodes s)
  ∧ map_Forall (fun n na => is_rloc s (n_glob na) n -> is_Some (get2 (rlocs s) (n_glob na) n)) (nodes s).

(* the tuple indices: every index on the out side equals the one stored on the in side and vice versa *)
Definition idx_ok (s : state) : Prop :=
  map_Forall (fun a m => map_Forall (fun b es =>
     es ≠ [] ∧ Forall (fun e' => Some (ei_idx e') = ei_idx <$> get2 (inm s) b a) es) m) (outm s).

(* what does hold of the indices: the stored in-index is one of the out-indices *)
Definition idx_partial_ok (s : state) : Prop :=
  map_Forall (fun b m => map_Forall (fun a e =>
     Exists (fun e' => ei_idx e' = ei_idx e) (default [] (get2 (outm s) a b))) m) (inm s).

(* summaries that are not constructed have untouched global access nodes *)
Definition clean_ok (s : state) : Prop :=
  map_Forall (fun n na => n_kind na = KG -> mem (constructed s) (n_sum na) = false ->
                          mem (iswrite s) n = false ∧ out_nonempty s n = false) (nodes s).

Definition check_edges (s : state) : bool := bool_decide (edges_ok s).
Definition check_calls (s : state) : bool := bool_decide (calls_ok s).
Definition check_closures (s : state) : bool := bool_decide (closures_ok s).
Definition check_globals (s : state) : bool := bool_decide (globals_ok s).
Definition check_idx (s : state) : bool := bool_decide (idx_ok s).
Definition check_idx_partial (s : state) : bool := bool_decide (idx_partial_ok s).
Definition check_clean (s : state) : bool := bool_decide (clean_ok s).

Definition check_consistent (s : state) : bool :=
  check_edges s && check_calls s && check_closures s && check_globals s.
