(** * Model of analysis/taint/dataflow_visitor.go : [Visitor.Visit] and [addNext]   (traversal kernel: C01 C02 C05 C06 C07)

    Executable, total, proof-free.  The model works on the *dumped linked inter-procedural graph* printed by
    harness/cmd/travdump after the real pipeline (load, pointer analysis, intra-procedural pass, BuildGraph) has run:
    summary graphs with their parameter / free-variable / call-site / referring-closure tables, nodes by kind with
    [Out()] edges and their [EdgeInfo] (tuple index, relative access paths, condition ids), call arguments, callee
    summaries, bound variables, closure summaries and the read locations of globals.  Node predicates of the taint
    problem ([isFiltered], [isSink], [isSanitizer], [isValidatorCondition]) are functions on ids.

    Case-by-case counterpart of the Go [switch] in [Visit] (context push at CallNodeArg -> Param, unwinding at Param /
    ReturnVal with and without context, closure creation / bound variables / free variables with closure traces and the
    tracing status, global write -> read jumps, synthetic / if nodes, filter / sink / sanitizer stops) and of [addNext]
    (validator-condition drop, access-path filtering as *lists in encounter order*, dedup key = [VisitorNode.Key()] =
    node + call trace + closure trace + status kind + access paths, [seen] set, depth limit, lasso test on both traces,
    FIFO queue), plus the alarm counter of [IncrementAndTestAlarms].

    Go map iteration order is an explicit oracle [ord : N -> N -> forall A, list A -> list A] (arguments: number of the
    loop iteration, number of the range statement inside the iteration); theorems quantify over all oracles that
    return permutations.  Go panics / nil dereferences are the outcome [Crash]; running out of fuel is [OutOfFuel];
    stopping because the alarm limit is reached is [AlarmStop].

    Fields of the visitor node that the successor computation reads although they are NOT part of [Key()]:
    [v_prev] (Param, CallNodeArg and FreeVar cases), [v_depth] (depth limit) and [v_tinfo] (index and closure of the
    tracing status, CallNode case).  *)
From Coq Require Import List PArith NArith ZArith Bool FMapPositive.
Import ListNotations.

Definition id := positive.

(** ** The dumped graph *)

Record edgeinfo := mkEdge {
  e_index : Z;                          (* EdgeInfo.Index (tuple element), < 0: unused *)
  e_nin : N;                            (* len(EdgeInfo.RelPath) *)
  e_ee : bool;                          (* EdgeInfo.RelPath[""][""] *)
  e_conds : list positive;              (* ids of EdgeInfo.Cond.Conditions *)
  e_relpath : list (positive * positive) (* (inPath, outPath) pairs of RelPath *)
}.

Definition empty_edge : edgeinfo := mkEdge 0 0 false [] [].   (* df.EdgeInfo{} *)

Inductive nkind :=
| KParam (idx : N)
| KFreeVar (idx : N)
| KCallArg (call : id) (idx : N)
| KCall (callee : option id) (csum : option id) (instr : N) (strcl : positive) (reach : bool) (args : list (option id))
      (* Callee() (ssa function identity), CalleeSummary, CallSite() identity, class of String(),
         IsReachableFunction(Callee()), Args() *)
| KReturn (idx : Z)
| KClosure (csum : option id) (strcl : positive) (bvs : list (option id))     (* ClosureSummary, String() class, BoundVars() *)
| KBoundVar (clo : id) (idx : N)
| KBoundLabel (dest : option id) (clo : option id) (idx : N)
      (* DestClosure(), DestClosure().ReferringMakeClosures[DestInfo().MakeClosure], Index() *)
| KGlobal (iswrite : bool) (glob : id)
| KSynth
| KIf
| KOther.

Record node := mkNode {
  n_kind : nkind;
  n_fn : id;                               (* Graph() *)
  n_out : list (id * list edgeinfo)        (* Out(): destination, edge infos in slice order *)
}.

Record fnrec := mkFn {
  f_sf : option id;                        (* Parent (ssa function identity) *)
  f_constructed : bool;
  f_params : list (option id);             (* Params[Parent.Params[i]] *)
  f_freevars : list (option id);           (* FreeVars[Parent.FreeVars[i]] *)
  f_callsites : list id;                   (* Callsites *)
  f_referring : list id                    (* ReferringMakeClosures *)
}.

Record graph := mkGraph {
  g_nodes : PositiveMap.t node;
  g_fns : PositiveMap.t fnrec;
  g_reads : PositiveMap.t (list id);       (* Global.ReadLocations *)
  g_pfx : positive -> positive -> bool;    (* strings.HasPrefix(path a, path b) *)
  g_prank : positive -> positive;          (* rank of a path string in sort.Strings order *)
  g_presum : id -> bool;                   (* SummaryGraph.IsPreSummarized (predefined summary, dataflow contract) *)
  g_labelled : id -> bool                  (* hasLabelledMarks(node): node kind that is tracked with one labelled mark per
                                              access path of its type, and the type has access paths *)
}.

(** predicates of the taint problem and configuration *)
Record preds := mkPreds {
  p_filtered : id -> bool;
  p_sink : id -> bool;
  p_sanitizer : id -> bool;
  p_ifvalid : id -> bool;                  (* IfNode: isValidatorCondition(cond, true) *)
  p_validcond : positive -> bool           (* edge condition id is a validator condition *)
}.

Record config := mkConfig {
  c_ignore_ns : bool;                      (* !SummarizeOnDemand && UnsafeIgnoreNonSummarized *)
  c_maxdepth : Z;                          (* UnsafeMaxDepth *)
  c_skip_bl : bool;                        (* taintSpec.SkipBoundLabels *)
  c_implicit : bool;                       (* taintSpec.FailOnImplicitFlow *)
  c_maxalarms : N;                         (* MaxAlarms (0: no limit) *)
  c_fixaps : bool                          (* true: addNext as it is NOW (fix d51dcca "canonicalize access paths": next access
                                              paths deduplicated and sorted).  false: the code as originally pinned (a list
                                              with duplicates in map order; diverges in field-sensitive mode, finding F3) *)
}.

(** ** Visitor nodes *)

Record vnode := mkV {
  v_node : id;
  v_trace : list id;                       (* call stack, innermost call (NodeTree.Label) first *)
  v_ctrace : list id;                      (* closure stack, innermost first *)
  v_kind : bool;                           (* Status.Kind: false DefaultTracing, true ClosureTracing *)
  v_tinfo : list (option id * N);          (* Status.TracingInfo chain: (ClosureSummaryGraph, Index), current first *)
  v_aps : list positive;                   (* AccessPaths *)
  v_prev : option id;                      (* Prev.Node *)
  v_depth : N
}.

(** [VisitorNode.Key()], flattened injectively *)
Definition len_pos {A} (l : list A) : positive := Pos.of_succ_nat (length l).

Definition key_of (n : id) (t c : list id) (k : bool) (aps : list positive) : list positive :=
  n :: (if k then 2%positive else 1%positive) :: len_pos t :: t ++ len_pos c :: c ++ aps.

Definition vkey (v : vnode) : list positive := key_of (v_node v) (v_trace v) (v_ctrace v) (v_kind v) (v_aps v).

(** ** [seen] as a trie over key lists (insert / lookup recursive on the key only) *)

Inductive ltrie := LT (here : bool) (kids : PositiveMap.t ltrie).

Definition lt_empty : ltrie := LT false (PositiveMap.empty ltrie).

Fixpoint lt_mem (k : list positive) (t : ltrie) : bool :=
  match t with
  | LT h m => match k with
              | [] => h
              | x :: k' => match PositiveMap.find x m with
                           | Some t' => lt_mem k' t'
                           | None => false
                           end
              end
  end.

Fixpoint lt_add (k : list positive) (t : ltrie) : ltrie :=
  match t with
  | LT h m => match k with
              | [] => LT true m
              | x :: k' => LT h (PositiveMap.add x (lt_add k' (match PositiveMap.find x m with
                                                                | Some t' => t'
                                                                | None => lt_empty
                                                                end)) m)
              end
  end.

(** ** Outcomes *)

Inductive crash :=
| CrNoCallee | CrMissingSummary | CrNilParam | CrNoBoundVars | CrNoMatchingBoundVar | CrNoReferring | CrIndex | CrNilDeref
| CrNoAccessPaths | CrDangling.

Inductive res (A : Type) := Ok (a : A) | Crash (c : crash).
Arguments Ok {A} a.
Arguments Crash {A} c.

Definition bind {A B} (r : res A) (f : A -> res B) : res B :=
  match r with Ok a => f a | Crash c => Crash c end.

(** a call of [addNext]: intermediate node, next node (nil possible), traces, status, edge *)
Record cand := mkCand {
  c_inter : option id;
  c_node : option id;
  c_trace : list id;
  c_ctrace : list id;
  c_kind : bool;
  c_tinfo : list (option id * N);
  c_edge : edgeinfo
}.

Section Model.
  Variable g : graph.
  Variable P : preds.
  Variable cfg : config.
  Variable ord : N -> N -> forall A : Type, list A -> list A.   (* Go map iteration order *)
  Variable src : id.                                            (* source.Node *)

  Definition node_of (n : id) : option node := PositiveMap.find n (g_nodes g).
  Definition fn_of (f : id) : option fnrec := PositiveMap.find f (g_fns g).

  Definition opt_eqb (a b : option id) : bool :=
    match a, b with
    | Some x, Some y => Pos.eqb x y
    | None, None => true
    | _, _ => false
    end.

  Definition nthN {A} (l : list A) (i : N) : option A := nth_error l (N.to_nat i).

  (** String() class of a trace label *)
  Definition strcl_of (n : id) : positive :=
    match node_of n with
    | Some (mkNode (KCall _ _ _ s _ _) _ _) => s
    | Some (mkNode (KClosure _ s _) _ _) => s
    | _ => n
    end.

  (** [GetLassoHandle() != nil]: height > 1 and an earlier label has the same String() as the last one *)
  Definition lasso (t : list id) : bool :=
    match t with
    | [] => false
    | l :: rest => existsb (fun c => Pos.eqb (strcl_of c) (strcl_of l)) rest
    end.

  (** [UnwindCallstackFromCallee]: the call node of [callsites] with the call instruction and callee of the innermost label *)
  Definition call_fields (n : id) : option (option id * option id * N) :=
    match node_of n with
    | Some (mkNode (KCall callee csum instr _ _ _) _ _) => Some (callee, csum, instr)
    | _ => None
    end.

  Definition unwind_callee (s i : N) (callsites : list id) (t : list id) : res (option id) :=
    match t with
    | [] => Ok None
    | l :: _ =>
        match call_fields l with
        | None => Crash CrDangling
        | Some (lcallee, _, linstr) =>
            Ok (find (fun x => match call_fields x with
                               | Some (xc, _, xi) => N.eqb xi linstr && opt_eqb xc lcallee
                               | None => false
                               end) (ord s i _ callsites))
        end
    end.

  (** [UnwindCallStackToFunc] *)
  Fixpoint unwind_to_func (t : list id) (f : option id) : list id :=
    match t with
    | [] => []
    | c :: rest => match call_fields c with
                   | Some (callee, _, _) => if opt_eqb callee f then t else unwind_to_func rest f
                   | None => unwind_to_func rest f
                   end
    end.

  (** [for nextNode, edgeInfos := range n.Out() { for _, edgeInfo := range edgeInfos { addNext(...) } }] *)
  Definition out_cands (s i : N) (n : node) (inter : option id) (t c : list id) (k : bool) (ti : list (option id * N))
             (keep : edgeinfo -> bool) : list cand :=
    flat_map (fun de => flat_map (fun ei => if keep ei then [mkCand inter (Some (fst de)) t c k ti ei] else [])
                                 (snd de))
             (ord s i _ (n_out n)).

  Definition all_edges (_ : edgeinfo) := true.

  Definition constructed (f : id) : res bool :=
    match fn_of f with Some r => Ok (f_constructed r) | None => Crash CrDangling end.

  (** [PopClosure] *)
  Definition pop_closure (k : bool) (ti : list (option id * N)) : bool * list (option id * N) :=
    if k then
      match ti with
      | [] => (false, [])
      | [_] => (false, [])
      | _ :: rest => (true, rest)
      end
    else (k, ti).

  Fixpoint concat_res {A} (l : list (res (list A))) : res (list A) :=
    match l with
    | [] => Ok []
    | r :: l' => bind r (fun a => bind (concat_res l') (fun b => Ok (a ++ b)))
    end.

  (** The [switch] of [Visit]: the calls of [addNext] made for the visitor node [cur], in order, one function per case.
      [s] is the number of the loop iteration; the second oracle argument numbers the range statements:
      0 [Out()] of the node itself (or of the unwound call site / closure), 1 the search in [Callsites],
      2 [Callsites] / [ReferringMakeClosures] / [ReadLocations], 3+i [Out()] at the i-th call site. *)

  Definition indexed {A} (l : list A) : list (N * A) := combine (map N.of_nat (seq 0 (length l))) l.

  (** graph of [Prev.Node] (None: no previous node) *)
  Definition prev_node (cur : vnode) : res (option node) :=
    match v_prev cur with
    | None => Ok None
    | Some p => match node_of p with Some pn => Ok (Some pn) | None => Crash CrDangling end
    end.

  Definition call_args (cs : id) : res (list (option id)) :=
    match node_of cs with
    | Some (mkNode (KCall _ _ _ _ _ args) _ _) => Ok args
    | _ => Crash CrDangling
    end.

  (* ---- *df.ParamNode *)
  Definition param_inside (s : N) (cur : vnode) (n : node) (fr : fnrec) : res (list cand) :=
    bind (prev_node cur) (fun op =>
    match op with
    | None => Ok []
    | Some pn =>
        let self_rec := match n_kind pn with
                        | KCallArg call _ => match call_fields call with
                                             | Some (callee, _, _) => opt_eqb callee (f_sf fr)
                                             | None => false
                                             end
                        | _ => false
                        end in
        if negb (Pos.eqb (n_fn pn) (n_fn n)) || self_rec
        then Ok (out_cands s 0 n None (v_trace cur) (v_ctrace cur) (v_kind cur) (v_tinfo cur) all_edges)
        else Ok []
    end).

  Definition param_nocontext_at (s : N) (cur : vnode) (idx : N) (ics : N * id) : res (list cand) :=
    bind (call_args (snd ics)) (fun args =>
    match nthN args idx with
    | None => Ok []                                  (* CheckIndex error *)
    | Some None => Crash CrNilDeref
    | Some (Some a) =>
        match node_of a with
        | Some an => Ok (out_cands s (3 + fst ics) an None [] (v_ctrace cur) (v_kind cur) (v_tinfo cur) all_edges)
        | None => Crash CrDangling
        end
    end).

  Definition param_back (s : N) (cur : vnode) (idx : N) (fr : fnrec) : res (list cand) :=
    bind (unwind_callee s 1 (f_callsites fr) (v_trace cur)) (fun uw =>
    match uw with
    | Some cs =>
        bind (call_args cs) (fun args =>
        match nthN args idx with
        | None => Ok []                                  (* CheckIndex error *)
        | Some None => Ok []                             (* nextNodeArg == nil *)
        | Some (Some a) => Ok [mkCand None (Some a) (tl (v_trace cur)) (v_ctrace cur) (v_kind cur) (v_tinfo cur) empty_edge]
        end)
    | None => concat_res (map (param_nocontext_at s cur idx) (indexed (ord s 2 _ (f_callsites fr))))
    end).

  Definition expand_param (s : N) (cur : vnode) (n : node) (fr : fnrec) (idx : N) : res (list cand) :=
    bind (param_inside s cur n fr) (fun part1 =>
    bind (param_back s cur idx fr) (fun part2 => Ok (part1 ++ part2))).

  (* ---- *df.CallNodeArg *)
  Definition callarg_inside (s : N) (cur : vnode) (n : node) (cfn : id) : res (list cand) :=
    bind (prev_node cur) (fun op =>
    match op with
    | None => Ok (out_cands s 0 n None (v_trace cur) (v_ctrace cur) (v_kind cur) (v_tinfo cur) all_edges)
    | Some pn => if negb (Pos.eqb cfn (n_fn pn))
                 then Ok (out_cands s 0 n None (v_trace cur) (v_ctrace cur) (v_kind cur) (v_tinfo cur) all_edges)
                 else Ok []
    end).

  Definition expand_callarg (s : N) (cur : vnode) (n : node) (call : id) (idx : N) : res (list cand) :=
    match node_of call with
    | Some (mkNode (KCall callee csum _ _ reach _) cfn _) =>
        match csum with
        | None =>
            match callee with
            | None => Crash CrNoCallee
            | Some _ => if c_ignore_ns cfg then Ok []
                        else if reach then Crash CrMissingSummary else Ok []
            end
        | Some cs =>
            match fn_of cs with
            | None => Crash CrDangling
            | Some csr =>
                if negb (f_constructed csr) && c_ignore_ns cfg then Ok []
                else
                  match nthN (f_params csr) idx with
                  | None => Crash CrIndex
                  | Some pnode =>
                      let push := mkCand None pnode (call :: v_trace cur) (v_ctrace cur) (v_kind cur) (v_tinfo cur) empty_edge in
                      bind (callarg_inside s cur n cfn) (fun l => Ok (push :: l))
                  end
            end
        end
    | _ => Crash CrDangling
    end.

  (* ---- *df.ReturnValNode *)
  Definition return_keep (ridx : Z) (ei : edgeinfo) : bool :=
    negb (Z.leb 0 ridx && Z.leb 0 (e_index ei) && negb (Z.eqb ridx (e_index ei))).

  Definition closure_return (cur : vnode) (n : node) : option (id * node * list id) :=
    match v_ctrace cur with
    | cl :: crest =>
        match node_of cl with
        | Some cln =>
            match n_kind cln with
            | KClosure (Some csum) _ _ => if Pos.eqb csum (n_fn n) then Some (cl, cln, crest) else None
            | _ => None
            end
        | None => None
        end
    | [] => None
    end.

  Definition return_nocontext_at (s : N) (cur : vnode) (ics : N * id) : res (list cand) :=
    match node_of (snd ics) with
    | Some csn => Ok (out_cands s (3 + fst ics) csn (Some (snd ics)) [] (v_ctrace cur) (v_kind cur) (v_tinfo cur) all_edges)
    | None => Crash CrDangling
    end.

  Definition expand_return (s : N) (cur : vnode) (n : node) (fr : fnrec) (ridx : Z) : res (list cand) :=
    bind (unwind_callee s 1 (f_callsites fr) (v_trace cur)) (fun uw =>
    match uw with
    | Some cs =>
        match node_of cs with
        | Some csn => Ok (out_cands s 0 csn (Some cs) (tl (v_trace cur)) (v_ctrace cur) (v_kind cur) (v_tinfo cur)
                                    (return_keep ridx))
        | None => Crash CrDangling
        end
    | None =>
        match closure_return cur n with
        | Some (cl, cln, crest) => Ok (out_cands s 0 cln (Some cl) (v_trace cur) crest (v_kind cur) (v_tinfo cur) all_edges)
        | None => concat_res (map (return_nocontext_at s cur) (indexed (ord s 2 _ (f_callsites fr))))
        end
    end).

  (* ---- *df.CallNode *)
  Definition call_closure_tracing (cur : vnode) (csum : option id) : res (list cand) :=
    if v_kind cur then
      match csum, v_tinfo cur with
      | Some cs, (Some cur_clo, tidx) :: _ =>
          if Pos.eqb cs cur_clo then
            match fn_of cs with
            | None => Crash CrDangling
            | Some csr =>
                match nthN (f_freevars csr) tidx with
                | None => Crash CrIndex
                | Some fv =>
                    let (k', ti') := pop_closure (v_kind cur) (v_tinfo cur) in
                    Ok [mkCand None fv (v_node cur :: v_trace cur) (v_ctrace cur) k' ti' empty_edge]
                end
            end
          else Ok []
      | _, _ => Ok []
      end
    else Ok [].

  Definition expand_call (s : N) (cur : vnode) (n : node) (csum : option id) (args : list (option id)) : res (list cand) :=
    bind (call_closure_tracing cur csum) (fun part1 =>
    let t' := tl (v_trace cur) in
    let part2 := out_cands s 0 n None t' (v_ctrace cur) (v_kind cur) (v_tinfo cur) all_edges in
    let part3 := if Pos.eqb (v_node cur) src
                 then map (fun a => mkCand None a t' (v_ctrace cur) (v_kind cur) (v_tinfo cur) empty_edge) args
                 else [] in
    Ok (part1 ++ part2 ++ part3)).

  (* ---- *df.BoundVarNode *)
  Definition expand_boundvar (s : N) (cur : vnode) (n : node) (clo : id) (idx : N) : res (list cand) :=
    let part1 := out_cands s 0 n None (v_trace cur) (v_ctrace cur) (v_kind cur) (v_tinfo cur) all_edges in
    match node_of clo with
    | Some clon =>
        match n_kind clon with
        | KClosure csum _ _ =>
            match csum with
            | None => Ok part1                     (* closure without summary: not reachable, ignored (fix 5a8979c) *)
            | Some cs =>
                match fn_of cs, fn_of (n_fn clon) with
                | Some csr, Some clor =>
                    if negb (f_constructed csr) && c_ignore_ns cfg then Ok part1
                    else Ok (part1 ++ [mkCand None (Some clo) (unwind_to_func (v_trace cur) (f_sf clor)) (clo :: v_ctrace cur) true
                                              ((Some cs, idx) :: v_tinfo cur) empty_edge])
                | _, _ => Crash CrDangling
                end
            end
        | _ => Crash CrDangling
        end
    | None => Crash CrDangling
    end.

  (* ---- *df.FreeVarNode *)
  Definition closure_bvs (cl : id) : res (list (option id)) :=
    match node_of cl with
    | Some cln => match n_kind cln with
                  | KClosure _ _ bvs => Ok bvs
                  | _ => Crash CrDangling
                  end
    | None => Crash CrDangling
    end.

  Definition freevar_nocontext_at (cur : vnode) (idx : N) (mc : id) : res (list cand) :=
    bind (closure_bvs mc) (fun bvs =>
    match nthN bvs idx with
    | Some bv => Ok [mkCand None bv (v_trace cur) [] (v_kind cur) (v_tinfo cur) empty_edge]
    | None => Crash CrNoMatchingBoundVar
    end).

  (** the contextual branch is taken only if there is a call stack and the top of the closure trace creates the closure
      the free variable belongs to (fix ba25c2c): the closure being left and the rest of the closure trace *)
  Definition freevar_context (cur : vnode) (n : node) : option (id * list id) :=
    match v_trace cur, v_ctrace cur with
    | _ :: _, cl :: crest =>
        match node_of cl with
        | Some cln =>
            match n_kind cln with
            | KClosure (Some csum) _ _ => if Pos.eqb csum (n_fn n) then Some (cl, crest) else None
            | _ => None
            end
        | None => None
        end
    | _, _ => None
    end.

  Definition freevar_nocontext (s : N) (cur : vnode) (fr : fnrec) (idx : N) : res (list cand) :=
    match f_referring fr with
    | [] => Crash CrNoReferring
    | _ => concat_res (map (freevar_nocontext_at cur idx) (ord s 2 _ (f_referring fr)))
    end.

  Definition expand_freevar (s : N) (cur : vnode) (n : node) (fr : fnrec) (idx : N) : res (list cand) :=
    bind (prev_node cur) (fun op =>
    let ins := match op with None => true | Some pn => negb (Pos.eqb (n_fn pn) (n_fn n)) end in
    if ins then Ok (out_cands s 0 n None (v_trace cur) (v_ctrace cur) (v_kind cur) (v_tinfo cur) all_edges)
    else
      match freevar_context cur n with
      | Some (cl, crest) =>
          bind (closure_bvs cl) (fun bvs =>
          match bvs with
          | [] => Crash CrNoBoundVars
          | _ => match nthN bvs idx with
                 | Some bv => Ok [mkCand None bv (tl (v_trace cur)) crest (v_kind cur) (v_tinfo cur) empty_edge]
                 | None => Crash CrNoMatchingBoundVar
                 end
          end)
      | None => freevar_nocontext s cur fr idx
      end).

  (* ---- *df.AccessGlobalNode *)
  Definition expand_global (s : N) (cur : vnode) (n : node) (iswrite : bool) (glob : id) : res (list cand) :=
    if iswrite then
      match PositiveMap.find glob (g_reads g) with
      | Some rl => Ok (map (fun r => mkCand None (Some r) [] (v_ctrace cur) (v_kind cur) (v_tinfo cur) empty_edge) (ord s 2 _ rl))
      | None => Ok []
      end
    else Ok (out_cands s 0 n None (v_trace cur) (v_ctrace cur) (v_kind cur) (v_tinfo cur) all_edges).

  (* ---- *df.BoundLabelNode *)
  Definition expand_boundlabel (cur : vnode) (dest clo : option id) (idx : N) : res (list cand) :=
    if c_skip_bl cfg then Ok []
    else
      match dest with
      | None => Ok []                              (* closure without summary: not reachable, ignored (fix 5a8979c) *)
      | Some d =>
          match fn_of d with
          | None => Crash CrDangling
          | Some dr =>
              match f_referring dr with
              | [] => Crash CrNoReferring
              | _ =>
                  match clo with
                  | None => Ok []
                  | Some cl =>
                      match node_of cl with
                      | Some clon =>
                          match n_kind clon, fn_of (n_fn clon) with
                          | KClosure csum _ _, Some clor =>
                              Ok [mkCand None (Some cl) (unwind_to_func (v_trace cur) (f_sf clor)) (cl :: v_ctrace cur) true
                                         ((csum, idx) :: v_tinfo cur) empty_edge]
                          | _, _ => Crash CrDangling
                          end
                      | None => Crash CrDangling
                      end
                  end
              end
          end
      end.

  Definition expand (s : N) (cur : vnode) : res (list cand) :=
    match node_of (v_node cur) with
    | None => Crash CrDangling
    | Some n =>
      match fn_of (n_fn n) with
      | None => Crash CrDangling
      | Some fr =>
        match n_kind n with
        | KParam idx => expand_param s cur n fr idx
        | KCallArg call idx => expand_callarg s cur n call idx
        | KReturn ridx => expand_return s cur n fr ridx
        | KCall _ csum _ _ _ args => expand_call s cur n csum args
        | KBoundVar clo idx => expand_boundvar s cur n clo idx
        | KFreeVar idx => expand_freevar s cur n fr idx
        (* *df.ClosureNode, *df.SyntheticNode: the outgoing edges *)
        | KClosure _ _ _ | KSynth => Ok (out_cands s 0 n None (v_trace cur) (v_ctrace cur) (v_kind cur) (v_tinfo cur) all_edges)
        | KGlobal iswrite glob => expand_global s cur n iswrite glob
        | KBoundLabel dest clo idx => expand_boundlabel cur dest clo idx
        (* *df.IfNode: never a successor (an error is recorded when implicit flows are tracked) *)
        | KIf => Ok []
        | KOther => Ok []
        end
      end
    end.

  (** ** [addNext] *)

  (** canonical access paths ([c_fixaps]): insertion into a list sorted by rank, without duplicates *)
  Fixpoint ins_path (x : positive) (l : list positive) : list positive :=
    match l with
    | [] => [x]
    | y :: l' => match Pos.compare (g_prank g x) (g_prank g y) with
                 | Lt => x :: l
                 | Eq => l
                 | Gt => y :: ins_path x l'
                 end
    end.

  Definition sort_dedup (l : list positive) : list positive := fold_right ins_path [] l.

  (** access paths of the next node; [None]: no matching path, edge not followed.
      [presum]: the edge stays inside a pre-summarized graph (its edges carry no path information: the destination is reached
      at access path "").  [labelled]: the node the edge starts from has labelled marks; if it has none and nothing matched,
      every out path of the edge is followed. *)
  Definition next_aps (s j : N) (aps : list positive) (e : edgeinfo) (presum labelled : bool) : option (list positive) :=
    let computed :=
        flat_map (fun io : positive * positive =>
                    flat_map (fun ap => if g_pfx g (fst io) ap then [snd io] else []) aps)
                 (ord s j _ (e_relpath e)) in
    let computed := if c_fixaps cfg then sort_dedup computed else computed in
    let naps :=
        if N.eqb (e_nin e) 0 || (N.eqb (e_nin e) 1 && e_ee e) then (if presum then [1%positive] else aps)
        else match computed with
             | [] => if N.ltb 0 (e_nin e) && negb labelled then sort_dedup (map snd (e_relpath e)) else []
             | _ => computed
             end in
    match naps with
    | [] => None
    | _ => Some naps
    end.

  Definition fn_of_node (n : id) : option id := match node_of n with Some nd => Some (n_fn nd) | None => None end.

  (** [cur.Node.Graph().IsPreSummarized && nextNode.Graph() == cur.Node.Graph()] *)
  Definition same_presum (cur : vnode) (cd : cand) : bool :=
    match fn_of_node (v_node cur), c_node cd with
    | Some f, Some nn => match fn_of_node nn with
                         | Some f' => g_presum g f && Pos.eqb f f'
                         | None => false
                         end
    | _, _ => false
    end.

  Definition edge_source (cur : vnode) (cd : cand) : id := match c_inter cd with Some i => i | None => v_node cur end.

  Definition cand_aps (s j : N) (cur : vnode) (cd : cand) : option (list positive) :=
    next_aps s j (v_aps cur) (c_edge cd) (same_presum cur cd) (g_labelled g (edge_source cur cd)).

  Definition exceeds_depth (d : N) : bool :=
    negb (Z.leb (c_maxdepth cfg) 0) && Z.ltb (c_maxdepth cfg) (Z.of_N d).

  (** the filters of [addNext] that do not look at [seen]: validator drop, access paths, depth, lasso.
      [Ok None]: dropped.  The new visitor node otherwise. *)
  Definition make_next (s j : N) (cur : vnode) (cd : cand) : res (option vnode) :=
    if existsb (p_validcond P) (e_conds (c_edge cd)) then Ok None
    else
      match v_aps cur with
      | [] => Crash CrNoAccessPaths
      | _ =>
          match cand_aps s j cur cd with
          | None => Ok None
          | Some naps =>
              match c_node cd with
              | None => Crash CrNilDeref                    (* Key() of a nil node *)
              | Some nn =>
                  match node_of nn with
                  | None => Crash CrDangling
                  | Some _ =>
                      let prev := match c_inter cd with Some i => i | None => v_node cur end in
                      let nv := mkV nn (c_trace cd) (c_ctrace cd) (c_kind cd) (c_tinfo cd) naps (Some prev)
                                    (N.succ (v_depth cur)) in
                      if exceeds_depth (v_depth cur) then Ok None
                      else if lasso (c_trace cd) || lasso (c_ctrace cd) then Ok None
                      else Ok (Some nv)
                  end
              end
          end
      end.

  Record state := mkState {
    st_queue : list vnode;
    st_seen : ltrie;
    st_hits : list vnode;                   (* sink visits, latest first *)
    st_alarms : N;
    st_visited : list vnode;                (* dequeued nodes, latest first *)
    st_step : N
  }.

  (** all [addNext] calls of one expansion, in order.  [j] numbers the calls (oracle for RelPath iteration). *)
  Fixpoint add_all (s j : N) (cur : vnode) (cds : list cand) (q : list vnode) (seen : ltrie)
    : res (list vnode * ltrie) :=
    match cds with
    | [] => Ok (q, seen)
    | cd :: cds' =>
        bind (make_next s j cur cd) (fun o =>
        match o with
        | None => add_all s (N.succ j) cur cds' q seen
        | Some nv =>
            (* the Go code tests seen before depth and lasso; dropping is the result in all three cases *)
            if lt_mem (vkey nv) seen then add_all s (N.succ j) cur cds' q seen
            else add_all s (N.succ j) cur cds' (q ++ [nv]) (lt_add (vkey nv) seen)
        end)
    end.

  Inductive stop_reason := StFiltered | StSink | StSanitizer | StUnconstructed.

  (** the tests made on the dequeued node before the [switch] *)
  Definition stop_of (cur : vnode) : res (option stop_reason) :=
    if p_filtered P (v_node cur) then Ok (Some StFiltered)
    else if p_sink P (v_node cur) && negb (v_kind cur) then Ok (Some StSink)
    else if p_sanitizer P (v_node cur) then Ok (Some StSanitizer)
    else
      match node_of (v_node cur) with
      | None => Crash CrDangling
      | Some n => bind (constructed (n_fn n)) (fun b =>
                  if negb b && c_ignore_ns cfg then Ok (Some StUnconstructed) else Ok None)
      end.

  Inductive outcome :=
  | Done (st : state)
  | AlarmStop (st : state)
  | OutOfFuel (st : state)
  | Crashed (c : crash) (st : state).

  Fixpoint loop (fuel : nat) (st : state) : outcome :=
    match fuel with
    | O => OutOfFuel st
    | S fuel' =>
        match st_queue st with
        | [] => Done st
        | cur :: q =>
            let s := st_step st in
            let vis := cur :: st_visited st in
            match stop_of cur with
            | Crash c => Crashed c st
            | Ok (Some StSink) =>
                let al := N.succ (st_alarms st) in
                let st' := mkState q (st_seen st) (cur :: st_hits st) al vis (N.succ s) in
                (* IncrementAndTestAlarms: stop iff MaxAlarms > 0 and the counter is no longer < MaxAlarms *)
                if N.ltb 0 (c_maxalarms cfg) && negb (N.ltb al (c_maxalarms cfg)) then AlarmStop st'
                else loop fuel' st'
            | Ok (Some _) => loop fuel' (mkState q (st_seen st) (st_hits st) (st_alarms st) vis (N.succ s))
            | Ok None =>
                match expand s cur with
                | Crash c => Crashed c st
                | Ok cds =>
                    match add_all s 16 cur cds q (st_seen st) with
                    | Crash c => Crashed c st
                    | Ok (q', seen') => loop fuel' (mkState q' seen' (st_hits st) (st_alarms st) vis (N.succ s))
                    end
                end
            end
        end
    end.

  (** [Visit(s, source)]: the root is queued without any test and is NOT added to [seen] *)
  Definition root_vnode (t : list id) : vnode := mkV src t [] false [] [1%positive] None 0.

  Definition init_state (t : list id) (alarms : N) : state :=
    mkState [root_vnode t] lt_empty [] alarms [] 0.

  Definition visit (fuel : nat) (t : list id) (alarms : N) : outcome := loop fuel (init_state t alarms).

  Definition outcome_state (o : outcome) : state :=
    match o with Done s | AlarmStop s | OutOfFuel s | Crashed _ s => s end.

  (** one expansion with the [seen]-independent filters applied (used by the step-wise tie) *)
  Fixpoint make_all (s j : N) (cur : vnode) (cds : list cand) : res (list vnode) :=
    match cds with
    | [] => Ok []
    | cd :: cds' =>
        bind (make_next s j cur cd) (fun o =>
        bind (make_all s (N.succ j) cur cds') (fun l =>
        Ok (match o with Some nv => nv :: l | None => l end)))
    end.

  Definition step_cands (s : N) (cur : vnode) : res (option stop_reason * list vnode) :=
    bind (stop_of cur) (fun so =>
    match so with
    | Some r => Ok (Some r, [])
    | None => bind (expand s cur) (fun cds => bind (make_all s 16 cur cds) (fun l => Ok (None, l)))
    end).

End Model.
