(** * Model of analysis/escape/graph.go  (C15)

    Executable, total, proof-free.  The graph is modelled exactly as stored by [EscapeGraph]:
    [edges : map[*Node]map[*Node]edgeFlags], [status : map[*Node]EscapeStatus]; the rationales are left out, as
    they are by [Matches].  Nodes are [positive] ids (the dumper uses [Node.number + 1]); the intrinsic status of a
    node (a function of its kind in Go, [Node.IntrinsicEscape]) is a parameter [intr].

    Go map iteration order is arbitrary: wherever the code ranges over a map the model ranges over [ord l] for the
    list [l] of entries, where [ord] is an arbitrary reordering ([Proofs/EscGraph.v] assumes [ord l] is a
    permutation of [l] and shows that no result depends on it).  [Merge] is modelled by [merge_lists], a fold over
    arbitrary lists of atomic edges and status entries; [merge] instantiates them with the entries of [h]. *)
From stdpp Require Import gmap.
From Coq Require Import List.
Import ListNotations.

(** ** Status and flags *)
Inductive estatus := Local | Escaped | Leaked.

Definition st_le (a b : estatus) : bool :=
  match a, b with
  | Local, _ => true
  | Escaped, Local => false
  | Escaped, _ => true
  | Leaked, Leaked => true
  | Leaked, _ => false
  end.
Definition st_lt (a b : estatus) : bool := negb (st_le b a).
Definition st_max (a b : estatus) : estatus := if st_le a b then b else a.
Definition st_rank (a : estatus) : nat := match a with Local => 0 | Escaped => 1 | Leaked => 2 end.
Definition st_eqb (a b : estatus) : bool := st_le a b && st_le b a.

(** edge flags: (EdgeInternal, EdgeExternal, EdgeSubnode) *)
Record flags := mkFlags { f_int : bool; f_ext : bool; f_sub : bool }.
Definition f_none := mkFlags false false false.
Definition f_or (a b : flags) := mkFlags (f_int a || f_int b) (f_ext a || f_ext b) (f_sub a || f_sub b).
Definition f_sub_of (a b : flags) : bool :=
  implb (f_int a) (f_int b) && implb (f_ext a) (f_ext b) && implb (f_sub a) (f_sub b).
Definition f_is_none (a : flags) : bool := negb (f_int a || f_ext a || f_sub a).
Definition f_eqb (a b : flags) : bool := f_sub_of a b && f_sub_of b a.

(** the atomic flags [Edges] enumerates, in the code's order: external, internal, subnode *)
Inductive bit := BInt | BExt | BSub.
Definition f_bit (b : bit) : flags :=
  match b with BInt => mkFlags true false false | BExt => mkFlags false true false | BSub => mkFlags false false true end.
Definition f_has (f : flags) (b : bit) : bool :=
  match b with BInt => f_int f | BExt => f_ext f | BSub => f_sub f end.
Definition f_bits (f : flags) : list bit :=
  (if f_ext f then [BExt] else []) ++ (if f_int f then [BInt] else []) ++ (if f_sub f then [BSub] else []).

Definition node := positive.

Record graph := mkGraph { edges : gmap node (gmap node flags); status : gmap node estatus }.

Definition empty_graph : graph := mkGraph ∅ ∅.

(** [g.status[n]] with Go's zero default *)
Definition sigma (st : gmap node estatus) (n : node) : estatus := default Local (st !! n).
Definition out_edges (g : graph) (n : node) : gmap node flags := default ∅ (edges g !! n).

Inductive result (A : Type) := Done (a : A) | OutOfFuel.
Arguments Done {A} a.
Arguments OutOfFuel {A}.

Section WithEnv.
  Variable intr : node -> estatus.                         (* Node.IntrinsicEscape *)
  Variable ord : list node -> list node.                   (* map iteration order *)

  (** ** AddNode *)
  Definition add_node (n : node) (g : graph) : graph :=
    match status g !! n with
    | Some _ => g
    | None => mkGraph (<[n := ∅]> (edges g)) (<[n := intr n]> (status g))
    end.

  (** ** computeEdgeClosure *)
  (* one pass of the inner [for succ := range g.edges[node]] loop: raises every successor below [s] and returns the
     raised ones in the order they are appended to the worklist *)
  Fixpoint raise_succs (s : estatus) (succs : list node) (st : gmap node estatus) : gmap node estatus * list node :=
    match succs with
    | [] => (st, [])
    | x :: rest =>
        if st_lt (sigma st x) s
        then let '(st', new) := raise_succs s rest (<[x := s]> st) in (st', x :: new)
        else raise_succs s rest st
    end.

  Definition succs_of (e : gmap node (gmap node flags)) (n : node) : list node :=
    ord (map fst (map_to_list (default ∅ (e !! n)))).

  (* the worklist is a stack: pop from the end, append at the end; [wl] is kept reversed (head = top) *)
  Fixpoint close_loop (fuel : nat) (e : gmap node (gmap node flags)) (wl : list node) (st : gmap node estatus)
    : result (gmap node estatus) :=
    match wl with
    | [] => Done st
    | n :: wl' =>
        match fuel with
        | O => OutOfFuel
        | S k =>
            let '(st', new) := raise_succs (sigma st n) (succs_of e n) st in
            close_loop k e (rev new ++ wl') st'
        end
    end.

  (** fuel that always suffices (see [close_loop_fuel]): every push is a strict raise, at most two per node *)
  Definition targets_of (e : gmap node (gmap node flags)) : gset node :=
    ⋃ (map (fun kv => dom (snd kv)) (map_to_list e)).
  Definition close_fuel (e : gmap node (gmap node flags)) : nat := 2 * size (targets_of e) + 2.

  Definition closure_st (fuel : nat) (e : gmap node (gmap node flags)) (a b : node) (st : gmap node estatus)
    : result (gmap node estatus) :=
    if st_lt (sigma st b) (sigma st a)
    then close_loop fuel e [b] (<[b := sigma st a]> st)
    else Done st.

  Definition closure_fuel (fuel : nat) (a b : node) (g : graph) : result graph :=
    match closure_st fuel (edges g) a b (status g) with
    | Done st => Done (mkGraph (edges g) st)
    | OutOfFuel => OutOfFuel
    end.

  (** total version used by the executable model: the fuel bound is proved sufficient, the fallback is never taken *)
  Definition closure (a b : node) (g : graph) : graph :=
    match closure_fuel (close_fuel (edges g)) a b g with
    | Done g' => g'
    | OutOfFuel => g
    end.

  (** ** AddEdge *)
  Definition add_edge (a b : node) (f : flags) (g : graph) : graph :=
    let g1 := match edges g !! a with
              | Some _ => g
              | None => let g' := add_node a g in mkGraph (<[a := ∅]> (edges g')) (status g')
              end in
    let out := out_edges g1 a in                      (* the map object [outEdges] *)
    let g2 := add_node b g1 in
    (* [AddNode(dest)] replaces [g.edges[dest]] when dest has no status entry; if dest = src the write
       [outEdges[dest] |= newFlag] then goes to a map that is no longer part of the graph *)
    let lost := bool_decide (a = b) && negb (bool_decide (is_Some (status g1 !! b))) in
    let g3 := if lost then g2
              else mkGraph (<[a := <[b := f_or (default f_none (out !! b)) f]> out]> (edges g2)) (status g2) in
    closure a b g3.

  (** ** MergeNodeStatus *)
  Definition merge_node_status (n : node) (s : estatus) (g : graph) : graph :=
    let raise := match status g !! n with None => true | Some old => st_lt old s end in
    if raise then
      let g1 := mkGraph (edges g) (<[n := s]> (status g)) in
      fold_left (fun acc p => closure n p acc) (succs_of (edges g1) n) g1
    else g.

  (** ** Edges(src, nil, EdgeAll): the atomic out-edges of [src] *)
  Definition atomic_out (g : graph) (src : node) : list (node * bit) :=
    flat_map (fun d => map (fun b => (d, b)) (f_bits (default f_none (out_edges g src !! d)))) (succs_of (edges g) src).

  (** Edges(nil, nil, EdgeAll) *)
  Definition atomic_edges (g : graph) : list (node * node * bit) :=
    flat_map (fun s => map (fun db => (s, fst db, snd db)) (atomic_out g s)) (ord (map fst (map_to_list (edges g)))).

  (** ** WeakAssign.  [analog dest sub] is AnalogousSubnode (a function of the node group's subnode tables, which
      also adds the subnode edge [dest -> result] through FieldSubnode/ImplementationSubnode; [None] models the
      same-type case that returns [base] itself without adding an edge is [Some dest] with [false]). *)
  Variable analog : node -> node -> option (node * bool).   (* (analogous subnode, subnode edge added?) *)

  Fixpoint weak_assign (fuel : nat) (dest src : node) (g : graph) : result graph :=
    match fuel with
    | O => OutOfFuel
    | S k =>
        let g0 := add_node dest g in
        fold_left
          (fun acc e =>
             match acc with
             | OutOfFuel => OutOfFuel
             | Done h =>
                 match snd e with
                 | BSub =>
                     match analog dest (fst e) with
                     | Some (d', addsub) =>
                         let h' := if addsub then add_edge dest d' (f_bit BSub) h else h in
                         weak_assign k d' (fst e) h'
                     | None => Done h      (* the code would call WeakAssign(nil, _) here; not modelled *)
                     end
                 | _ => Done (add_edge dest (fst e) (f_bit BInt) h)
                 end
             end)
          (atomic_out g0 src) (Done g0)
    end.

  (** WeakAssign when [src] has no subnode out-edges (no use of the subnode tables) *)
  Definition weak_assign_flat (dest src : node) (g : graph) : graph :=
    let g0 := add_node dest g in
    fold_left (fun h e => add_edge dest (fst e) (f_bit BInt) h) (atomic_out g0 src) g0.

  (** ** Pointees, EnsureLoadNode (the load node chosen by the node group is the parameter [ldn]), and the
      field-less forms of StoreField / LoadField *)
  Definition pointees (g : graph) (n : node) : list node := succs_of (edges g) n.

  Variable ldn : node -> node.
  Definition ensure_load (base : node) (g : graph) : graph :=
    match sigma (status g) base with
    | Local => g
    | _ => add_edge base (ldn base) (f_bit BExt) g
    end.

  Definition store_flat (addr val : node) (g : graph) : graph :=
    fold_left (fun h p => weak_assign_flat p val h) (pointees g addr) g.

  Definition load_flat (val addr : node) (g : graph) : graph :=
    fold_left (fun h p => weak_assign_flat val p (ensure_load p h)) (pointees g addr) g.

  (** ** Merge *)
  Definition merge_lists (es : list (node * node * bit)) (ss : list (node * estatus)) (g : graph) : graph :=
    let g1 := fold_left (fun acc e => add_edge (fst (fst e)) (snd (fst e)) (f_bit (snd e)) acc) es g in
    fold_left (fun acc ns => merge_node_status (fst ns) (snd ns) (add_node (fst ns) acc)) ss g1.

  Definition merge (g h : graph) : graph :=
    merge_lists (atomic_edges h) (map (fun n => (n, sigma (status h) n)) (ord (map fst (map_to_list (status h))))) g.

  (** ** LessEqual, Matches *)
  Definition has_bit (g : graph) (a b : node) (x : bit) : bool :=
    f_has (default f_none (out_edges g a !! b)) x.

  Definition less_equal (g h : graph) : bool :=
    forallb (fun e => has_bit h (fst (fst e)) (snd (fst e)) (snd e)) (atomic_edges g)
    && forallb (fun ns => match status h !! fst ns with
                          | Some hs => st_le (snd ns) hs
                          | None => false
                          end) (map_to_list (status g)).

  (* reflect.DeepEqual on both maps *)
  Definition flags_map_eqb (m1 m2 : gmap node flags) : bool :=
    bool_decide (dom m1 = dom m2)
    && forallb (fun kv => match m2 !! fst kv with Some f2 => f_eqb (snd kv) f2 | None => false end) (map_to_list m1).
  Definition matches (g h : graph) : bool :=
    bool_decide (dom (status g) = dom (status h))
    && forallb (fun kv => match status h !! fst kv with Some s2 => st_eqb (snd kv) s2 | None => false end)
               (map_to_list (status g))
    && bool_decide (dom (edges g) = dom (edges h))
    && forallb (fun kv => match edges h !! fst kv with Some m2 => flags_map_eqb (snd kv) m2 | None => false end)
               (map_to_list (edges g)).

  (** ** The invariant (boolean form, used by the tie to classify inputs) *)
  Definition flags_ok (f : flags) : bool := negb (f_is_none f).
  Definition wf_b (g : graph) : bool :=
    bool_decide (dom (edges g) = dom (status g))
    && forallb (fun kv => forallb (fun df => bool_decide (is_Some (status g !! fst df)) && flags_ok (snd df))
                                  (map_to_list (snd kv))) (map_to_list (edges g))
    && forallb (fun ns => st_le (intr (fst ns)) (snd ns)) (map_to_list (status g)).
  Definition closed_b (g : graph) : bool :=
    forallb (fun kv => forallb (fun df => st_le (sigma (status g) (fst kv)) (sigma (status g) (fst df)))
                               (map_to_list (snd kv))) (map_to_list (edges g)).
  Definition inv_b (g : graph) : bool := wf_b g && closed_b g.

  (** ** Executable specification of the join: union of the edge maps, pointwise maximum of the statuses, closed *)
  Definition union_edges (g h : graph) : gmap node (gmap node flags) :=
    union_with (fun m1 m2 => Some (union_with (fun f1 f2 => Some (f_or f1 f2)) m1 m2)) (edges g) (edges h).
  Definition max_status (g h : graph) : gmap node estatus :=
    union_with (fun s1 s2 => Some (st_max s1 s2)) (status g) (status h).
  (* naive closure: repeat "for every edge a->b raise b to at least a" [n] times *)
  Definition close_pass (e : gmap node (gmap node flags)) (st : gmap node estatus) : gmap node estatus :=
    fold_left (fun acc ab => if st_lt (sigma acc (snd ab)) (sigma acc (fst ab))
                             then <[snd ab := sigma acc (fst ab)]> acc else acc)
              (flat_map (fun kv => map (fun df => (fst kv, fst df)) (map_to_list (snd kv))) (map_to_list e)) st.
  Fixpoint close_n (n : nat) (e : gmap node (gmap node flags)) (st : gmap node estatus) : gmap node estatus :=
    match n with O => st | S k => close_n k e (close_pass e st) end.
  Definition join_naive (g h : graph) : graph :=
    let e := union_edges g h in
    let st := max_status g h in
    mkGraph e (close_n (2 * size (dom st) + 1) e st).

  (** the join used in the theorems: the closure of the union, computed with [computeEdgeClosure] on every edge *)
  Definition all_pairs (e : gmap node (gmap node flags)) : list (node * node) :=
    flat_map (fun kv => map (fun df => (fst kv, fst df)) (map_to_list (snd kv))) (map_to_list e).
  Definition close_graph (g : graph) : graph :=
    fold_left (fun acc ab => closure (fst ab) (snd ab) acc) (all_pairs (edges g)) g.
  Definition join_spec (g h : graph) : graph :=
    close_graph (mkGraph (union_edges g h) (max_status g h)).
End WithEnv.
