(* muSSA: the fragment of x/tools SSA the pointer-analysis / call-graph soundness statements (C11, C12) are about, with a
   small-step semantics.  Executable definitions only (no proofs).

   - registers, function names, allocation sites, call sites, type tags and method names are [positive] identifiers
     (assigned by the ssa2mu translator, harness/cmd/c11dump/mu.go);
   - a heap object carries its allocation site, its kind (struct-like: one abstract cell per concrete cell; array-like
     with a stride: concrete cell i is abstracted by [i mod stride], used for arrays/slices/channels (stride 1) and
     maps (stride 2: key cell, value cell)), an optional dynamic type tag (objects made by MakeInterface) and its cells;
   - values are scalars (no pointer content), pointers to a cell of an object, and function values with their captured
     environment (closures capture by reference because, as in x/tools SSA, the bindings are pointers to Alloc cells);
   - an interface value is a pointer to a tagged one-cell box allocated by IMakeIface;
   - opaque data (branch conditions, indices, map slots) is resolved by an oracle value supplied to every step. *)
From Coq Require Import List NArith PArith Bool.
Import ListNotations.

Definition reg := positive.
Definition fname := positive.
Definition site := positive.      (* allocation sites, globals and call sites *)
Definition tag := positive.
Definition mname := positive.
Definition blockid := nat.
Definition loc := nat.

Inductive okind := KStruct | KArr (stride : N).

Inductive operand := OReg (r : reg) | OGlobal (g : site) | OFun (f : fname) | OConst.

Inductive callee := CStatic (f : fname) | CDyn (x : operand) | CInvoke (x : operand) (m : mname).

Inductive instr :=
| IAlloc (dst : reg) (s : site) (k : okind) (n : nat)        (* Alloc, MakeSlice, MakeMap, MakeChan: n cells *)
| ICopy (dst : reg) (src : operand)                          (* ChangeType, Convert, ChangeInterface, Slice *)
| IPhi (dst : reg) (edges : list (blockid * operand))
| IScalar (dst : reg)                                        (* BinOp, non-deref UnOp, builtins, external calls *)
| ILoad (dst : reg) (addr : operand)
| IStore (addr val : operand)
| IFieldAddr (dst : reg) (base : operand) (off : N)
| IIndexAddr (dst : reg) (base : operand) (w : N)            (* element w of an oracle-chosen row of an array-like object *)
| IMakeClosure (dst : reg) (f : fname) (binds : list operand)
| IMakeIface (dst : reg) (s : site) (t : tag) (x : operand)
| ITypeAssert (dst : reg) (x : operand) (t : tag)
| ICall (dst : reg) (cs : site) (c : callee) (args : list operand).

Inductive term := TJump (b : blockid) | TIf (b1 b2 : blockid) | TReturn (o : operand).

Record block := { binstrs : list instr; bterm : term }.
Record func := { fparams : list reg; ffree : list reg; fblocks : list block }.

Record prog := {
  funcs : list (fname * func);
  globals : list (site * (okind * nat));
  mtable : list ((tag * mname) * fname);
  roots : list fname }.

Fixpoint find_func_in (fs : list (fname * func)) (f : fname) : option func :=
  match fs with
  | [] => None
  | (g, fn) :: r => if Pos.eqb g f then Some fn else find_func_in r f
  end.
Definition find_func (P : prog) (f : fname) : option func := find_func_in (funcs P) f.

Fixpoint lookup_m_in (mt : list ((tag * mname) * fname)) (t : tag) (m : mname) : option fname :=
  match mt with
  | [] => None
  | ((t', m'), g) :: r => if Pos.eqb t' t && Pos.eqb m' m then Some g else lookup_m_in r t m
  end.
Definition lookup_m (P : prog) (t : tag) (m : mname) : option fname := lookup_m_in (mtable P) t m.

Fixpoint global_loc_in (gs : list (site * (okind * nat))) (g : site) (base : nat) : option loc :=
  match gs with
  | [] => None
  | (g', _) :: r => if Pos.eqb g' g then Some base else global_loc_in r g (S base)
  end.
Definition global_loc (P : prog) (g : site) : option loc := global_loc_in (globals P) g 0.

(* ---------------------------------------------------------------------------------------------- run-time state *)
Inductive value := VScalar | VPtr (l : loc) (off : N) | VClo (f : fname) (env : list value).

Record obj := { osite : site; okd : okind; otag : option tag; ocells : list value }.
Definition heap := list obj.
Definition env := reg -> value.

Definition upd (e : env) (r : reg) (v : value) : env := fun r' => if Pos.eqb r' r then v else e r'.
Definition empty_env : env := fun _ => VScalar.

Fixpoint bind (rs : list reg) (vs : list value) (e : env) : env :=
  match rs, vs with
  | r :: rs', v :: vs' => upd (bind rs' vs' e) r v
  | _, _ => e
  end.

Record frame := { ffn : fname; fenv : env; fblk : blockid; fprev : blockid; fpc : nat; fret : reg }.

Record state := { sheap : heap; sstack : list frame; spending : list fname }.

Inductive event := ECall (cs : site) (g : fname) | EStart (g : fname).

Definition mk_global (g : site * (okind * nat)) : obj :=
  {| osite := fst g; okd := fst (snd g); otag := None; ocells := repeat VScalar (snd (snd g)) |}.

Definition init_state (P : prog) : state :=
  {| sheap := map mk_global (globals P); sstack := []; spending := roots P |}.

Definition eval (P : prog) (e : env) (o : operand) : value :=
  match o with
  | OReg r => e r
  | OGlobal g => match global_loc P g with Some l => VPtr l 0 | None => VScalar end
  | OFun f => VClo f []
  | OConst => VScalar
  end.

Fixpoint set_nth {A} (l : list A) (i : nat) (x : A) : list A :=
  match l, i with
  | [], _ => []
  | _ :: r, O => x :: r
  | a :: r, S j => a :: set_nth r j x
  end.

Definition set_cells (ob : obj) (cs : list value) : obj :=
  {| osite := osite ob; okd := okd ob; otag := otag ob; ocells := cs |}.

Fixpoint find_edge (es : list (blockid * operand)) (b : blockid) : option operand :=
  match es with
  | [] => None
  | (b', o) :: r => if Nat.eqb b' b then Some o else find_edge r b
  end.

Definition set_env (fr : frame) (e : env) : frame :=
  {| ffn := ffn fr; fenv := e; fblk := fblk fr; fprev := fprev fr; fpc := S (fpc fr); fret := fret fr |}.

Definition goto (fr : frame) (b : blockid) : frame :=
  {| ffn := ffn fr; fenv := fenv fr; fblk := b; fprev := fblk fr; fpc := 0; fret := fret fr |}.

Definition new_frame (g : fname) (gfn : func) (args cenv : list value) (ret : reg) : frame :=
  {| ffn := g; fenv := bind (ffree gfn) cenv (bind (fparams gfn) args empty_env); fblk := 0; fprev := 0; fpc := 0; fret := ret |}.

Definition ret_into (caller : frame) (r : reg) (v : value) : frame :=
  {| ffn := ffn caller; fenv := upd (fenv caller) r v; fblk := fblk caller; fprev := fprev caller; fpc := fpc caller;
     fret := fret caller |}.

(* resolution of a call: callee name, captured environment, extra leading argument (interface receiver) *)
Definition resolve (P : prog) (h : heap) (e : env) (c : callee) : option (fname * list value * list value) :=
  match c with
  | CStatic g => Some (g, [], [])
  | CDyn x => match eval P e x with VClo g cenv => Some (g, cenv, []) | _ => None end
  | CInvoke x m =>
      match eval P e x with
      | VPtr l _ =>
          match nth_error h l with
          | Some ob =>
              match otag ob, nth_error (ocells ob) 0 with
              | Some t, Some recv => match lookup_m P t m with Some g => Some (g, [], [recv]) | None => None end
              | _, _ => None
              end
          | None => None
          end
      | _ => None
      end
  end.

Definition exec_instr (P : prog) (o : nat) (h : heap) (fr : frame) (rest : list frame) (pend : list fname) (i : instr)
  : option (state * option event) :=
  let e := fenv fr in
  let continue h' e' := Some ({| sheap := h'; sstack := set_env fr e' :: rest; spending := pend |}, None) in
  match i with
  | IAlloc d s k n =>
      continue (h ++ [{| osite := s; okd := k; otag := None; ocells := repeat VScalar n |}]) (upd e d (VPtr (length h) 0))
  | ICopy d src => continue h (upd e d (eval P e src))
  | IPhi d es => match find_edge es (fprev fr) with Some src => continue h (upd e d (eval P e src)) | None => None end
  | IScalar d => continue h (upd e d VScalar)
  | ILoad d a =>
      match eval P e a with
      | VPtr l off =>
          match nth_error h l with
          | Some ob =>
              match otag ob, nth_error (ocells ob) (N.to_nat off) with
              | None, Some v => continue h (upd e d v)
              | _, _ => None
              end
          | None => None
          end
      | _ => None
      end
  | IStore a v =>
      match eval P e a with
      | VPtr l off =>
          match nth_error h l with
          | Some ob =>
              match otag ob with
              | None =>
                  if Nat.ltb (N.to_nat off) (length (ocells ob))
                  then continue (set_nth h l (set_cells ob (set_nth (ocells ob) (N.to_nat off) (eval P e v)))) e
                  else None
              | Some _ => None
              end
          | None => None
          end
      | _ => None
      end
  | IFieldAddr d b k =>
      match eval P e b with
      | VPtr l off =>
          match nth_error h l with
          | Some ob => match otag ob, okd ob with None, KStruct => continue h (upd e d (VPtr l (off + k))) | _, _ => None end
          | None => None
          end
      | _ => None
      end
  | IIndexAddr d b w =>
      match eval P e b with
      | VPtr l off =>
          match nth_error h l with
          | Some ob =>
              match otag ob, okd ob with
              | None, KArr st => if N.ltb w st then continue h (upd e d (VPtr l (N.of_nat o * st + w))) else None
              | _, _ => None
              end
          | None => None
          end
      | _ => None
      end
  | IMakeClosure d g bs => continue h (upd e d (VClo g (map (eval P e) bs)))
  | IMakeIface d s t x =>
      continue (h ++ [{| osite := s; okd := KStruct; otag := Some t; ocells := [eval P e x] |}]) (upd e d (VPtr (length h) 0))
  | ITypeAssert d x t =>
      match eval P e x with
      | VPtr l _ =>
          match nth_error h l with
          | Some ob =>
              match otag ob, nth_error (ocells ob) 0 with
              | Some t', Some v => if Pos.eqb t' t then continue h (upd e d v) else None
              | _, _ => None
              end
          | None => None
          end
      | _ => None
      end
  | ICall d cs c args =>
      match resolve P h e c with
      | Some (g, cenv, pre) =>
          match find_func P g with
          | Some gfn =>
              Some ({| sheap := h;
                       sstack := new_frame g gfn (pre ++ map (eval P e) args) cenv d :: set_env fr e :: rest;
                       spending := pend |}, Some (ECall cs g))
          | None => None
          end
      | None => None
      end
  end.

Definition exec_term (P : prog) (o : nat) (h : heap) (fr : frame) (rest : list frame) (pend : list fname) (t : term)
  : option (state * option event) :=
  match t with
  | TJump b => Some ({| sheap := h; sstack := goto fr b :: rest; spending := pend |}, None)
  | TIf b1 b2 => Some ({| sheap := h; sstack := goto fr (if Nat.even o then b1 else b2) :: rest; spending := pend |}, None)
  | TReturn x =>
      let v := eval P (fenv fr) x in
      match rest with
      | [] => Some ({| sheap := h; sstack := []; spending := pend |}, None)
      | caller :: rest' => Some ({| sheap := h; sstack := ret_into caller (fret fr) v :: rest'; spending := pend |}, None)
      end
  end.

(* one step under oracle value o; None = stuck or finished *)
Definition step (P : prog) (o : nat) (st : state) : option (state * option event) :=
  match sstack st with
  | [] =>
      match spending st with
      | [] => None
      | r :: pend =>
          match find_func P r with
          | Some rfn => Some ({| sheap := sheap st; sstack := [new_frame r rfn [] [] 1%positive]; spending := pend |},
                              Some (EStart r))
          | None => None
          end
      end
  | fr :: rest =>
      match find_func P (ffn fr) with
      | Some fn =>
          match nth_error (fblocks fn) (fblk fr) with
          | Some blk =>
              match nth_error (binstrs blk) (fpc fr) with
              | Some i => exec_instr P o (sheap st) fr rest (spending st) i
              | None => exec_term P o (sheap st) fr rest (spending st) (bterm blk)
              end
          | None => None
          end
      | None => None
      end
  end.

(* execution under a finite oracle prefix; stops at the first stuck/final state.  Returns the state and the events. *)
Fixpoint run (P : prog) (os : list nat) (st : state) : state * list event :=
  match os with
  | [] => (st, [])
  | o :: os' =>
      match step P o st with
      | None => (st, [])
      | Some (st', ev) =>
          let '(st'', evs) := run P os' st' in
          (st'', match ev with Some x => x :: evs | None => evs end)
      end
  end.
