(* Lang/RegSem.v -- an executable PROVENANCE semantics for the value-computing (register) fragment that the rule system
   of Model/Intra.v talks about: layer L1 of DESIGN §4 C01 item 1 ([intra_sound]).  Executable definitions only (no
   proofs; those are in Proofs/RegSem.v, the statements in Properties/C01Sem.v).

   The machine is driven by the SAME record [Intra.func] that the C08 dumper produces and the T-cert validators check:
     - a state [env] maps every SSA value to its provenance = the set of ORIGIN MARKS whose data the value was computed
       from (parameters / free variables get their own mark on entry; result #k of a non-builtin call is born with the
       CallReturn mark of index k when the call executes: both are the entries of [f_origins]);
     - executing the instruction at point p that defines r OVERWRITES the provenance of r (registers are re-assigned
       when a loop body runs again) by the union of the provenance of its data operands:
         BinOp UnOp Convert ChangeType ChangeInterface MakeInterface TypeAssert SliceToArrayPointer Field FieldAddr
         Index IndexAddr Lookup Next Range, x.Error()    every operand
         Slice                                           the sliced object only (Low/High/Max are bounds)
         Phi                                             ONE operand, chosen by the oracle from the history of executed
                                                         points (so "the operand of the predecessor actually taken"
                                                         is one of the oracles the theorems quantify over)
         Extract #j of a call tuple t                    only the marks born as result #j of t (tuple-index discipline:
                                                         component j of a call's tuple is exactly result j)
         Extract #j of any other tuple                   every mark of the tuple (comma-ok forms, next, select)
         append len min max complex real imag wrapnilchk every operand
         cap copy recover, no-value builtins,
         Call Go Defer MakeClosure Return If, other      nothing (a call's result is an origin, not a function of the
                                                         arguments INSIDE this function)
       this table ([sem_ops] / [passes]) is written here independently of [Intra.data_ops] / [Intra.idx_ok]; Proofs/RegSem.v
       proves it is included in the rule system's table, so dropping a kind from the rule system breaks the proofs;
     - an execution is a path through the CFG [f_succ] from an arbitrary entry point, the successor being chosen by an
       arbitrary branch oracle (history-dependent), with fuel; the result is the list of visited configurations
       (point, environment on arrival, environment after the instruction) and a distinct [OutOfFuel] outcome.

   What L1 deliberately leaves out: heap cells (stores, loads THROUGH memory: a load [*p] is a UnOp and only carries
   the provenance of the pointer register p; the content of the cell is layer L2 and needs the alias / referrer rules),
   access paths (L3), inter-procedural composition (a call result is a fresh origin), implicit flows (If conditions
   are uses, not transfers), and the relation between this provenance semantics and real Go execution (validated only by
   the native ground truth of tools/props/c01.py).  Section "L2, restricted" below adds a store/load extension for
   whole cells allocated in the function and dereferenced only through the Alloc's own register (location-based heap). *)
From Coq Require Import List Bool PArith NArith Arith FMapPositive FSetPositive.
From Argot Require Import Model.Intra.
Import ListNotations.

Definition pset := PositiveSet.t.
Definition env := PositiveMap.t pset.                    (* value -> provenance (missing = empty) *)

Definition prov (e : env) (v : value) : pset :=
  match PositiveMap.find v e with Some s => s | None => PositiveSet.empty end.

Definition has (e : env) (v : value) (m : mark) : bool := PositiveSet.mem m (prov e v).

Definition add_mark (v : value) (m : mark) (e : env) : env := PositiveMap.add v (PositiveSet.add m (prov e v)) e.

(* origin marks born at point p *)
Definition add_origins (F : func) (p : point) (e : env) : env :=
  fold_left (fun e (o : mark * point * value) =>
               match o with (m, q, v) => if Pos.eqb q p then add_mark v m e else e end) (f_origins F) e.

(* ---- the semantics' own table of data operands -------------------------------------------------------------------- *)

Definition builtin_yields_data (b : builtin) : bool :=
  match b with
  | BAppend | BLen | BMin | BMax | BComplex | BReal | BImag | BWrapNilChk => true
  | BCap | BCopy | BRecover | BNoValue => false
  end.

(* the operands the result of an instruction of kind k is computed from; [phi] is the oracle's choice at a Phi *)
Definition sem_ops (k : ikind) (ops : list value) (phi : nat) : list value :=
  match k with
  | KBinOp | KUnOp | KConvert | KChangeType | KChangeInterface | KMakeInterface | KTypeAssert | KSliceToArrayPointer
  | KExtract _ _ | KField | KFieldAddr | KIndex | KIndexAddr | KLookup | KNext | KRange | KErrorInvoke => ops
  | KSlice => match ops with x :: _ => [x] | [] => [] end
  | KPhi => match nth_error ops phi with Some a => [a] | None => [] end
  | KBuiltin b => if builtin_yields_data b then ops else []
  | KCall | KGo | KDefer | KMakeClosure | KReturn | KIf | KOther => []
  end.

(* which marks of operand a pass into the result: the tuple-index discipline at Extract of a call tuple *)
Definition passes (F : func) (k : ikind) (a : value) (m : mark) : bool :=
  match k with
  | KExtract j true =>
      match PositiveMap.find m (f_tuple F) with
      | Some (t, k') => Pos.eqb t a && N.eqb k' j
      | None => false
      end
  | _ => true
  end.

Definition ops_prov (F : func) (k : ikind) (ops : list value) (e : env) : pset :=
  fold_right (fun a acc => PositiveSet.union (PositiveSet.filter (passes F k a) (prov e a)) acc) PositiveSet.empty ops.

(* ---- execution ---------------------------------------------------------------------------------------------------- *)

(* history = the executed points, most recent first (the current point is its head) *)
Record oracle := { o_branch : list point -> nat; o_phi : list point -> nat }.

Definition exec_instr (F : func) (orc : oracle) (hist : list point) (p : point) (e : env) : env :=
  match PositiveMap.find p (f_instr F) with
  | Some i =>
      match i_def i with
      | Some r => PositiveMap.add r (ops_prov F (i_kind i) (sem_ops (i_kind i) (i_ops i) (o_phi orc hist)) e) e
      | None => e
      end
  | None => e
  end.

Definition step_env (F : func) (orc : oracle) (hist : list point) (p : point) (e : env) : env :=
  add_origins F p (exec_instr F orc hist p e).

Definition pick (c : nat) (l : list point) : option point :=
  match l with [] => None | _ :: _ => nth_error l (Nat.modulo c (length l)) end.

Record config := { c_pt : point; c_pre : env; c_post : env }.

Inductive outcome := Returned | OutOfFuel.

Fixpoint run (F : func) (orc : oracle) (fuel : nat) (hist : list point) (p : point) (e : env) : list config * outcome :=
  match fuel with
  | O => ([], OutOfFuel)
  | S k =>
      let hist' := p :: hist in
      let e' := step_env F orc hist' p e in
      let c := {| c_pt := p; c_pre := e; c_post := e' |} in
      match pick (o_branch orc hist') (succs F p) with
      | Some q => let (t, o) := run F orc k hist' q e' in (c :: t, o)
      | None => ([c], Returned)
      end
  end.

(* parameters and free variables carry their marks on arrival at the entry point *)
Definition init_env (F : func) (entry : point) : env := add_origins F entry (PositiveMap.empty _).

Definition exec (F : func) (orc : oracle) (fuel : nat) (entry : point) : list config * outcome :=
  run F orc fuel [] entry (init_env F entry).

Definition trace (F : func) (orc : oracle) (fuel : nat) (entry : point) : list config := fst (exec F orc fuel entry).

(* value v, consumed at configuration c, carries mark m (on arrival or after the instruction: a call's arguments are
   read on arrival, the theorems cover both) *)
Definition carries (c : config) (v : value) (m : mark) : Prop := has (c_pre c) v m = true \/ has (c_post c) v m = true.

(* ---- the path-aware specification: a def-use chain all of whose instructions were executed ------------------------- *)

Inductive chain_in (F : func) (T : point -> Prop) (m : mark) : value -> value -> list value -> Prop :=
| chi_nil v : chain_in F T m v v []
| chi_cons a r z l p : T p -> transfers F p a r m -> chain_in F T m r z l -> chain_in F T m a z (r :: l).

(* executable observation for the examples: the (point, value, mark, node) uses of a trace *)
Definition observed_edges (F : func) (t : list config) : list (mark * unode) :=
  flat_map (fun c => flat_map (fun vu => map (fun m => (m, snd vu))
                                           (PositiveSet.elements (PositiveSet.union (prov (c_pre c) (fst vu))
                                                                                    (prov (c_post c) (fst vu)))))
                              (uses_at F (c_pt c))) t.

(* ================================================================================================================== *)
(* L2, restricted: whole cells created by Alloc in this function, accessed only through the Alloc's own register.

   [Intra.func] has no store / alloc information (Store and Alloc are [KOther], a load is a [KUnOp]), so the extension
   carries it beside the func: [h_store p = (a, x)] the instruction at p is [*a = x]; [h_load p = a] the instruction at
   p is the load [r = *a] (its [i_ops] are [a]); [h_alloc] the points whose instruction is an Alloc.

   The heap is LOCATION based: an Alloc binds its register to a fresh location holding an empty (zero-valued) cell; a
   pointer is copied by Phi / Convert / ChangeType / ChangeInterface / MakeInterface / TypeAssert; a store through a
   register that holds a pointer is a STRONG update of the cell by the provenance of the stored value; a load yields the
   provenance of the address register united with that of the cell.  Outside the fragment (and therefore the reason the
   theorem is named [_partial]): sub-cell pointers (FieldAddr / IndexAddr results are not pointers here: a store
   through them writes nothing), maps / slices / channels, globals, pointers received as parameters or from calls, and
   pointers that escape to a callee which writes through them.  The fragment's side condition [addr_alloc] (boolean
   [check_addr_alloc]) says every register used as the address of a store or load HAS a defining instruction and is
   defined by Alloc instructions only (a dereferenced parameter / free variable / global has no defining instruction
   and puts the function outside the fragment); copies of the pointer may exist but are never dereferenced, so no two
   dereferenced registers alias. *)

Record hfunc := {
  h_func  : func;
  h_store : PositiveMap.t (value * value);        (* point -> (address register, stored value) *)
  h_load  : PositiveMap.t value;                  (* point -> address register of the load at that point *)
  h_alloc : PositiveSet.t                         (* points whose instruction is an Alloc *)
}.

Definition loc := positive.

Record hstate := {
  s_reg  : env;                       (* register -> provenance *)
  s_ptr  : PositiveMap.t loc;         (* register -> the location it points to, if it holds a pointer *)
  s_heap : env;                       (* location -> provenance of the cell *)
  s_next : loc                        (* next fresh location *)
}.

Definition defines (F : func) (p : point) : option value :=
  match PositiveMap.find p (f_instr F) with Some i => i_def i | None => None end.

Definition allocating (H : hfunc) (p : point) : bool :=
  match defines (h_func H) p with Some _ => PositiveSet.mem p (h_alloc H) | None => false end.

Definition copies_pointer (k : ikind) : bool :=
  match k with
  | KPhi | KConvert | KChangeType | KChangeInterface | KMakeInterface | KTypeAssert => true
  | _ => false
  end.

(* the location the result of the instruction at p points to, when it is a copy of a pointer *)
Definition ptr_src (H : hfunc) (orc : oracle) (hist : list point) (p : point) (s : hstate) : option loc :=
  match PositiveMap.find p (f_instr (h_func H)) with
  | Some i =>
      if copies_pointer (i_kind i) then
        match sem_ops (i_kind i) (i_ops i) (o_phi orc hist) with
        | [a0] => PositiveMap.find a0 (s_ptr s)
        | _ => None
        end
      else None
  | None => None
  end.

Definition cell (s : hstate) (a : value) : pset :=
  match PositiveMap.find a (s_ptr s) with Some l => prov (s_heap s) l | None => PositiveSet.empty end.

Definition hregs (H : hfunc) (orc : oracle) (hist : list point) (p : point) (s : hstate) : env :=
  let regs := exec_instr (h_func H) orc hist p (s_reg s) in
  let regs := match PositiveMap.find p (h_load H), defines (h_func H) p with
              | Some a, Some r => PositiveMap.add r (PositiveSet.union (prov regs r) (cell s a)) regs
              | _, _ => regs
              end in
  add_origins (h_func H) p regs.

Definition hptr (H : hfunc) (orc : oracle) (hist : list point) (p : point) (s : hstate) : PositiveMap.t loc :=
  match defines (h_func H) p with
  | Some r =>
      if allocating H p then PositiveMap.add r (s_next s) (s_ptr s)
      else match ptr_src H orc hist p s with
           | Some l => PositiveMap.add r l (s_ptr s)
           | None => PositiveMap.remove r (s_ptr s)
           end
  | None => s_ptr s
  end.

Definition heap_stored (H : hfunc) (p : point) (s : hstate) : env :=
  match PositiveMap.find p (h_store H) with
  | Some (a, x) =>
      match PositiveMap.find a (s_ptr s) with
      | Some l => PositiveMap.add l (prov (s_reg s) x) (s_heap s)
      | None => s_heap s
      end
  | None => s_heap s
  end.

Definition hheap (H : hfunc) (p : point) (s : hstate) : env :=
  if allocating H p then PositiveMap.add (s_next s) PositiveSet.empty (heap_stored H p s) else heap_stored H p s.

Definition hnext (H : hfunc) (p : point) (s : hstate) : loc :=
  if allocating H p then Pos.succ (s_next s) else s_next s.

Definition hexec_instr (H : hfunc) (orc : oracle) (hist : list point) (p : point) (s : hstate) : hstate :=
  {| s_reg := hregs H orc hist p s; s_ptr := hptr H orc hist p s; s_heap := hheap H p s; s_next := hnext H p s |}.

Record hconfig := { hc_pt : point; hc_pre : hstate; hc_post : hstate }.

Fixpoint hrun (H : hfunc) (orc : oracle) (fuel : nat) (hist : list point) (p : point) (s : hstate)
  : list hconfig * outcome :=
  match fuel with
  | O => ([], OutOfFuel)
  | S k =>
      let hist' := p :: hist in
      let s' := hexec_instr H orc hist' p s in
      let c := {| hc_pt := p; hc_pre := s; hc_post := s' |} in
      match pick (o_branch orc hist') (succs (h_func H) p) with
      | Some q => let (t, o) := hrun H orc k hist' q s' in (c :: t, o)
      | None => ([c], Returned)
      end
  end.

Definition hinit (H : hfunc) (entry : point) : hstate :=
  {| s_reg := init_env (h_func H) entry; s_ptr := PositiveMap.empty _; s_heap := PositiveMap.empty _; s_next := 1%positive |}.

Definition htrace (H : hfunc) (orc : oracle) (fuel : nat) (entry : point) : list hconfig :=
  fst (hrun H orc fuel [] entry (hinit H entry)).

Definition hcarries (c : hconfig) (v : value) (m : mark) : Prop :=
  has (s_reg (hc_pre c)) v m = true \/ has (s_reg (hc_post c)) v m = true.

(* the rule the analysis needs on top of R for this fragment: the stored value's marks are put on the address
   register at the store (analysis/dataflow DoStore: "transfer to the address"), from where the load's UnOp transfer
   rule and the forward rule carry them to every later load through the same register *)
Definition store_closed (H : hfunc) (S : fact -> Prop) : Prop :=
  forall p a x m, PositiveMap.find p (h_store H) = Some (a, x) -> S (Mark p x m) -> S (Mark p a m).

(* the load table is consistent with the instruction table: a load is a value-computing instruction over its address *)
Definition loads_ok (H : hfunc) : Prop :=
  forall p a, PositiveMap.find p (h_load H) = Some a ->
  exists i, PositiveMap.find p (f_instr (h_func H)) = Some i /\ i_kind i = KUnOp /\ i_ops i = [a].

(* registers dereferenced by a store or a load *)
Definition addr (H : hfunc) (a : value) : Prop :=
  (exists p x, PositiveMap.find p (h_store H) = Some (a, x)) \/ (exists p, PositiveMap.find p (h_load H) = Some a).

(* the fragment: every dereferenced register HAS a defining instruction (so it is not a parameter, free variable or
   global, whose cells this semantics does not model: a store through them would write nothing) and all its defining
   instructions are Allocs *)
Definition addr_alloc (H : hfunc) : Prop :=
  forall a, addr H a ->
  (exists p i, PositiveMap.find p (f_instr (h_func H)) = Some i /\ i_def i = Some a) /\
  (forall p i, PositiveMap.find p (f_instr (h_func H)) = Some i -> i_def i = Some a ->
   PositiveSet.mem p (h_alloc H) = true).

Definition check_loads_ok (H : hfunc) : bool :=
  forallb (fun pa => match PositiveMap.find (fst pa) (f_instr (h_func H)) with
                     | Some i => match i_kind i, i_ops i with
                                 | KUnOp, [a] => Pos.eqb a (snd pa)
                                 | _, _ => false
                                 end
                     | None => false
                     end) (PositiveMap.elements (h_load H)).

Definition check_store_closed (H : hfunc) (l : list fact) : bool :=
  let s := fs_build l in
  forallb (fun f => match f with
                    | Mark p x m =>
                        match PositiveMap.find p (h_store H) with
                        | Some (a, x') => if Pos.eqb x' x then mem_mark s p a m else true
                        | None => true
                        end
                    | Edge _ _ => true
                    end) l.

Definition addr_regs (H : hfunc) : list value :=
  map (fun pax => fst (snd pax)) (PositiveMap.elements (h_store H)) ++ map snd (PositiveMap.elements (h_load H)).

Definition defines_reg (a : value) (pi : point * instr) : bool :=
  match i_def (snd pi) with Some r => Pos.eqb r a | None => false end.

Definition check_addr_alloc (H : hfunc) : bool :=
  forallb (fun a => existsb (defines_reg a) (PositiveMap.elements (f_instr (h_func H))) &&
                    forallb (fun pi => if defines_reg a pi then PositiveSet.mem (fst pi) (h_alloc H) else true)
                            (PositiveMap.elements (f_instr (h_func H)))) (addr_regs H).

Definition hobserved_edges (H : hfunc) (t : list hconfig) : list (mark * unode) :=
  flat_map (fun c => flat_map (fun vu => map (fun m => (m, snd vu))
                                           (PositiveSet.elements (PositiveSet.union (prov (s_reg (hc_pre c)) (fst vu))
                                                                                    (prov (s_reg (hc_post c)) (fst vu)))))
                              (uses_at (h_func H) (hc_pt c))) t.
