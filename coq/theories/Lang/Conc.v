(* Conc: a small concurrent heap language (the calculus of C13/C14).

   Threads with local registers, a shared heap of objects with pointer fields, global variables holding pointers,
   `go f(args)` spawning a thread whose parameter registers receive the argument values.  Control flow is a graph:
   every instruction carries the list of its possible successor program points and the scheduler oracle picks the
   thread that moves and the successor it takes, so every branch of every condition is a possible behaviour
   (a superset of the behaviours of the Go program: conditions are opaque).  The semantics is a sequentially
   consistent interleaving: one instruction of one thread at a time, a schedule is a list of oracle choices and the
   theorems quantify over all schedules.

   Instruction kinds = the core of the escape analysis' transfer function (analysis/escape/escape.go):
     IAlloc   *ssa.Alloc / MakeMap / MakeSlice / MakeChan / MakeClosure (a fresh object)
     ICopy    Phi, Convert, ChangeType, MakeInterface of a pointer, Slice of a slice, FieldAddr/IndexAddr (objects
              are field-insensitive for addresses: a field address is a pointer to the object)
     ILoad    UnOp MUL (load), Lookup, Index on slices, receive (generalised field "contents")
     IStore   Store, MapUpdate, Send
     IGLoad / IGStore   load/store of a package-level variable
     IGo      go statement with a static callee
   Absent (the proved fragment lacks them): Call/Defer/RunDefers (summary instantiation), closures' free variables,
   interface dispatch, TypeAssert, Select, Next/Range, builtins (append/copy/delete), struct values (copyStruct). *)
From Coq Require Import List Arith Bool Lia.
Import ListNotations.

Definition reg := nat.
Definition loc := nat.
Definition fld := nat.
Definition gvar := nat.
Definition fname := nat.
Definition val := option loc.

Inductive instr : Type :=
| IAlloc (r : reg)
| ICopy (r s : reg)
| ILoad (r s : reg) (f : fld)          (* r := s.f *)
| IStore (r : reg) (f : fld) (s : reg)  (* r.f := s *)
| IGLoad (r : reg) (g : gvar)
| IGStore (g : gvar) (s : reg)
| IGo (fn : fname) (args : list reg)
| INop.

Record func : Type := { f_arity : nat; f_code : list (instr * list nat) }.
Definition prog := list func.          (* function 0 is main *)

Record thread : Type := { t_fn : fname; t_pc : nat; t_regs : reg -> val; t_live : bool }.

Record state : Type := {
  heap : loc -> fld -> val;
  nxt : loc;                           (* allocation counter: objects >= nxt do not exist yet *)
  glob : gvar -> val;
  thr : list thread }.

Definition upd {A : Type} (m : nat -> A) (k : nat) (v : A) : nat -> A :=
  fun x => if Nat.eqb x k then v else m x.

Definition upd2 (h : loc -> fld -> val) (l : loc) (f : fld) (v : val) : loc -> fld -> val :=
  fun x y => if Nat.eqb x l && Nat.eqb y f then v else h x y.

Definition fetch (P : prog) (fn pc : nat) : option (instr * list nat) :=
  match nth_error P fn with
  | Some f => nth_error (f_code f) pc
  | None => None
  end.

Fixpoint set_nth {A : Type} (l : list A) (n : nat) (x : A) : list A :=
  match l, n with
  | [], _ => []
  | _ :: t, O => x :: t
  | h :: t, S k => h :: set_nth t k x
  end.

Definition init_state : state :=
  {| heap := fun _ _ => None; nxt := 0; glob := fun _ => None;
     thr := [ {| t_fn := 0; t_pc := 0; t_regs := fun _ => None; t_live := true |} ] |}.

(* the thread after its instruction: moves to the successor chosen by the oracle, or ends *)
Definition advance (t : thread) (regs : reg -> val) (succs : list nat) (br : nat) : thread :=
  match nth_error succs br with
  | Some pc' => {| t_fn := t_fn t; t_pc := pc'; t_regs := regs; t_live := true |}
  | None => {| t_fn := t_fn t; t_pc := t_pc t; t_regs := regs; t_live := false |}
  end.

Definition spawn_regs (regs : reg -> val) (args : list reg) : reg -> val :=
  fun k => match nth_error args k with Some a => regs a | None => None end.

(* one step: thread tid executes its current instruction and takes successor number br.
   A disabled choice (no such thread, dead thread, nil dereference) leaves the state unchanged. *)
Definition step (P : prog) (s : state) (c : nat * nat) : state :=
  let (tid, br) := c in
  match nth_error (thr s) tid with
  | None => s
  | Some t =>
    if negb (t_live t) then s else
    match fetch P (t_fn t) (t_pc t) with
    | None => {| heap := heap s; nxt := nxt s; glob := glob s;
                 thr := set_nth (thr s) tid {| t_fn := t_fn t; t_pc := t_pc t; t_regs := t_regs t; t_live := false |} |}
    | Some (i, succs) =>
      match i with
      | IAlloc r =>
        {| heap := heap s; nxt := S (nxt s); glob := glob s;
           thr := set_nth (thr s) tid (advance t (upd (t_regs t) r (Some (nxt s))) succs br) |}
      | ICopy r q =>
        {| heap := heap s; nxt := nxt s; glob := glob s;
           thr := set_nth (thr s) tid (advance t (upd (t_regs t) r (t_regs t q)) succs br) |}
      | ILoad r q f =>
        match t_regs t q with
        | None => s
        | Some l =>
          {| heap := heap s; nxt := nxt s; glob := glob s;
             thr := set_nth (thr s) tid (advance t (upd (t_regs t) r (heap s l f)) succs br) |}
        end
      | IStore r f q =>
        match t_regs t r with
        | None => s
        | Some l =>
          {| heap := upd2 (heap s) l f (t_regs t q); nxt := nxt s; glob := glob s;
             thr := set_nth (thr s) tid (advance t (t_regs t) succs br) |}
        end
      | IGLoad r g =>
        {| heap := heap s; nxt := nxt s; glob := glob s;
           thr := set_nth (thr s) tid (advance t (upd (t_regs t) r (glob s g)) succs br) |}
      | IGStore g q =>
        {| heap := heap s; nxt := nxt s; glob := upd (glob s) g (t_regs t q);
           thr := set_nth (thr s) tid (advance t (t_regs t) succs br) |}
      | IGo fn args =>
        {| heap := heap s; nxt := nxt s; glob := glob s;
           thr := set_nth (thr s) tid (advance t (t_regs t) succs br)
                  ++ [ {| t_fn := fn; t_pc := 0; t_regs := spawn_regs (t_regs t) args; t_live := true |} ] |}
      | INop =>
        {| heap := heap s; nxt := nxt s; glob := glob s;
           thr := set_nth (thr s) tid (advance t (t_regs t) succs br) |}
      end
    end
  end.

Definition run (P : prog) (sched : list (nat * nat)) : state := fold_left (step P) sched init_state.

(* heap reachability and sharing *)
Inductive hreach (h : loc -> fld -> val) : loc -> loc -> Prop :=
| hr_refl : forall l, hreach h l l
| hr_step : forall l f l' l'', h l f = Some l' -> hreach h l' l'' -> hreach h l l''.

(* l is reachable from a global variable or from the registers of a thread other than tid (live or finished) *)
Definition shared (s : state) (tid : nat) (l : loc) : Prop :=
  (exists g l0, glob s g = Some l0 /\ hreach (heap s) l0 l) \/
  (exists k t r l0, k <> tid /\ nth_error (thr s) k = Some t /\ t_regs t r = Some l0 /\ hreach (heap s) l0 l).
