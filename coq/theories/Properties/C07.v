(** * C07 - the analyses terminate without crashing on every well-typed program.

    What the kernel checks here:
      [visit_terminates]        the forward traversal model (taint [Visitor.Visit] + [addNext], Model/Visit.v, tied to the
                                code by tools/props/travlib.py) never runs out of the fuel [fuel_bound_fs g] computed from the
                                graph: ALL graphs (field-sensitive mode included), all taint problems and configurations of
                                the code as it is now ([c_fixaps cfg = true]: access paths canonical, fix d51dcca), all sources,
                                all entry contexts with a lasso-free call stack, all iteration orders.  No size bound.
      [visit_terminates_path_insensitive]  the same for graphs with trivial relative paths (field-sensitive: false), for
                                both variants of [addNext] (with the smaller bound [fuel_bound g]).
      [dispatch_total_partial]  every type switch of the anchored files that panics in its default clause covers every
                                concrete implementer of the interface it switches on, except the listed exceptions
                                (finite theorem over the table regenerated from the Go sources by gentables on every run;
                                each exception has a side condition that tools/props/c07.py checks on every run).
    [visit_unfixed_divergence_bounded] documents why the fix was needed: the model of the ORIGINALLY pinned [addNext]
    ([c_fixaps = false]) is still running after 300 iterations on a 7-node graph.
    Not proved (see status/C07.md): termination of the other loops (backward traversal, intra-procedural pass, escape,
    pointer analysis), which are covered by the crash/timeout corpus only. *)
From Coq Require Import List String PArith NArith ZArith Bool FMapPositive.
From Argot Require Import Model.Visit Proofs.VisitBase Proofs.VisitInv Proofs.VisitTerm Proofs.VisitExamples.
From ArgotGen Require Import GenInstr.
Import ListNotations.

(** ** (a) termination of the forward traversal *)

Theorem visit_terminates :
  forall (g : graph) (P : preds) (cfg : config) (ord : oracle) (src : id) (t : list id) (alarms : N),
    ord_perm ord -> c_fixaps cfg = true -> wf_trace g t ->
    forall st, visit g P cfg ord src (fuel_bound_fs g) t alarms <> OutOfFuel st.
Proof. exact visit_terminates_fixed_lemma. Qed.

Theorem visit_terminates_path_insensitive :
  forall (g : graph) (P : preds) (cfg : config) (ord : oracle) (src : id) (t : list id) (alarms : N),
    ord_perm ord -> path_insensitive g -> wf_trace g t ->
    forall st, visit g P cfg ord src (fuel_bound g) t alarms <> OutOfFuel st.
Proof. exact visit_terminates_lemma. Qed.

(** the hypotheses are satisfiable: a graph with a recursive function (path-insensitive) and the field-sensitive graph of
    `x := source(); for .. { x = id(x) }; sink(x.A)`; on both the run is non-trivial and reaches the sink *)
Example visit_terminates_nonvacuous :
  ord_perm ord_id /\ path_insensitive ex1_g /\ wf_trace ex1_g [1%positive] /\
  (let o := visit ex1_g ex1_P cfg0 ord_id 1 40 [1%positive] 0 in
   is_done o = true /\ hit_nodes o = [(5%positive, [])] /\ List.length (st_visited (outcome_state o)) = 9%nat) /\
  c_fixaps cfg_fixed = true /\ wf_trace ex3_g [1%positive] /\
  (let o' := visit ex3_g ex3_P cfg_fixed ord_id 1 300 [1%positive] 0 in
   is_done o' = true /\ map fst (hit_nodes o') = [5%positive]).
Proof.
  split; [exact ord_id_perm|]. split; [exact ex1_pi|]. split; [exact ex1_root_wf|]. split; [exact ex1_run|].
  split; [reflexivity|]. split.
  - split.
    + simpl. constructor; [intros []|constructor].
    + constructor; [|constructor]. unfold in_dom. vm_compute. discriminate.
  - vm_compute. split; reflexivity.
Qed.

(** before fix d51dcca: on the 7-node graph of `x := source(); for .. { x = id(x) }; sink(x.A)` the model of the original
    [addNext] is still running after 300 iterations with access-path lists of more than 100 entries (over 3 distinct paths);
    the current one finishes after 7 visits *)
Example visit_unfixed_divergence_bounded :
  let o := visit ex3_g ex3_P cfg0 ord_id 1 300 [1%positive] 0 in
  let o' := visit ex3_g ex3_P cfg_fixed ord_id 1 300 [1%positive] 0 in
  c_fixaps cfg0 = false /\ is_out_of_fuel o = true /\ Nat.leb 100 (max_aps o) = true /\
  is_done o' = true /\ Nat.leb (max_aps o') 3 = true /\ map fst (hit_nodes o') = [5%positive] /\
  existsb (fun h => Pos.eqb (fst h) 5) (hit_nodes o) = true.
Proof. split; [reflexivity|exact f3_diverges_bounded]. Qed.

(** ** (b) dispatch tables *)

Open Scope string_scope.

Definition str_mem (s : string) (l : list string) : bool := existsb (String.eqb s) l.

Definition uncovered (sw : tswitch) : list string := filter (fun t => negb (str_mem t (sw_covered sw))) (sw_domain sw).

(** exceptions: (enclosing function, interface, uncovered concrete type).  Side conditions checked by the C07 check on
    every run:
      *ssa.MultiConvert  only occurs in bodies of uninstantiated generic functions; no such function is reachable (hence
                         summarised or given to the pointer analysis): GEN reachable_uninstantiated = 0 and
                         reachable_multiconvert = 0 on a corpus that does contain MultiConvert instructions;
      *dataflow.IfNode   has no outgoing edge and is not a backtrace entry point, so the backward traversal never visits it; *)
Definition exceptions : list (string * string * string) :=
  [ ("InstrSwitch", "ssa.Instruction", "*ssa.MultiConvert");
    ("*analysis.genInstr", "ssa.Instruction", "*ssa.MultiConvert");
    ("*Visitor.visit", "dataflow.GraphNode", "*dataflow.IfNode") ].

Definition exc_mem (f i t : string) : bool :=
  existsb (fun e => match e with (f', i', t') => String.eqb f f' && String.eqb i i' && String.eqb t t' end) exceptions.

Definition dispatch_ok (sw : tswitch) : bool :=
  negb (sw_panics sw) || forallb (fun t => exc_mem (sw_func sw) (sw_iface sw) t) (uncovered sw).

(** full statement (what the property demands): no panicking default clause is reachable by a concrete type *)
Definition dispatch_total : Prop :=
  forall sw, In sw type_switches -> sw_panics sw = true -> uncovered sw = [].

Theorem dispatch_total_partial :
  forall sw, In sw type_switches -> sw_panics sw = true ->
  forall t, In t (uncovered sw) -> exc_mem (sw_func sw) (sw_iface sw) t = true.
Proof.
  assert (forallb dispatch_ok type_switches = true) as H by (vm_compute; reflexivity).
  intros sw Hin Hp t Ht. rewrite forallb_forall in H. specialize (H sw Hin).
  unfold dispatch_ok in H. rewrite Hp in H. simpl in H. rewrite forallb_forall in H. exact (H t Ht).
Qed.

(** the table is not empty: it contains the instruction dispatcher with all the instruction types of the pinned x/tools *)
Example dispatch_nonvacuous :
  existsb (fun sw => String.eqb (sw_func sw) "InstrSwitch" && sw_panics sw && Nat.leb 30 (List.length (sw_domain sw))) type_switches = true
  /\ Nat.leb 30 (List.length ssa_instruction_types) = true.
Proof. vm_compute. split; reflexivity. Qed.
