(** C09 - built-in standard-library summaries: positions written in the table line up with the functions' signatures.

    Model: Model/Summ.v ([apply] = NewPredefinedSummary/PopulateGraphFromSummary/addParamEdgeByPos/addReturnEdgeByPos).
    The table [gen_std_table] is regenerated on every run from analysis/summaries/*.go and the std library in use
    (coq/gen/GenStd.v, harness/cmd/gentables/gen_std.go), so the finite theorems below are re-proved against the code
    as it is now.  The semantic half of C09 (does the summary list every flow the std function can exhibit?) is about Go
    library code that is not modelled; it is searched by native probing in tools/props/c09.py. *)
From Coq Require Import List ZArith Bool String.
Import ListNotations.
From Argot Require Import Model.Summ Proofs.Summ.
From ArgotGen Require Import GenStd.

(** For ALL summaries and ALL signatures. *)

Theorem apply_exact : forall s sg, conforms s sg = true -> forall e, In e (edges (apply s sg)) <-> In e (written s).
Proof. exact Proofs.Summ.apply_exact. Qed.

Theorem apply_exact_eq : forall s sg, conforms s sg = true -> edges (apply s sg) = written s.
Proof. exact Proofs.Summ.apply_exact_eq. Qed.

Theorem nonconforming_drops : forall s sg, conforms s sg = false ->
  exists e, In e (written s) /\ ~ In e (edges (apply s sg)).
Proof. exact Proofs.Summ.nonconforming_drops. Qed.

Theorem conforms_iff_nothing_dropped : forall s sg,
  conforms s sg = true <-> (forall e, In e (written s) -> In e (edges (apply s sg))).
Proof. exact Proofs.Summ.conforms_iff_nothing_dropped. Qed.

Theorem apply_never_invents : forall s sg e, In e (edges (apply s sg)) -> In e (written s) /\ creatable sg e = true.
Proof. exact Proofs.Summ.apply_sound. Qed.

Theorem apply_in_out_consistent : forall s sg, g_in (apply s sg) = g_out (apply s sg).
Proof. exact Proofs.Summ.apply_in_out. Qed.

(** The full statement about the table.  It does NOT hold as stated: 14 entries list positions that name no parameter or
    result of their function (no flow is lost: corpus/c09_known_nonconforming.txt gives the rationale per entry; they are
    reported in evidence only).  Two further entries that DID lose a real flow - strings.Join and the WithContext method of
    net/http.Request - were repaired in /repo commit 89e1de2 and are no longer excepted.  The statement is kept visible here
    and proved with the committed exception list [gen_std_known]; a new non-conforming entry makes the proof of
    [std_table_conforms_except] fail. *)
Definition std_table_conforms_stmt : Prop :=
  forallb (fun e => conforms (e_summary e) (e_sig e)) gen_std_table = true.

Theorem std_table_conforms_except : forallb (entry_ok gen_std_known) gen_std_table = true.
Proof. vm_compute. reflexivity. Qed.

(** What the finite check means for each entry of the table. *)
Theorem std_table_entries_exact : forall e, In e gen_std_table -> mem_string (e_name e) gen_std_known = false ->
  edges (apply (e_summary e) (e_sig e)) = written (e_summary e).
Proof. exact (table_ok_forall gen_std_known gen_std_table std_table_conforms_except). Qed.

(** T-dump checked by the kernel: for every entry, the graph the REAL dataflow.NewPredefinedSummary built for the real
    function (read back from both adjacency maps by gen_std.go on this run) is, as a set of edges, the model's. *)
Theorem std_apply_matches_impl : forallb entry_matches_impl gen_std_table = true.
Proof. vm_compute. reflexivity. Qed.

(** Hence: for every non-excepted entry the real graph has exactly the edges the table writes. *)
Theorem std_impl_edges_are_written : forall e, In e gen_std_table -> mem_string (e_name e) gen_std_known = false ->
  forall x, In x (e_impl_out e) <-> In x (written (e_summary e)).
Proof. exact (table_impl_written gen_std_known gen_std_table std_table_conforms_except std_apply_matches_impl). Qed.

(** Non-vacuity and the refutation witness (a literal copy of the strings.Join entry as it was before commit 89e1de2 and of
    its repaired form, with the go1.23 signature, so that these examples do not depend on the regenerated table). *)
Example strings_Join_pinned_nonconforming :
  conforms (mk_summary [[0%Z]; [1%Z]] [[0%Z]; [1%Z]]) (mk_sig 2 [1; 1; 1]) = false
  /\ ~ In (ER 1 1%Z) (edges (apply (mk_summary [[0%Z]; [1%Z]] [[0%Z]; [1%Z]]) (mk_sig 2 [1; 1; 1]))).
Proof. split; [reflexivity|]. vm_compute. intros [H|[H|[H|[]]]]; discriminate. Qed.

Example strings_Join_repaired_conforms :
  conforms (mk_summary [[0%Z]; [1%Z]] [[0%Z]; [0%Z]]) (mk_sig 2 [1; 1; 1]) = true.
Proof. reflexivity. Qed.

Example conforming_nontrivial :   (* fmt.Fprintf: 3 parameters, 2 results *)
  conforms (mk_summary [[0%Z]; [0%Z; 1%Z]; [0%Z; 2%Z]] [[0%Z]; [0%Z]; [0%Z]]) (mk_sig 3 [2]) = true
  /\ List.length (edges (apply (mk_summary [[0%Z]; [0%Z; 1%Z]; [0%Z; 2%Z]] [[0%Z]; [0%Z]; [0%Z]]) (mk_sig 3 [2]))) = 8.
Proof. split; reflexivity. Qed.

Example no_return_node_drops :    (* a result position is dropped when the function has no Return instruction *)
  conforms (mk_summary [] [[0%Z]]) (mk_sig 1 []) = false.
Proof. reflexivity. Qed.

Example table_nontrivial : Nat.leb 100 (List.length gen_std_table) = true.
Proof. vm_compute. reflexivity. Qed.
