(** * C01 — the taint analysis reports every explicit source-to-sink flow: traversal-level and verdict-level statements

    Statements only (proofs: Base/Closure.v, Proofs/TaintCli.v).

    WHAT THESE THEOREMS ARE ABOUT.  They are generic theorems about an ABSTRACT worklist traversal with a seen-set
    ([Base.Closure.run]) over an arbitrary key graph [succ : K -> list K], for all successor-order and queue-discipline
    oracles; and about a small model of the CLI verdict (Model/TaintCli.v).  They say: IF the inter-procedural visitor is
    such a traversal of a key graph (key = node + call trace + closure trace + status + access paths,
    [dataflow.VisitorNode.Key]) whose successors are a function of the key, THEN every path of that graph from a source
    key to a sink key is found and the process fails.  That hypothesis is not proved about the Go code; builder `trav`'s
    faithful model (Model/Visit.v) and the intra-procedural rule system of `c08` supply the code-level statements, to be
    added to this file by the coordinator.  The tie of THIS file to the code is end-to-end: tools/props/c01.py runs the
    real analysis on generated programs whose flows are observed by native execution (T-gt) and runs the real CLI to
    compare its exit status with [exit_code]. *)
From Coq Require Import List Arith Bool.
From Argot Require Import Base.Closure Model.TaintCli Proofs.TaintCli.
Import ListNotations.

(** ** 1. verdict: the CLI fails exactly when a flow or an escape was reported (or the analysis itself failed) *)
Theorem exit_code_spec : forall (Pair Esc : Type) (r : analysis_result Pair Esc),
  analysis_error Pair Esc r = false ->
  (exit_code Pair Esc r <> 0 <-> (flows Pair Esc r <> [] \/ escapes Pair Esc r <> [])) /\
  (exit_code Pair Esc r = 0 \/ exit_code Pair Esc r = 2).
Proof. exact exit_code_spec_lemma. Qed.

Theorem exit_code_error : forall (Pair Esc : Type) (r : analysis_result Pair Esc),
  analysis_error Pair Esc r = true -> exit_code Pair Esc r = 2.
Proof. exact exit_code_error_lemma. Qed.

(** ** 2. the worklist computes the reachability closure of its roots, for every oracle and every fuel that suffices *)
Theorem wl_closure_spec : forall (K : Type) (K_eq_dec : forall x y : K, {x = y} + {x <> y}) (succ : K -> list K)
    (St : Type) (nexts : St -> K -> list K * St) (sched : St -> list K -> list K * St) (Inv : St -> Prop) (roots : list K),
  oracle_ok K succ St nexts sched Inv roots ->
  forall (fuel : nat) (s0 : St) (seen : list K), Inv s0 ->
  run K K_eq_dec St nexts sched fuel s0 roots = Done seen ->
  forall x : K, In x seen <-> reach K succ roots x.
Proof. exact Closure.wl_closure_spec. Qed.

(** ** 3. every key-graph path from a root (source key) is found ... *)
Theorem every_path_found : forall (K : Type) (K_eq_dec : forall x y : K, {x = y} + {x <> y})
    (St : Type) (nexts : St -> K -> list K * St) (sched : St -> list K -> list K * St) (Inv : St -> Prop)
    (g : K -> list K) (roots : list K) (fuel : nat) (s0 : St) (seen : list K),
  oracle_ok K g St nexts sched Inv roots -> Inv s0 ->
  run K K_eq_dec St nexts sched fuel s0 roots = Done seen ->
  forall src p, In src roots -> is_path K g src p -> In (last p src) seen.
Proof. exact every_path_found_lemma. Qed.

(** ... and in the taint form (sink keys are recorded and not expanded): for every path of the unrestricted key graph
    from a source key to a sink key, the FIRST sink key on the path is among the recorded hits *)
Theorem every_source_sink_path_reported : forall (K : Type) (K_eq_dec : forall x y : K, {x = y} + {x <> y})
    (succ : K -> list K) (is_sink : K -> bool)
    (St : Type) (nexts : St -> K -> list K * St) (sched : St -> list K -> list K * St) (Inv : St -> Prop)
    (roots : list K) (fuel : nat) (s0 : St) (seen : list K),
  oracle_ok K (succ_stop K succ is_sink) St nexts sched Inv roots -> Inv s0 ->
  run K K_eq_dec St nexts sched fuel s0 roots = Done seen ->
  forall src p, In src roots -> is_path K succ src p -> is_sink (last p src) = true ->
  exists p', (exists q, p = p' ++ q) /\ is_sink (last p' src) = true /\ In (last p' src) (filter is_sink seen).
Proof. exact every_source_sink_path_reported_lemma. Qed.

(** ** 4. and the traversal does return (fuel bound from any finite universe of keys) *)
Theorem wl_terminates : forall (K : Type) (K_eq_dec : forall x y : K, {x = y} + {x <> y}) (succ : K -> list K)
    (St : Type) (nexts : St -> K -> list K * St) (sched : St -> list K -> list K * St) (Inv : St -> Prop) (roots : list K),
  oracle_ok K succ St nexts sched Inv roots ->
  forall U : list K, (forall x : K, reach K succ roots x -> In x U) ->
  (forall (s : St) (l : list K), Inv s -> length (fst (sched s l)) <= length l) ->
  forall s0 : St, Inv s0 -> exists seen : list K, run K K_eq_dec St nexts sched (S (length U)) s0 roots = Done seen.
Proof. exact Closure.wl_terminates. Qed.

(** ** non-vacuity *)
(** a result with one flow fails, an empty result succeeds *)
Example exit_code_examples :
  exit_code nat nat {| flows := [7]; escapes := []; analysis_error := false |} = 2 /\
  exit_code nat nat {| flows := []; escapes := [3]; analysis_error := false |} = 2 /\
  exit_code nat nat {| flows := []; escapes := []; analysis_error := false |} = 0.
Proof. repeat split. Qed.

(** a concrete 5-key graph: 0 -> {1, 0}, ... with sinks 3 and 4; the path 0,1,2,4 ends at a sink: the traversal (here
    with the alternating scheduler) records it *)
Example path_found_example :
  is_path nat ClosureExamples.succ5 0 [1; 2; 4] /\
  exists seen, run nat Nat.eq_dec nat (nexts_rev nat ClosureExamples.succ5 nat) (sched_alt nat) 10 0 [0] = Done seen /\
               In 4 seen.
Proof.
  split; [simpl; auto 10 |]. eexists; split; [vm_compute; reflexivity | simpl; auto].
Qed.

(** * Code-level theorems (added by the coordinator from the builders' lemma libraries)

    The statements above are about the ABSTRACT worklist.  The statements below are about the two models that are tied
    to the real code on every run:
    - [Model/Visit.v], the case-by-case model of [taint.Visitor.Visit]/[addNext] (tie: tools/props/travlib.py — every
      recorded expansion of the real visitor equals the model's, sink-hit and visited-key sets equal);
    - [Model/Intra.v], the rule system whose closure is checked on the real intra-procedural output (T-cert, C08).
    Modules are required without Import (their names clash with Base/Closure.v). *)
From Argot Require Model.Visit Model.Intra Proofs.VisitBase Proofs.VisitInv Proofs.VisitClosure Proofs.VisitStop Proofs.Intra.
From Coq Require NArith.

(** the real traversal = least set containing the root and closed under its own one-step successor function (up to
    key equality); the reported sink hits are exactly the visited sink nodes: nothing reachable in the key graph the
    traversal itself generates is skipped, for every graph and every map-iteration order *)
Theorem visit_closure : forall (g : Visit.graph) (P : Visit.preds) (cfg : Visit.config) (ord : VisitBase.oracle)
    (src : Visit.id) (fuel : nat) (t : list Visit.id) (al : BinNums.N) (st : Visit.state),
  Visit.visit g P cfg ord src fuel t al = Visit.Done st ->
  let V := List.rev (Visit.st_visited st) in
  List.hd_error V = Some (Visit.root_vnode src t) /\
  (forall (i : nat) (v : Visit.vnode), List.nth_error V i = Some v ->
     forall w : Visit.vnode, List.In w (VisitClosure.succs_at g P cfg ord src (BinNat.N.of_nat i) v) ->
     exists w' : Visit.vnode, List.In w' V /\ Visit.vkey w' = Visit.vkey w) /\
  (forall (p : nat) (w : Visit.vnode), List.nth_error V p = Some w -> p <> 0 ->
     exists (i : nat) (v : Visit.vnode),
       i < p /\ List.nth_error V i = Some v /\ List.In w (VisitClosure.succs_at g P cfg ord src (BinNat.N.of_nat i) v)) /\
  List.NoDup (List.map Visit.vkey (List.tl V)) /\
  Visit.st_hits st = List.filter (VisitClosure.is_sink_stop g P cfg) (Visit.st_visited st).
Proof. exact VisitClosure.visit_closure_lemma. Qed.

(** a dequeued node is left unexpanded exactly when it is filtered / a sink in default tracing / a sanitizer /
    unconstructed-and-ignored: no other pruning exists in the traversal *)
Theorem visit_stop_exact : forall (g : Visit.graph) (P : Visit.preds) (cfg : Visit.config) (v : Visit.vnode)
    (r : Visit.stop_reason),
  Visit.stop_of g P cfg v = Visit.Ok (Some r) <-> VisitStop.stop_spec g P cfg v r.
Proof. exact VisitStop.sanitizer_stop_exact_lemma. Qed.

(** intra-procedural half: ANY fact set closed under the rule system covers every def-use chain of the function; the
    extracted validator [check_closed] run on the real analysis' output is sound for that conclusion *)
Theorem intra_closed_covers_chains : forall (F : Intra.func) (S : Intra.fact -> Prop),
  Intra.closed F S -> Intra.wf_ssa F -> Intra.covers_chains F S.
Proof. exact Proofs.Intra.closed_covers_chains. Qed.

Theorem intra_tcert_sound : forall (F : Intra.func) (l : list Intra.fact),
  Intra.check_wf_ssa F = true -> Intra.check_closed F l = true ->
  Intra.covers_chains F (fun f : Intra.fact => List.In f l).
Proof. exact Proofs.Intra.tcert_sound. Qed.

(** What is still missing for the full statement [taint_sound] of DESIGN §4 C01: (1) the semantic link "µSSA execution
    moves a marker ⇒ def-use chain / alias path" (no Coq semantics of Go SSA was built for C01), (2) [visit_complete] for
    realizable paths of the linked graph (the closure theorem is relative to the successor function the traversal itself
    uses; [order_dep_refuted] in Properties/C06.v shows that function depends on more than the key).  Both gaps are
    covered only by the native ground-truth search of tools/props/c01.py. *)
