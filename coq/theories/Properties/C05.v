(** * C05 — options documented as soundness-neutral do not change the verdict

    Statements only (proofs: Base/Closure.v, Proofs/RW.v, Proofs/RWGen.v).

    WHAT THESE THEOREMS ARE ABOUT.  [alarm_limit*] and [lazy_eq_eager] are generic theorems about the ABSTRACT worklist of
    Base/Closure.v, for all key graphs and all oracles.  Their hypotheses are what the tie validates on the real code:
      - [lazy_eq_eager]: "the lazily built graph coincides with the eager one on every key whose successors are requested"
        ([oracle_ok] of the lazy pack w.r.t. the eager [succ]) - validated by running the real analysis eagerly and on
        demand on every generated and testdata program (tools/props/c05.py); it is FALSE of the pinned code for the key
        "write to global G" when a reader of G references it only through an operand position that [FnReadsFrom] does
        not scan (findings ondemand-global-read:KIND), which is exactly the shape of [lazy_neq_eager_example];
      - [alarm_limit]: the limited run is the same traversal with a counter of sink VISITS
        ([AnalyzerState.IncrementAndTestAlarms], one increment per visited sink key, also for an already reported pair),
        [alarm_limit_entries] adds the loop over entry points with its shared counter
        ([RunVisitorOnEntryPoints]/[TestAlarmCount]) - validated by runs with max-alarms in {1,2,5} against the unlimited run.
    [rw_cover_*] are finite theorems over tables regenerated from the Go source on every run (T-gen). *)
From Coq Require Import String List Arith Bool.
From Argot Require Import Base.Closure Model.RW Proofs.RW Proofs.RWGen.
From ArgotGen Require Import GenRW.
Import ListNotations.

(** ** 1. lazy = eager *)
Theorem lazy_eq_eager : forall (K : Type) (K_eq_dec : forall x y : K, {x = y} + {x <> y}) (succ : K -> list K)
    (SL SE : Type) (nextsL : SL -> K -> list K * SL) (schedL : SL -> list K -> list K * SL) (InvL : SL -> Prop)
    (schedE : SE -> list K -> list K * SE) (InvE : SE -> Prop)
    (roots : list K) (fl fe : nat) (sl : SL) (se : SE) (seen_lazy seen_eager : list K),
  (forall (s : SL) (l : list K), InvL s -> set_eq (fst (schedL s l)) l /\ InvL (snd (schedL s l))) ->
  (forall (s : SL) (x : K), InvL s -> reach K succ roots x ->
     set_eq (fst (nextsL s x)) (succ x) /\ InvL (snd (nextsL s x))) ->
  (forall (s : SE) (l : list K), InvE s -> set_eq (fst (schedE s l)) l /\ InvE (snd (schedE s l))) ->
  InvL sl -> InvE se ->
  run K K_eq_dec SL nextsL schedL fl sl roots = Done seen_lazy ->
  run K K_eq_dec SE (nexts_eager K succ SE) schedE fe se roots = Done seen_eager ->
  set_eq seen_lazy seen_eager.
Proof. exact Closure.lazy_eq_eager. Qed.

(** the hypothesis is needed: a lazy successor oracle that omits one successor of one reachable key (a reader of a global
    whose summary is never built) visits strictly less *)
Theorem lazy_neq_eager_example :
  exists seen_eager seen_lazy : list nat,
    run nat Nat.eq_dec unit (nexts_eager nat ClosureExamples.succ_ex unit) (sched_id nat unit) 5 tt [0] = Done seen_eager /\
    run nat Nat.eq_dec unit ClosureExamples.nexts_lazy_bad (sched_id nat unit) 5 tt [0] = Done seen_lazy /\
    incl seen_lazy seen_eager /\ In 2 seen_eager /\ ~ In 2 seen_lazy.
Proof. exact ClosureExamples.lazy_neq_eager_example. Qed.

(** ** 2. max-alarms = k > 0: subset of the unlimited result, at most k, non-empty iff the unlimited one is *)
Theorem alarm_limit : forall (K : Type) (K_eq_dec : forall x y : K, {x = y} + {x <> y}) (succ : K -> list K)
    (is_sink : K -> bool) (S1 S2 : Type)
    (nexts1 : S1 -> K -> list K * S1) (sched1 : S1 -> list K -> list K * S1) (Inv1 : S1 -> Prop)
    (nexts2 : S2 -> K -> list K * S2) (sched2 : S2 -> list K -> list K * S2) (Inv2 : S2 -> Prop)
    (roots : list K) (k fuel fuel' : nat) (s1 : S1) (s2 : S2) (r : kresult K) (seen_full : list K),
  0 < k ->
  oracle_ok K succ S1 nexts1 sched1 Inv1 roots ->
  (forall (s : S1) (l : list K), Inv1 s -> NoDup l -> NoDup (fst (sched1 s l))) ->
  oracle_ok K succ S2 nexts2 sched2 Inv2 roots ->
  Inv1 s1 -> Inv2 s2 ->
  runk K K_eq_dec is_sink S1 nexts1 sched1 fuel k s1 roots = r -> r <> KOutOfFuel ->
  run K K_eq_dec S2 nexts2 sched2 fuel' s2 roots = Done seen_full ->
  let full := filter is_sink seen_full in
  incl (hits_of r) full /\ List.length (hits_of r) <= k /\ NoDup (hits_of r) /\ (full <> [] -> hits_of r <> []).
Proof. exact Closure.alarm_limit. Qed.

(** for the reported PAIRS (several visited sink keys may map to one (source, sink) pair; the counter counts visits) *)
Theorem alarm_limit_pairs : forall (K : Type) (K_eq_dec : forall x y : K, {x = y} + {x <> y}) (succ : K -> list K)
    (is_sink : K -> bool) (P : Type) (P_eq_dec : forall a b : P, {a = b} + {a <> b}) (report : K -> P) (S1 S2 : Type)
    (nexts1 : S1 -> K -> list K * S1) (sched1 : S1 -> list K -> list K * S1) (Inv1 : S1 -> Prop)
    (nexts2 : S2 -> K -> list K * S2) (sched2 : S2 -> list K -> list K * S2) (Inv2 : S2 -> Prop)
    (roots : list K) (k fuel fuel' : nat) (s1 : S1) (s2 : S2) (r : kresult K) (seen_full : list K),
  0 < k ->
  oracle_ok K succ S1 nexts1 sched1 Inv1 roots -> oracle_ok K succ S2 nexts2 sched2 Inv2 roots ->
  Inv1 s1 -> Inv2 s2 ->
  runk K K_eq_dec is_sink S1 nexts1 sched1 fuel k s1 roots = r -> r <> KOutOfFuel ->
  run K K_eq_dec S2 nexts2 sched2 fuel' s2 roots = Done seen_full ->
  let full := filter is_sink seen_full in
  let pairs := nodup P_eq_dec (map report (hits_of r)) in
  List.length pairs <= k /\ incl (map report (hits_of r)) (map report full) /\
  incl pairs (nodup P_eq_dec (map report full)) /\ (map report full <> [] -> pairs <> []).
Proof. exact Closure.alarm_limit_pairs. Qed.

(** the driver loop over entry points: fresh seen-set per entry, shared counter tested before each entry.
    INSTANTIATION NOTE: the counter is shared by EVERYTHING that runs on one analyzer state - [taint.Analyze] runs one
    visitor pass ([BuildAndRunVisitor] / [RunVisitorOnEntryPoints]) per taint-tracking problem on the same state, so
    [entries] is the concatenation of the entry points of ALL problems in pass order and [k] bounds the total; a counter
    reset between passes is outside this model (tools/props/c05.py checks it with a three-problem configuration) *)
Theorem alarm_limit_entries : forall (K : Type) (K_eq_dec : forall x y : K, {x = y} + {x <> y}) (succ : K -> list K)
    (is_sink : K -> bool) (St : Type) (nexts : St -> K -> list K * St) (sched : St -> list K -> list K * St)
    (Inv : St -> Prop) (fuel k : nat) (entries : list (list K)) (s0 : St) (hs : list (list K)),
  (forall e : list K, In e entries -> oracle_ok K succ St nexts sched Inv e) -> Inv s0 ->
  drive K K_eq_dec is_sink St nexts sched fuel k 0 s0 entries = Some hs ->
  Forall2 (entry_hits_ok K succ is_sink) (firstn (List.length hs) entries) hs /\
  (0 < k -> List.length (concat hs) <= k) /\
  (concat hs <> [] <-> (exists (e : list K) (x : K), In e entries /\ reach K succ e x /\ is_sink x = true)).
Proof. exact Closure.alarm_limit_entries. Qed.

(** unlimited (k = 0): exactly the reachable sinks *)
Theorem alarm_unlimited : forall (K : Type) (K_eq_dec : forall x y : K, {x = y} + {x <> y}) (succ : K -> list K)
    (is_sink : K -> bool) (S1 S2 : Type)
    (nexts1 : S1 -> K -> list K * S1) (sched1 : S1 -> list K -> list K * S1) (Inv1 : S1 -> Prop)
    (nexts2 : S2 -> K -> list K * S2) (sched2 : S2 -> list K -> list K * S2) (Inv2 : S2 -> Prop)
    (roots : list K) (fuel fuel' : nat) (s1 : S1) (s2 : S2) (hits seen_full : list K),
  oracle_ok K succ S1 nexts1 sched1 Inv1 roots -> oracle_ok K succ S2 nexts2 sched2 Inv2 roots ->
  Inv1 s1 -> Inv2 s2 ->
  runk K K_eq_dec is_sink S1 nexts1 sched1 fuel 0 s1 roots = KDone hits ->
  run K K_eq_dec S2 nexts2 sched2 fuel' s2 roots = Done seen_full ->
  set_eq hits (filter is_sink seen_full).
Proof. exact Closure.alarm_unlimited. Qed.

(** ** 3. coverage of the syntactic scans that decide which summaries the on-demand mode pre-builds (T-gen) *)

(** the full statement of the design ([rw_cover]): no operand position is missed.  It does NOT hold on the pinned tree
    (finding F5); what the kernel accepts is [rw_cover_except_known].  [rw_cover_spec] says what it means. *)
Definition rw_cover_statement : Prop := rw_cover rw_schema rw_reads_from rw_writes_to.

Theorem rw_cover_spec : forall schema reads writes,
  rw_cover schema reads writes <->
  (forall t f role, In (t, f, role) schema -> must_read role = true -> In (t, f) reads) /\
  (forall t f role, In (t, f, role) schema -> must_write role = true -> In (t, f) writes).
Proof. exact Proofs.RW.rw_cover_spec. Qed.

Theorem rw_cover_except_spec : forall known schema reads writes,
  rw_cover_except known schema reads writes = true <->
  (forall t f role, In (t, f, role) schema -> must_read role = true -> In (t, f) reads \/ In (t, f) known) /\
  (forall t f role, In (t, f, role) schema -> must_write role = true -> In (t, f) writes \/ In (t, f) known).
Proof. exact Proofs.RW.rw_cover_except_spec. Qed.

(** finite, over the regenerated tables: every operand position of every ssa.Instruction through which a global can be
    read is compared by FnReadsFrom or is one of the listed known gaps; every write position is compared by FnWritesTo *)
Theorem rw_cover_except_known : rw_cover_except known_rw_gaps rw_schema rw_reads_from rw_writes_to = true.
Proof. exact rw_cover_except_known_gen. Qed.

Theorem rw_write_cover : write_gaps rw_schema rw_writes_to = [].
Proof. exact rw_write_cover_gen. Qed.

(** once the gap list is empty the full statement holds *)
Theorem rw_cover_of_no_known : forall schema reads writes,
  rw_cover_except [] schema reads writes = true <-> rw_cover schema reads writes.
Proof. exact rw_cover_except_nil. Qed.

(** ** non-vacuity *)
Example rw_tables_nontrivial :
  covered (map fst rw_schema) ("UnOp", "X")%string && covered (map fst rw_schema) ("Store", "Addr")%string &&
  covered rw_reads_from ("UnOp", "X")%string && covered rw_writes_to ("Store", "Addr")%string &&
  Nat.leb 40 (List.length rw_schema) = true.
Proof. exact rw_tables_nontrivial_gen. Qed.

(** [alarm_limit] applied: alternating scheduler with k = 1 against the identity pack on the 5-key graph *)
Example alarm_limit_example :
  let r := runk nat Nat.eq_dec ClosureExamples.sink5 nat (nexts_rev nat ClosureExamples.succ5 nat) (sched_alt nat) 10 1 0 [0] in
  r = KStopped [3] /\ incl (hits_of r) [4; 3] /\ List.length (hits_of r) <= 1.
Proof.
  assert (E : runk nat Nat.eq_dec ClosureExamples.sink5 nat (nexts_rev nat ClosureExamples.succ5 nat) (sched_alt nat) 10 1 0 [0]
              = KStopped [3]) by (vm_compute; reflexivity).
  cbv zeta. rewrite E. split; [reflexivity|]. split; [|simpl; auto].
  intros x [<-|[]]; simpl; auto.
Qed.

(** * Code-level theorems on the faithful model of [Visitor.Visit] (Model/Visit.v, tied by tools/props/travlib.py) *)
From Argot Require Model.Visit Proofs.VisitBase Proofs.VisitStop Proofs.VisitEntries.
From Coq Require NArith.

(** max-alarms = k > 0 on ONE visit: the limited run reports a suffix-closed subset of the unlimited run's sink visits
    (the first ones), at most k - a0 of them, and at least one whenever the unlimited run reports any.  The counter
    counts sink VISITS, as [IncrementAndTestAlarms] does. *)
Theorem visit_alarm_limit : forall (g : Visit.graph) (P : Visit.preds) (cfg : Visit.config) (ord : VisitBase.oracle)
    (src : Visit.id) (k a0 : BinNums.N) (fuel : nat) (t : list Visit.id) (stu : Visit.state),
  BinNat.N.lt BinNums.N0 k -> BinNat.N.lt a0 k ->
  Visit.visit g P (VisitStop.with_alarms cfg BinNums.N0) ord src fuel t a0 = Visit.Done stu ->
  exists stk : Visit.state,
    (Visit.visit g P (VisitStop.with_alarms cfg k) ord src fuel t a0 = Visit.Done stk \/
     Visit.visit g P (VisitStop.with_alarms cfg k) ord src fuel t a0 = Visit.AlarmStop stk) /\
    (exists later : list Visit.vnode, Visit.st_hits stu = (later ++ Visit.st_hits stk)%list) /\
    BinNat.N.le (BinNat.N.of_nat (length (Visit.st_hits stk))) (BinNat.N.sub k a0) /\
    (Visit.st_hits stu <> nil -> Visit.st_hits stk <> nil).
Proof. exact VisitStop.alarm_limit_lemma. Qed.

(** the same over the entry-point loop with its shared counter, for any order of the entry points *)
Theorem visit_alarm_limit_entries : forall (g : Visit.graph) (P : Visit.preds) (cfg : Visit.config)
    (ord : VisitBase.oracle) (fuel : nat) (k : BinNums.N) (es : list (Visit.id * list Visit.id)),
  BinNat.N.lt BinNums.N0 k ->
  (forall (src : Visit.id) (t : list Visit.id) (b : BinNums.N), List.In (src, t) es ->
     exists st : Visit.state, Visit.visit g P (VisitStop.with_alarms cfg BinNums.N0) ord src fuel t b = Visit.Done st) ->
  List.incl (VisitEntries.visit_entries g P cfg ord fuel k es BinNums.N0)
            (VisitEntries.visit_entries g P cfg ord fuel BinNums.N0 es BinNums.N0) /\
  BinNat.N.le (BinNat.N.of_nat (length (VisitEntries.visit_entries g P cfg ord fuel k es BinNums.N0))) k /\
  (VisitEntries.visit_entries g P cfg ord fuel BinNums.N0 es BinNums.N0 <> nil ->
   VisitEntries.visit_entries g P cfg ord fuel k es BinNums.N0 <> nil).
Proof. exact VisitEntries.alarm_limit_entries_lemma. Qed.
