(** * C01, item 1 ([intra_sound]), layer L1: the semantic link between executions and the def-use-chain specification

    Statements only (definitions: Lang/RegSem.v, proofs: Proofs/RegSem.v).

    WHAT THESE THEOREMS ARE ABOUT.  Lang/RegSem.v is an executable PROVENANCE semantics of the value-computing
    (register) fragment of one function, driven by the same record [Intra.func] that the C08 dumper produces from the
    real SSA and that the extracted validators [check_closed] / [check_wf_ssa] accept or reject: a state maps every
    SSA value to the set of origin marks (parameters, free variables, call results per tuple index) whose data it was
    computed from; an execution is a CFG path from an arbitrary entry point, chosen by an arbitrary history-dependent
    oracle (branches AND the operand selected at a Phi), with fuel.  The theorems hold for ALL functions, fact sets,
    oracles, entry points and fuels:

    - [prov_implies_chain(_in)]: a mark in the provenance of a value at any moment of any execution is justified by an
      explicit def-use chain of Model/Intra.v from the origin of that mark, through instructions that were executed;
    - [intra_sound_L1]: hence every fact set closed under the rule system R has the summary edge (origin -> use node)
      for every value consumed at a use (return, call argument, closure binding, if condition) during an execution;
    - [intra_sound_L1_tcert]: in particular the REAL analysis output, when the two extracted validators accept it.

    HYPOTHESES RELATING EXECUTIONS TO [wf_ssa].  None beyond [wf_ssa] itself.  "Every operand is defined before it is
    used on the executed path" is NOT needed: a register that was never assigned has empty provenance, so a use of an
    undefined register exhibits no flow.  [wf_ssa] is only used, inside [closed_covers_chains], to move a mark from the
    point where a value is defined to the points where it is used.  [intra_sound_L1_direct] shows that even [wf_ssa]
    is unnecessary for executions (they follow the CFG, so the closed set simulates the machine point by point:
    [exec_marks_sound]); [wf_ssa] remains the right hypothesis for the path-insensitive specification [covers_chains].

    WHAT L1 LEAVES OUT.  Heap cells: stores and loads through memory (a load [*p] only carries the provenance of the
    register p), i.e. the alias / referrer / base-object rules (L2; [intra_sound_L2_noalias_partial] below covers only
    cells addressed by one un-aliased register, with a store rule that is NOT part of R; its three booleans are evaluated on the dumps by the C08 driver);
    access paths / field sensitivity (L3); inter-procedural composition (a call result is a fresh origin, the callee's
    summary is not consulted); implicit flows; defers; and the relation between this provenance semantics and real Go
    execution, which is validated only by the native ground truth of tools/props/c01.py. *)
From Coq Require Import List Bool PArith NArith FMapPositive FSetPositive.
From Argot Require Import Model.Intra Proofs.Intra Lang.RegSem.
From Argot Require Proofs.RegSem.
Import ListNotations.

(** ** 1. provenance implies a def-use chain (through executed instructions only) *)
Theorem prov_implies_chain_in : forall (F : func) (orc : oracle) (fuel : nat) (entry : point) (c : config) (v : value) (m : mark),
  In c (trace F orc fuel entry) -> carries c v m ->
  let T := fun p => In p (map c_pt (trace F orc fuel entry)) in
  exists p0 v0 l, is_origin F m p0 v0 /\ T p0 /\ chain_in F T m v0 v l.
Proof. exact Proofs.RegSem.prov_implies_chain_in. Qed.

Theorem chain_in_chain : forall (F : func) (T : point -> Prop) (m : mark) (a z : value) (l : list value),
  chain_in F T m a z l -> chain F m a z l.
Proof. exact Proofs.RegSem.chain_in_chain. Qed.

Theorem prov_implies_chain : forall (F : func) (orc : oracle) (fuel : nat) (entry : point) (c : config) (v : value) (m : mark),
  In c (trace F orc fuel entry) -> carries c v m ->
  exists p0 v0 l, is_origin F m p0 v0 /\ chain F m v0 v l.
Proof. exact Proofs.RegSem.prov_implies_chain. Qed.

(** the semantics' own operand table is included in the rule system's (dropping a transfer rule breaks this) *)
Theorem sem_ops_data_ops : forall (i : instr) (c : nat) (a : value),
  In a (sem_ops (i_kind i) (i_ops i) c) -> In a (data_ops i).
Proof. exact Proofs.RegSem.sem_ops_data_ops. Qed.

(** ** 2. every closed fact set covers every flow origin -> use exhibited by an execution *)
Theorem intra_sound_L1 : forall (F : func) (S : fact -> Prop) (orc : oracle) (fuel : nat) (entry : point)
    (c : config) (v : value) (m : mark) (u : unode),
  closed F S -> wf_ssa F ->
  In c (trace F orc fuel entry) -> consumes F (c_pt c) v u -> carries c v m ->
  S (Edge m u).
Proof. exact Proofs.RegSem.intra_sound_L1. Qed.

(** ** 3. ... in particular the real analysis output accepted by the extracted validators (T-cert of C08) *)
Theorem intra_sound_L1_tcert : forall (F : func) (l : list fact) (orc : oracle) (fuel : nat) (entry : point)
    (c : config) (v : value) (m : mark) (u : unode),
  check_closed F l = true -> check_wf_ssa F = true ->
  In c (trace F orc fuel entry) -> consumes F (c_pt c) v u -> carries c v m ->
  In (Edge m u) l.
Proof. exact Proofs.RegSem.intra_sound_L1_tcert. Qed.

(** ** 4. the direct simulation: no [wf_ssa] needed for executions; flow-sensitive statement about marks *)
Theorem exec_marks_sound : forall (F : func) (S : fact -> Prop), closed F S ->
  forall (orc : oracle) (fuel : nat) (entry : point) (c : config) (v : value) (m : mark),
  In c (trace F orc fuel entry) -> carries c v m -> S (Mark (c_pt c) v m).
Proof. exact Proofs.RegSem.exec_marks_sound. Qed.

Theorem intra_sound_L1_direct : forall (F : func) (S : fact -> Prop), closed F S ->
  forall (orc : oracle) (fuel : nat) (entry : point) (c : config) (v : value) (m : mark) (u : unode),
  In c (trace F orc fuel entry) -> consumes F (c_pt c) v u -> carries c v m -> S (Edge m u).
Proof. exact Proofs.RegSem.intra_sound_L1_direct. Qed.

Theorem intra_sound_L1_direct_tcert : forall (F : func) (l : list fact) (orc : oracle) (fuel : nat) (entry : point)
    (c : config) (v : value) (m : mark) (u : unode),
  check_closed F l = true ->
  In c (trace F orc fuel entry) -> consumes F (c_pt c) v u -> carries c v m -> In (Edge m u) l.
Proof. exact Proofs.RegSem.intra_sound_L1_direct_tcert. Qed.

(** ** 5. towards L2: whole cells allocated in the function, dereferenced only through the Alloc's own register

    The heap of Lang/RegSem.v is LOCATION based (Alloc = fresh location, pointer copies through Phi / conversions,
    strong update at a store, load = provenance of the address register united with that of the cell).
    PARTIAL because: (a) the fragment: every register dereferenced by a store or load HAS a defining instruction and
    is defined by Alloc instructions only ([addr_alloc], boolean [check_addr_alloc], equivalent by
    [check_addr_alloc_ok]; a function dereferencing a parameter, free variable or global is OUTSIDE: see
    [param_deref_outside]) -- copies of the pointer may exist but are never dereferenced, so no run-time aliasing
    between dereferenced registers; no sub-cell pointers (FieldAddr / IndexAddr), maps, slices,
    channels, globals, pointers received from or escaping to other functions; [alias_needs_rule] below shows the
    conclusion FAILS without [addr_alloc] (that is what the alias rule of full L2 is for);
    (b) [store_closed] (the stored value's marks are put on the address register, as DoStore does) is an extra rule
    beside R: it is not part of [Intra.closed]; [check_store_closed] / [check_addr_alloc] / [check_loads_ok] are
    extracted (coq/extracted/c08) and evaluated on every dumped function by the C08 check; functions failing
    [check_addr_alloc] are outside the fragment and the theorem says nothing about them. *)
Theorem intra_sound_L2_noalias_partial : forall (H : hfunc) (S : fact -> Prop),
  closed (h_func H) S -> store_closed H S -> loads_ok H -> addr_alloc H ->
  forall (orc : oracle) (fuel : nat) (entry : point) (c : hconfig) (v : value) (m : mark) (u : unode),
  In c (htrace H orc fuel entry) -> consumes (h_func H) (hc_pt c) v u -> hcarries c v m -> S (Edge m u).
Proof. exact Proofs.RegSem.intra_sound_L2_noalias_partial. Qed.

Theorem intra_sound_L2_noalias_partial_tcert : forall (H : hfunc) (l : list fact) (orc : oracle) (fuel : nat) (entry : point)
    (c : hconfig) (v : value) (m : mark) (u : unode),
  check_closed (h_func H) l = true -> check_store_closed H l = true -> check_loads_ok H = true ->
  check_addr_alloc H = true ->
  In c (htrace H orc fuel entry) -> consumes (h_func H) (hc_pt c) v u -> hcarries c v m -> In (Edge m u) l.
Proof. exact Proofs.RegSem.intra_sound_L2_noalias_partial_tcert. Qed.

(** the boolean run on the dumps decides the fragment condition *)
Theorem check_addr_alloc_ok : forall (H : hfunc), check_addr_alloc H = true <-> addr_alloc H.
Proof. exact Proofs.RegSem.check_addr_alloc_ok. Qed.

(** the executable observation used below is exactly "some executed use carries the mark" *)
Theorem observed_edges_spec : forall (F : func) (t : list config) (m : mark) (u : unode),
  In (m, u) (observed_edges F t) <-> exists c v, In c t /\ consumes F (c_pt c) v u /\ carries c v m.
Proof. exact Proofs.RegSem.observed_edges_spec. Qed.

Theorem hobserved_edges_spec : forall (H : hfunc) (t : list hconfig) (m : mark) (u : unode),
  In (m, u) (hobserved_edges H t) <-> exists c v, In c t /\ consumes (h_func H) (hc_pt c) v u /\ hcarries c v m.
Proof. exact Proofs.RegSem.hobserved_edges_spec. Qed.

(** ** non-vacuity *)
Local Open Scope positive_scope.

(** *** a 5-point accumulator loop with a phi
    func acc(a, b string) string { s := a; for { t := s + b; if opaque(t) { return s }; s = t } }   (schematically)
      1 entry        2  s(v3) = phi [a(v1); t(v4)]     3  t(v4) = s + b(v2)     4  if t -> 2 | 5     5  return s
    parameter b reaches the return ONLY through the back edge and the phi. *)
Definition F_acc : func := mk_func
  [(1, {| i_kind := KOther; i_def := None; i_ops := [] |});
   (2, {| i_kind := KPhi; i_def := Some 3; i_ops := [1; 4] |});
   (3, {| i_kind := KBinOp; i_def := Some 4; i_ops := [3; 2] |});
   (4, {| i_kind := KIf; i_def := None; i_ops := [4] |});
   (5, {| i_kind := KReturn; i_def := None; i_ops := [3] |})]
  [(1, [2]); (2, [3]); (3, [4]); (4, [2; 5]); (5, [])]
  [(3, 2); (4, 3); (1, 1); (2, 1)]
  [(1, 1, 1); (2, 1, 2)]
  []
  [(4, [(4, 3)]); (5, [(3, 1)])].

(* the least fact set closed under R (hand-written; closedness is checked by the validator) *)
Definition S_acc : list fact :=
  map (fun p => Mark p 1 1) [1; 2; 3; 4; 5] ++ map (fun p => Mark p 2 2) [1; 2; 3; 4; 5] ++
  flat_map (fun p => [Mark p 3 1; Mark p 3 2; Mark p 4 1; Mark p 4 2]) [2; 3; 4; 5] ++
  [Edge 1 3; Edge 2 3; Edge 1 1; Edge 2 1].

(* the phi takes the operand of the predecessor actually taken; the loop runs [n] more times after the first pass *)
Definition orc_acc (n : nat) : oracle :=
  {| o_branch := fun hist => match hist with
                             | 4 :: _ => if Nat.ltb (length hist) (4 + 3 * n)%nat then 0%nat else 1%nat
                             | _ => 0%nat
                             end;
     o_phi := fun hist => match hist with 2 :: 1 :: _ => 0%nat | _ => 1%nat end |}.

Example acc_wf : check_wf_ssa F_acc = true. Proof. vm_compute. reflexivity. Qed.
Example acc_closed : check_closed F_acc S_acc = true. Proof. vm_compute. reflexivity. Qed.

(* one pass (no back edge): only a reaches the return; the execution returns (it is not cut by the fuel) *)
Example acc_run0 :
  map c_pt (trace F_acc (orc_acc 0) 20 1) = [1; 2; 3; 4; 5] /\ snd (exec F_acc (orc_acc 0) 20 1) = Returned /\
  observed_edges F_acc (trace F_acc (orc_acc 0) 20 1) = [(2, 3); (1, 3); (1, 1)].
Proof. vm_compute. repeat split. Qed.

(* one more iteration: b reaches the return through t, the back edge and the phi *)
Example acc_run1 :
  map c_pt (trace F_acc (orc_acc 1) 20 1) = [1; 2; 3; 4; 2; 3; 4; 5] /\ snd (exec F_acc (orc_acc 1) 20 1) = Returned /\
  observed_edges F_acc (trace F_acc (orc_acc 1) 20 1) = [(2, 3); (1, 3); (2, 3); (1, 3); (2, 1); (1, 1)].
Proof. vm_compute. repeat split. Qed.

(* a diverging oracle is cut by the fuel, with the distinct outcome *)
Example acc_out_of_fuel : snd (exec F_acc (orc_acc 100) 20 1) = OutOfFuel.
Proof. vm_compute. reflexivity. Qed.

(* the summary edge b -> return, obtained THROUGH the theorem from the execution (not by looking it up in S_acc) *)
Example acc_edge_from_execution : In (Edge 2 1) S_acc.
Proof.
  assert (H : In (2, 1) (observed_edges F_acc (trace F_acc (orc_acc 1) 20 1))) by (vm_compute; auto 10).
  apply observed_edges_spec in H. destruct H as (c & v & Hc & Hu & Hm).
  exact (intra_sound_L1_tcert F_acc S_acc (orc_acc 1) 20 1 c v 2 1 acc_closed acc_wf Hc Hu Hm).
Qed.

(* and the chain that justifies it: b (v2) -> t (v4) -> s (v3), through executed points *)
Example acc_chain : chain F_acc 2 2 3 [4; 3].
Proof.
  eapply ch_cons with (p := 3); [|eapply ch_cons with (p := 2); [|apply ch_nil]];
    eexists; repeat split; try reflexivity; simpl; auto.
Qed.

(* the conclusion is not trivial: the closed set is far from "everything", e.g. s carries nothing at the entry and the
   facts of S_acc without the loop-carried edge are rejected by the validator *)
Example acc_sharp :
  ~ In (Mark 1 3 2) S_acc /\
  check_closed F_acc (filter (fun f => match f with Edge 2 1 => false | _ => true end) S_acc) = false.
Proof. split; [vm_compute; intuition discriminate | vm_compute; reflexivity]. Qed.

(** *** a real dump (corpus/c08/regress1, produced by harness/cmd/c08dump; same data as Properties/C08.v [F_loop])
    func loop(a string, n int) string { s := ""; for i := 0; i < n; i++ { s = s + a }; return s } *)
Definition F_loop : func := mk_func
  [(1, {| i_kind := KOther; i_def := None; i_ops := [] |});
   (2, {| i_kind := KPhi; i_def := Some 5; i_ops := [3; 4] |});
   (3, {| i_kind := KPhi; i_def := Some 8; i_ops := [6; 7] |});
   (4, {| i_kind := KBinOp; i_def := Some 9; i_ops := [8; 2] |});
   (5, {| i_kind := KIf; i_def := None; i_ops := [9] |});
   (6, {| i_kind := KBinOp; i_def := Some 4; i_ops := [5; 1] |});
   (7, {| i_kind := KBinOp; i_def := Some 7; i_ops := [8; 10] |});
   (8, {| i_kind := KOther; i_def := None; i_ops := [] |});
   (9, {| i_kind := KReturn; i_def := None; i_ops := [5] |})]
  [(1, [2]); (2, [3]); (3, [4]); (4, [5]); (5, [6; 9]); (6, [7]); (7, [8]); (8, [2]); (9, [])]
  [(5, 2); (8, 3); (9, 4); (4, 6); (7, 7); (1, 1); (2, 1)]
  [(1, 1, 1); (2, 1, 2)]
  []
  [(5, [(9, 1)]); (9, [(5, 2)])].
(* the implementation's final marks (selected as in the C08 tie) and its summary edges *)
Definition S_loop : list fact :=
  [Mark 1 1 1; Mark 1 2 2; Mark 2 1 1; Mark 2 2 2; Mark 2 4 1; Mark 2 5 1; Mark 2 9 2; Mark 3 1 1; Mark 3 2 2; Mark 3 4 1; Mark 3 5 1; Mark 3 9 2; Mark 4 1 1; Mark 4 2 2; Mark 4 4 1; Mark 4 5 1; Mark 4 9 2; Mark 5 1 1; Mark 5 2 2; Mark 5 4 1; Mark 5 5 1; Mark 5 9 2; Mark 6 1 1; Mark 6 2 2; Mark 6 4 1; Mark 6 5 1; Mark 6 9 2; Mark 7 1 1; Mark 7 2 2; Mark 7 4 1; Mark 7 5 1; Mark 7 9 2; Mark 8 1 1; Mark 8 2 2; Mark 8 4 1; Mark 8 5 1; Mark 8 9 2; Mark 9 1 1; Mark 9 2 2; Mark 9 4 1; Mark 9 5 1; Mark 9 9 2; Edge 1 2; Edge 2 1].

(* both phis (points 2 and 3) are in the loop header: operand 0 when the header was entered from the entry block *)
Definition orc_loop (n : nat) : oracle :=
  {| o_branch := fun hist => match hist with
                             | 5 :: _ => if Nat.ltb (length hist) (5 + 7 * n)%nat then 0%nat else 1%nat
                             | _ => 0%nat
                             end;
     o_phi := fun hist => match hist with 2 :: 1 :: _ => 0%nat | 3 :: 2 :: 1 :: _ => 0%nat | _ => 1%nat end |}.

Example loop_wf : check_wf_ssa F_loop = true. Proof. vm_compute. reflexivity. Qed.
Example loop_closed : check_closed F_loop S_loop = true. Proof. vm_compute. reflexivity. Qed.

Example loop_run :
  map c_pt (trace F_loop (orc_loop 0) 40 1) = [1; 2; 3; 4; 5; 9] /\
  observed_edges F_loop (trace F_loop (orc_loop 0) 40 1) = [(2, 1)] /\
  map c_pt (trace F_loop (orc_loop 1) 40 1) = [1; 2; 3; 4; 5; 6; 7; 8; 2; 3; 4; 5; 9] /\
  snd (exec F_loop (orc_loop 1) 40 1) = Returned /\
  observed_edges F_loop (trace F_loop (orc_loop 1) 40 1) = [(2, 1); (2, 1); (1, 2)].
Proof. vm_compute. repeat split. Qed.

(* the real summary edge parameter a -> return is implied by the execution that runs the loop body once *)
Example loop_edge_from_execution : In (Edge 1 2) S_loop.
Proof.
  assert (H : In (1, 2) (observed_edges F_loop (trace F_loop (orc_loop 1) 40 1))) by (vm_compute; auto 10).
  apply observed_edges_spec in H. destruct H as (c & v & Hc & Hu & Hm).
  exact (intra_sound_L1_tcert F_loop S_loop (orc_loop 1) 40 1 c v 1 2 loop_closed loop_wf Hc Hu Hm).
Qed.

(** *** L2 (restricted): func box(a string) string { p := new(string); *p = a; return *p }
      1  p(v2) = alloc      2  *p = a(v1)      3  r(v3) = *p      4  return r *)
Definition pts (l : list point) : PositiveSet.t := fold_right PositiveSet.add PositiveSet.empty l.

Definition H_box : hfunc :=
  {| h_func := mk_func
       [(1, {| i_kind := KOther; i_def := Some 2; i_ops := [] |});
        (2, {| i_kind := KOther; i_def := None; i_ops := [2; 1] |});
        (3, {| i_kind := KUnOp; i_def := Some 3; i_ops := [2] |});
        (4, {| i_kind := KReturn; i_def := None; i_ops := [3] |})]
       [(1, [2]); (2, [3]); (3, [4]); (4, [])]
       [(2, 1); (3, 3); (1, 1)]
       [(1, 1, 1)]
       []
       [(4, [(3, 1)])];
     h_store := map_of_list [(2, (2, 1))];
     h_load := map_of_list [(3, 2)];
     h_alloc := pts [1] |}.

(* closed under R and the store rule: the address register p carries a's mark from the store on *)
Definition S_box : list fact :=
  [Mark 1 1 1; Mark 2 1 1; Mark 3 1 1; Mark 4 1 1; Mark 2 2 1; Mark 3 2 1; Mark 4 2 1; Mark 3 3 1; Mark 4 3 1; Edge 1 1].
(* closed under R alone: the register rules do not see the flow through the cell *)
Definition S_box_regs : list fact := [Mark 1 1 1; Mark 2 1 1; Mark 3 1 1; Mark 4 1 1].

Definition orc0 : oracle := {| o_branch := fun _ => 0%nat; o_phi := fun _ => 0%nat |}.

Example box_checks :
  check_closed (h_func H_box) S_box = true /\ check_store_closed H_box S_box = true /\ check_loads_ok H_box = true /\
  check_addr_alloc H_box = true /\ check_wf_ssa (h_func H_box) = true.
Proof. vm_compute. repeat split. Qed.

Example box_run : hobserved_edges H_box (htrace H_box orc0 10 1) = [(1, 1)].
Proof. vm_compute. reflexivity. Qed.

Example box_edge_from_execution : In (Edge 1 1) S_box.
Proof.
  assert (H : In (1, 1) (hobserved_edges H_box (htrace H_box orc0 10 1))) by (vm_compute; auto).
  apply hobserved_edges_spec in H. destruct H as (c & v & Hc & Hu & Hm).
  destruct box_checks as (H1 & H2 & H3 & H4 & _).
  exact (intra_sound_L2_noalias_partial_tcert H_box S_box orc0 10 1 c v 1 1 H1 H2 H3 H4 Hc Hu Hm).
Qed.

(* why L1 is not enough for the heap: the register rules R accept a fact set without the edge that the heap
   execution exhibits; the register-only machine (L1) indeed sees no flow to the return in this function *)
Example box_L1_blind :
  check_closed (h_func H_box) S_box_regs = true /\ check_store_closed H_box S_box_regs = false /\
  ~ In (Edge 1 1) S_box_regs /\
  observed_edges (h_func H_box) (trace (h_func H_box) orc0 10 1) = [].
Proof. vm_compute. repeat split. intuition discriminate. Qed.

(** *** a cell overwritten in a loop (strong update)
    func cellloop(a, b string) string { p := new(string); *p = a; for { t := *p; if opaque(t) { return t }; *p = b } }
      1  p(v3) = alloc   2  *p = a(v1)   3  t(v4) = *p   4  if t -> 5 | 6   5  return t   6  *p = b(v2) -> 3 *)
Definition H_cell : hfunc :=
  {| h_func := mk_func
       [(1, {| i_kind := KOther; i_def := Some 3; i_ops := [] |});
        (2, {| i_kind := KOther; i_def := None; i_ops := [3; 1] |});
        (3, {| i_kind := KUnOp; i_def := Some 4; i_ops := [3] |});
        (4, {| i_kind := KIf; i_def := None; i_ops := [4] |});
        (5, {| i_kind := KReturn; i_def := None; i_ops := [4] |});
        (6, {| i_kind := KOther; i_def := None; i_ops := [3; 2] |})]
       [(1, [2]); (2, [3]); (3, [4]); (4, [5; 6]); (5, []); (6, [3])]
       [(3, 1); (4, 3); (1, 1); (2, 1)]
       [(1, 1, 1); (2, 1, 2)]
       []
       [(4, [(4, 3)]); (5, [(4, 1)])];
     h_store := map_of_list [(2, (3, 1)); (6, (3, 2))];
     h_load := map_of_list [(3, 3)];
     h_alloc := pts [1] |}.

Definition S_cell : list fact :=
  map (fun p => Mark p 1 1) [1; 2; 3; 4; 5; 6] ++ map (fun p => Mark p 2 2) [1; 2; 3; 4; 5; 6] ++
  map (fun p => Mark p 3 1) [2; 3; 4; 5; 6] ++ map (fun p => Mark p 3 2) [6; 3; 4; 5] ++
  flat_map (fun p => [Mark p 4 1; Mark p 4 2]) [3; 4; 5; 6] ++
  [Edge 1 3; Edge 2 3; Edge 1 1; Edge 2 1].

(* at 4 take the exit (index 0) on the n-th visit, the loop (index 1) before *)
Definition orc_cell (n : nat) : oracle :=
  {| o_branch := fun hist => match hist with
                             | 4 :: _ => if Nat.ltb (length hist) (4 + 3 * n)%nat then 1%nat else 0%nat
                             | _ => 0%nat
                             end;
     o_phi := fun _ => 0%nat |}.

Example cell_checks :
  check_closed (h_func H_cell) S_cell = true /\ check_store_closed H_cell S_cell = true /\ check_loads_ok H_cell = true /\
  check_addr_alloc H_cell = true /\ check_wf_ssa (h_func H_cell) = true.
Proof. vm_compute. repeat split. Qed.

(* first visit of the return: only a; after one iteration the cell was strongly updated: the returned value carries
   b's mark and NOT a's any more *)
Example cell_run :
  map hc_pt (htrace H_cell (orc_cell 0) 20 1) = [1; 2; 3; 4; 5] /\
  hobserved_edges H_cell (htrace H_cell (orc_cell 0) 20 1) = [(1, 3); (1, 1)] /\
  map hc_pt (htrace H_cell (orc_cell 1) 20 1) = [1; 2; 3; 4; 6; 3; 4; 5] /\
  hobserved_edges H_cell (htrace H_cell (orc_cell 1) 20 1) = [(1, 3); (2, 3); (2, 1)].
Proof. vm_compute. repeat split. Qed.

Example cell_edge_from_execution : In (Edge 2 1) S_cell.
Proof.
  assert (H : In (2, 1) (hobserved_edges H_cell (htrace H_cell (orc_cell 1) 20 1))) by (vm_compute; auto 10).
  apply hobserved_edges_spec in H. destruct H as (c & v & Hc & Hu & Hm).
  destruct cell_checks as (H1 & H2 & H3 & H4 & _).
  exact (intra_sound_L2_noalias_partial_tcert H_cell S_cell (orc_cell 1) 20 1 c v 2 1 H1 H2 H3 H4 Hc Hu Hm).
Qed.

(** *** the side condition is necessary: a store through a COPY of the pointer
    func alias(a string) string { p := new(string); q := T(p) [a pointer conversion]; *q = a; return *p }
      1  p(v2) = alloc   2  q(v3) = changetype p   3  *q = a(v1)   4  r(v4) = *p   5  return r
    The fact set below is closed under R and the store rule, the execution exhibits the flow a -> return, and the set
    has no such edge: without [addr_alloc] the alias rule of the full L2 is indispensable. *)
Definition H_alias : hfunc :=
  {| h_func := mk_func
       [(1, {| i_kind := KOther; i_def := Some 2; i_ops := [] |});
        (2, {| i_kind := KChangeType; i_def := Some 3; i_ops := [2] |});
        (3, {| i_kind := KOther; i_def := None; i_ops := [3; 1] |});
        (4, {| i_kind := KUnOp; i_def := Some 4; i_ops := [2] |});
        (5, {| i_kind := KReturn; i_def := None; i_ops := [4] |})]
       [(1, [2]); (2, [3]); (3, [4]); (4, [5]); (5, [])]
       [(2, 1); (3, 2); (4, 4); (1, 1)]
       [(1, 1, 1)]
       []
       [(5, [(4, 1)])];
     h_store := map_of_list [(3, (3, 1))];
     h_load := map_of_list [(4, 2)];
     h_alloc := pts [1] |}.

Definition S_alias : list fact :=
  map (fun p => Mark p 1 1) [1; 2; 3; 4; 5] ++ map (fun p => Mark p 3 1) [3; 4; 5].

Example alias_needs_rule :
  check_closed (h_func H_alias) S_alias = true /\ check_store_closed H_alias S_alias = true /\
  check_loads_ok H_alias = true /\ check_wf_ssa (h_func H_alias) = true /\
  check_addr_alloc H_alias = false /\
  hobserved_edges H_alias (htrace H_alias orc0 10 1) = [(1, 1)] /\
  ~ In (Edge 1 1) S_alias.
Proof. vm_compute. repeat split. intuition discriminate. Qed.

(** *** a dereferenced PARAMETER puts the function outside the fragment
    func setp(p *string, x string) string { *p = x; return *p }
      1  *p(v1) = x(v2)      2  r(v3) = *p      3  return r
    p has no defining instruction, so in this semantics it never holds a pointer: the store writes nothing and the
    machine does not exhibit the flow x -> return (only p -> return).  [check_addr_alloc] rejects the function (it
    used to accept it vacuously), so the theorem is not claimed for it, although every other check passes on the
    fact set closed under R and the store rule. *)
Definition H_param : hfunc :=
  {| h_func := mk_func
       [(1, {| i_kind := KOther; i_def := None; i_ops := [1; 2] |});
        (2, {| i_kind := KUnOp; i_def := Some 3; i_ops := [1] |});
        (3, {| i_kind := KReturn; i_def := None; i_ops := [3] |})]
       [(1, [2]); (2, [3]); (3, [])]
       [(3, 2); (1, 1); (2, 1)]
       [(1, 1, 1); (2, 1, 2)]
       []
       [(3, [(3, 1)])];
     h_store := map_of_list [(1, (1, 2))];
     h_load := map_of_list [(2, 1)];
     h_alloc := pts [] |}.

Definition S_param : list fact :=
  map (fun p => Mark p 1 1) [1; 2; 3] ++ map (fun p => Mark p 2 2) [1; 2; 3] ++ map (fun p => Mark p 1 2) [1; 2; 3] ++
  flat_map (fun p => [Mark p 3 1; Mark p 3 2]) [2; 3] ++ [Edge 1 1; Edge 2 1].

Example param_deref_outside :
  check_addr_alloc H_param = false /\
  check_closed (h_func H_param) S_param = true /\ check_store_closed H_param S_param = true /\
  check_loads_ok H_param = true /\ check_wf_ssa (h_func H_param) = true /\
  hobserved_edges H_param (htrace H_param orc0 10 1) = [(1, 1)].
Proof. vm_compute. repeat split. Qed.
