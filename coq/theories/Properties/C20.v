(** * C20 - the analyzer's own parallelism is race-free and order-preserving

    Statements only; proofs are in Proofs/MapPar.v, Proofs/MapParTop.v, Proofs/Conc.v.
    Models: Model/MapPar.v (funcutil.MapParallel as a small-step system), Model/Conc.v (access matrix). *)
From Coq Require Import List ZArith Permutation.
From Argot Require Import Model.MapPar Model.Conc Proofs.MapPar Proofs.MapParTop Proofs.Conc.
Import ListNotations.

(** ** MapParallel *)

(** for every element type, function, input, numRoutines (any integer) and EVERY scheduler: the run takes exactly
    [bound (length xs) n] = 3*len + 2*n + 5 steps, then no step is enabled, the returned slice is [map f xs] (in input
    order) and every goroutine has terminated (no leak) *)
Theorem mappar_correct :
  forall (A B : Type) (f : A -> B) (zero : B) (xs : list A) (nr : Z) (sched : nat -> nat),
    let n := nworkers nr in
    let r := run A B f zero (bound (length xs) n) sched (init A B xs nr) in
    snd r = bound (length xs) n /\
    st_result (fst r) = Some (Some (map f xs)) /\
    all_terminated A B (fst r) = true /\
    enabled A B f zero (fst r) = [].
Proof. exact mappar_correct_sched. Qed.

(** the same for arbitrary sequences of enabled decisions: never more than [bound] steps; a maximal run has exactly
    [bound] steps, the right result, no live thread *)
Theorem mappar_every_maximal_run :
  forall (A B : Type) (f : A -> B) (zero : B) (xs : list A) (nr : Z) (tr : list choice) (s : state A B),
    exec A B f zero tr (init A B xs nr) = Some s ->
    length tr <= bound (length xs) (nworkers nr) /\
    (stuck f zero s ->
     length tr = bound (length xs) (nworkers nr) /\ st_result s = Some (Some (map f xs)) /\
     all_terminated A B s = true).
Proof. exact mappar_every_run. Qed.

(** every reachable state that has not returned has an enabled step *)
Theorem mappar_deadlock_free :
  forall (A B : Type) (f : A -> B) (zero : B) (xs : list A) (nr : Z) (s : state A B),
    reachable f zero xs nr s -> final A B s = false -> exists c, step A B f zero c s <> None.
Proof. exact mappar_deadlock_free. Qed.

(** no partial or wrong result is ever visible; [res[x.idx] = x.x] never indexes out of range *)
Theorem mappar_result_sound :
  forall (A B : Type) (f : A -> B) (zero : B) (xs : list A) (nr : Z) (s : state A B),
    reachable f zero xs nr s -> st_result s = None \/ st_result s = Some (Some (map f xs)).
Proof. exact mappar_result_sound. Qed.

(** the invariant: indices unsent + in flight + collected = 0..len-1, each with payload x_i resp. f x_i *)
Theorem mappar_conservation :
  forall (A B : Type) (f : A -> B) (zero : B) (xs : list A) (nr : Z) (s : state A B),
    reachable f zero xs nr s ->
    Permutation (map (fi A B f) (indexed A xs))
                (map (fi A B f) (st_unsent s) ++ flat_map (pending A B f) (st_workers s) ++ st_collected s).
Proof. exact mappar_conservation. Qed.

(** non-vacuity: concrete runs (3 elements, 2 workers, an arbitrary schedule; numRoutines <= 0 is clamped to 1) *)
Example mappar_ex_run :
  map_parallel nat nat S 0 [10; 20; 30] 2 [3; 1; 4; 1; 5; 9; 2; 6; 5; 3; 5; 8; 9; 7; 9]
  = (Some (Some [11; 21; 31]), 18, true).
Proof. vm_compute. reflexivity. Qed.

Example mappar_ex_negative_routines :
  map_parallel nat nat (fun x => x * x) 0 [1; 2; 3; 4] (-3) [7; 7; 7; 2; 2; 2; 1; 1; 1; 0; 5; 5]
  = (Some (Some [1; 4; 9; 16]), 19, true).
Proof. vm_compute. reflexivity. Qed.

Example mappar_ex_empty : map_parallel nat nat S 0 [] 7 [] = (Some (Some []), 19, true).
Proof. vm_compute. reflexivity. Qed.

(** a reachable intermediate state in which results were collected out of order (index 1 before index 0) *)
Example mappar_ex_out_of_order :
  exists s, exec nat nat S 0
              [CMain; CMain; CMain; CMain; CProdSend 0; CProdSend 1; CWorkCompute 1; CWorkSend 1; CWorkCompute 0;
               CWorkSend 0] (init nat nat [10; 20] 2) = Some s
            /\ st_collected s = [(1, 21); (0, 11)] /\ final nat nat s = false.
Proof. eexists. vm_compute. repeat split. Qed.

(** ** the access matrix *)

(** the boolean check decides the property "no two conflicting accesses are unordered by happens-before" *)
Theorem race_free_spec : forall M : matrix, race_free M = true <-> RaceFree M.
Proof. exact race_free_spec. Qed.

(** the analyzer as it is (matrix variant [fixed = true]: since /repo commit d79ddc0 the summaries report is written
    synchronously between STEP 2 and STEP 3 of BuildGraph): race free under every combination of report-summaries,
    report-coverage, report-paths, summarize-on-demand; by [race_free_spec] no two conflicting accesses of the matrix
    are unordered, in particular every report file write is ordered before the return *)
Theorem analyzer_race_free :
  forall report_summaries report_coverage report_paths on_demand : bool,
    race_free (analyzer report_summaries report_coverage report_paths on_demand true) = true.
Proof. exact analyzer_race_free. Qed.

Theorem analyzer_race_free_prop :
  forall report_summaries report_coverage report_paths on_demand : bool,
    RaceFree (analyzer report_summaries report_coverage report_paths on_demand true).
Proof. exact analyzer_race_free_prop. Qed.

(** without report-summaries both variants of the matrix (before / after the repair) are race free *)
Theorem race_free_partial :
  forall report_coverage report_paths on_demand fixed : bool,
    race_free (analyzer false report_coverage report_paths on_demand fixed) = true.
Proof. exact analyzer_race_free_without_report_summaries. Qed.

(** the matrix of the code BEFORE the repair (detached writer goroutine, [fixed = false]) is refuted with
    report-summaries: the writer reads FlowGraph.Summaries while STEP 3 writes it ... *)
Theorem report_writer_refuted :
  forall report_coverage report_paths on_demand : bool,
    let M := analyzer true report_coverage report_paths on_demand false in
    race_free M = false /\ In writer_witness (racy_pairs M).
Proof. exact analyzer_report_writer_races. Qed.

(** ... and its writes to the summaries file are not ordered before the return of the analysis *)
Theorem report_file_complete_refuted :
  forall report_coverage report_paths on_demand : bool,
    In file_witness (racy_pairs (analyzer true report_coverage report_paths on_demand false)).
Proof. exact analyzer_report_file_incomplete. Qed.

(** a reported pair is a genuine unordered conflict of the matrix *)
Theorem racy_pairs_sound :
  forall (M : matrix) (x y : access),
    WfHB M -> In (x, y) (racy_pairs M) ->
    In x (m_acc M) /\ In y (m_acc M) /\ Conflict x y /\ ~ Ordered M x y.
Proof. exact racy_pairs_sound. Qed.

(** non-vacuity of the race check: a two-step matrix that races, and the same with a lock *)
Example conc_ex_racy :
  race_free (mkMatrix 3 [wr 1 0; rd 2 0] [(0, 1); (0, 2)]) = false.
Proof. vm_compute. reflexivity. Qed.

Example conc_ex_locked :
  race_free (mkMatrix 3 [wrl 1 0 7; rdl 2 0 7] [(0, 1); (0, 2)]) = true.
Proof. vm_compute. reflexivity. Qed.

Example conc_ex_ordered :
  race_free (mkMatrix 3 [wr 0 0; rd 2 0] [(0, 1); (1, 2)]) = true.
Proof. vm_compute. reflexivity. Qed.
