(** * C17 — dataflow graphs are structurally consistent in both directions

    Statements only.  Model of the graph mutators of [analysis/dataflow] ([updateEdgeInfo]/[addInEdge],
    [add{Param,Return}EdgeByPos], the edge-building part of [RunIntraProcedural] with [SyncGlobals], 
    [PopulateGraphFromSummary], the linking steps of [BuildGraph]/[Sync]/[resolveCalleeSummary]):
    [Model/GraphOps.v]; proofs: [Proofs/GraphOps*.v].
    The theorems quantify over every skeleton of nodes and summaries, every state and every operation (sequence). *)
From stdpp Require Import gmap.
From Coq Require Import ZArith.
From Argot Require Import Model.GraphOps Proofs.GraphOps Proofs.GraphOpsInv Proofs.GraphOpsBuild Proofs.GraphOpsExamples.

(** ** 1. every operation preserves consistency

    [inv s = consistent s /\ clean s]: [consistent] is the property (edges mutually recorded, call sites and closures
    mutually registered, global location sets = access nodes of constructed summaries); [clean] says that global
    access nodes of summaries that are not constructed are untouched.  [valid_op] is [True] except for the two
    linking operations (no other call node of the same instruction already registered in the callee; a closure
    node keeps its instruction and summary). *)
Theorem ops_preserve_consistent : forall s o,
  inv s -> valid_op s o -> inv (apply_op s o).
Proof. exact apply_op_inv. Qed.

(** hence every graph reachable from the empty graph over any skeleton is consistent *)
Theorem reachable_consistent : forall ns ss os,
  valid_seq (empty_over ns ss) os -> consistent (run (empty_over ns ss) os).
Proof. intros ns ss os Hv. exact (proj1 (run_inv os _ (empty_inv ns ss) Hv)). Qed.

(** the side condition of the linking step is needed: a second call node of the same instruction resolved to the
    same summary stays unregistered *)
Theorem link_conflict_refuted : exists s o, consistent s /\ ~ valid_op s o /\ ~ consistent (apply_op s o).
Proof. exists (apply_op w0 (OLink 1 2)), (OLink 3 2). exact link_conflict_witness. Qed.

(** ** 2. forward and backward traversals see the same graph *)
Theorem same_intra_edges : forall s, consistent s ->
  forall a b, is_Some (get2 (outm s) a b) <-> is_Some (get2 (inm s) b a).
Proof. intros s (H & _) a b. exact (H a b). Qed.

Theorem same_call_edges : forall s, consistent s ->
  forall n g, callee s !! n = Some g <-> get2 (callsites s) g (instr_of s n) = Some n.
Proof.
  intros s (_ & [H1 H2] & _) n g. split; [apply H1|]. intros H. exact (proj1 (H2 _ _ _ H)).
Qed.

Theorem same_closure_edges : forall s, consistent s ->
  forall c g, closum s !! c = Some g <-> get2 (refclos s) g (instr_of s c) = Some c.
Proof.
  intros s (_ & _ & [H1 H2] & _) c g. split; [apply H1|]. intros H. exact (proj1 (H2 _ _ _ H)).
Qed.

Theorem same_global_edges : forall s, consistent s ->
  forall gl w r, is_wloc s gl w -> is_rloc s gl r ->
    is_Some (get2 (wlocs s) gl w) /\ is_Some (get2 (rlocs s) gl r).
Proof. intros s (_ & _ & _ & [Hw Hr]) gl w r H1 H2. split; [by apply Hw | by apply Hr]. Qed.

(** ** 3. the verified validator run on the real graphs (T-cert) *)
Theorem check_consistent_correct : forall s, check_consistent s = true <-> consistent s.
Proof. exact check_consistent_spec. Qed.

Theorem check_idx_correct : forall s, check_consistent s && check_idx s = true <-> consistent_idx s.
Proof. exact check_idx_spec. Qed.

Theorem check_idx_partial_correct : forall s, check_idx_partial s = true <-> idx_partial s.
Proof. intros s. unfold check_idx_partial. rewrite bool_decide_eq_true. exact (idx_partial_ok_spec s). Qed.

Theorem check_clean_correct : forall s, check_clean s = true <-> clean s.
Proof. intros s. unfold check_clean. rewrite bool_decide_eq_true. exact (clean_ok_spec s). Qed.

(** ** 4. the tuple indices

    The full statement ("with the same tuple index"): [consistent_idx s], i.e. every edge info on the out side of
    (a, b) carries the index stored on the in side of (b, a).  It is REFUTED for the faithful model: [in] keeps one
    edge info per source node, [out] one per distinct index. *)
Theorem idx_refuted : exists ns ss os,
  valid_seq (empty_over ns ss) os /\ consistent (run (empty_over ns ss) os) /\ ~ consistent_idx (run (empty_over ns ss) os).
Proof. exists w_nodes, w_sums, w_idx_ops. exact idx_refuted_witness. Qed.

(** what holds: the index stored on the in side is one of the indices stored on the out side *)
Theorem consistent_idx_partial : forall s o, idx_partial s -> idx_partial (apply_op s o).
Proof. exact apply_op_idxp. Qed.

Theorem reachable_idx_partial : forall ns ss os, idx_partial (run (empty_over ns ss) os).
Proof. intros ns ss os. exact (run_idxp os _ (empty_idxp ns ss)). Qed.

(** ** non-vacuity: a valid run that builds, populates, links and synchronises, with edges, a registered call site
    and a global write location *)
Example ops_nonvacuous : exists ns ss os,
  valid_seq (empty_over ns ss) os /\ inv (run (empty_over ns ss) os) /\
  get2 (callsites (run (empty_over ns ss) os)) 2 7 = Some 1%N /\
  is_Some (get2 (wlocs (run (empty_over ns ss) os)) 9 5) /\
  length (default [] (get2 (outm (run (empty_over ns ss) os)) 1 2)) = 2 /\
  is_Some (get2 (inm (run (empty_over ns ss) os)) 2 1).
Proof. exists w_nodes, w_sums, w_ops. exact nontrivial_witness. Qed.
