(* C12 - the call graph contains every run-time call.

   Statements about muSSA (Lang/MuSSA.v) for ALL programs, oracles, execution lengths and ALL post-fixpoints S of the
   constraint system (Model/Andersen.v): every call event (call site, callee) of an execution - static, through a
   function value / closure, or through an interface - is an edge of the derived call graph at that site, every function
   that has a frame on the stack is reachable from the roots over such edges, roots started are roots.  Synthetic
   wrappers ($bound, $thunk, promoted/value-receiver wrappers) are ordinary muSSA functions translated from their real
   SSA bodies, so "through synthetic wrappers" is literal.  Gap: go/defer call sites, reflection, the fragment limits
   listed in Properties/C11.v; the vendored on-line call-graph construction is tied by model edges <= impl edges.
   Closure facts of reachability and the worklist model of dataflow.CallGraphReachable; model of ResolveCallee. *)
From Coq Require Import List NArith PArith FMapPositive.
From Argot Require Import Lang.MuSSA Model.Andersen.
From Argot Require Proofs.Andersen Proofs.AndersenSolver Proofs.AndersenThm.
Import ListNotations.

Theorem cg_sound : forall P S, closed P S -> forall os st evs, run P os (init_state P) = (st, evs) ->
  (forall cs g, In (ECall cs g) evs -> edge S cs g /\ reach S g /\ cg_reach P S g) /\
  (forall g, In (EStart g) evs -> In g (roots P)) /\
  (forall fr, In fr (sstack st) -> reach S (ffn fr) /\ cg_reach P S (ffn fr)).
Proof. exact AndersenThm.cg_sound. Qed.

Theorem cg_edge_of_site : forall P S f fn cs g,
  In (f, fn) (funcs P) -> calls_in fn cs -> edge S cs g -> cg_edge P S f g.
Proof. exact AndersenThm.cg_edge_of_site. Qed.

(* closure facts of call-graph reachability *)
Theorem cg_reach_roots : forall P S r, In r (roots P) -> cg_reach P S r.
Proof. exact AndersenSolver.cg_reach_roots. Qed.

Theorem cg_reach_closed : forall P S f g, cg_reach P S f -> cg_edge P S f g -> cg_reach P S g.
Proof. exact AndersenSolver.cg_reach_closed. Qed.

Theorem cg_reach_least : forall P S (X : fname -> Prop),
  (forall r, In r (roots P) -> X r) -> (forall f g, X f -> cg_edge P S f g -> X g) -> forall f, cg_reach P S f -> X f.
Proof. exact AndersenSolver.cg_reach_least. Qed.

Theorem cg_reach_mono : forall P S S',
  (forall cs g, edge S cs g -> edge S' cs g) -> forall f, cg_reach P S f -> cg_reach P S' f.
Proof. exact AndersenSolver.cg_reach_mono. Qed.

(* the worklist model of dataflow.CallGraphReachable computes exactly the least set containing the entry points and
   closed under the successor relation, whatever the fuel that let it finish *)
Theorem cg_reachable_from_spec : forall succs fuel entries res,
  cg_reachable_from fuel succs entries = Some res ->
  forall f, AndersenSolver.inset res f <-> AndersenSolver.wreach succs entries f.
Proof. exact AndersenSolver.cg_reachable_from_spec. Qed.

(* ResolveCallee (static callee, else interface contract, else call-graph callees at the site, else by type) returns a
   superset of the call-graph callees when no contract applies *)
Theorem resolve_complete : forall static cg bytype g,
  (forall f, static = Some f -> forall g', In g' cg -> g' = f) ->
  In g cg -> In g (AndersenThm.resolve_callee static None cg bytype).
Proof. exact AndersenThm.resolve_complete. Qed.

(* with an interface contract the single contract implementation stands for all callees (by design of the tool) *)
Theorem resolve_contract_not_superset : exists cg g c, In g cg /\ ~ In g (AndersenThm.resolve_callee None (Some c) cg []).
Proof. exact AndersenThm.resolve_contract_not_superset. Qed.

Theorem analyze_edges_least : forall fuel P S, closed P S ->
  AndersenSolver.below (AndersenSolver.result_sol (analyze fuel P)) S.
Proof. exact AndersenSolver.analyze_least. Qed.

Example ex_events : snd (run AndersenThm.ex_prog AndersenThm.ex_oracle (init_state AndersenThm.ex_prog)) =
  [EStart 1%positive; ECall 20%positive 2%positive; ECall 21%positive 3%positive; ECall 22%positive 3%positive].
Proof. exact AndersenThm.ex_events. Qed.

Example ex_edges : exists F, analyze 30%nat AndersenThm.ex_prog = Done F /\
  holdsb F (FPts (NReg 1%positive 6%positive) (LObj 11%positive 0%N)) = true /\
  holdsb F (FEdge 20%positive 2%positive) = true /\ holdsb F (FEdge 21%positive 3%positive) = true /\
  holdsb F (FPts (NReg 1%positive 6%positive) (LObj 10%positive 0%N)) = false.
Proof. exact AndersenThm.ex_analyze. Qed.
