(** * C18 - the reachability analysis is conservative

    Model: Model/Reach.v (worklist closure + findCallees driven by the tables regenerated from the Go AST,
    Model/ReachGen.v); lemmas: Proofs/Reach.v, Proofs/ReachTables.v.  This file only restates them.
    Theorems quantify over ALL programs (dumped operand facts), root selections and fuels; the finite facts about the
    regenerated tables are re-proved by [vm_compute] on every run.

    The statements that depend on whether the checked tree has the defects [defer-go-call-args] / [iface-assert-widening]
    live in coq/variants/c18/{DeferRefuted,DeferRepaired,AssertRefuted,AssertRepaired,Sound}.v: of each Refuted/Repaired
    pair exactly one compiles, Sound.v (the unconditional soundness theorem of the checked tree) compiles iff both
    defects are repaired; tools/props/c18.py reports the state and alarms when a defect that is not a listed finding is back. *)
From Coq Require Import List PArith Bool FMapPositive.
From Argot Require Import Model.Reach Model.ReachGen Proofs.Reach Proofs.ReachTables.
Import ListNotations.

(** ** the worklist closure (any successor function) *)

Theorem reach_closed : forall succ roots fuel res,
    reach succ roots fuel = Done res ->
    incl roots res /\ forall x, In x res -> incl (succ x) res.
Proof. intros succ roots fuel res H. split; [exact (reach_roots _ _ _ _ H) | exact (Proofs.Reach.reach_closed _ _ _ _ H)]. Qed.

Theorem reach_least : forall succ roots fuel res (S : positive -> Prop),
    reach succ roots fuel = Done res ->
    (forall x, In x roots -> S x) -> (forall x y, S x -> In y (succ x) -> S y) ->
    forall x, In x res -> S x.
Proof. exact Proofs.Reach.reach_least. Qed.

Theorem reach_exact : forall succ roots fuel res,
    reach succ roots fuel = Done res -> forall x, In x res <-> Reachable succ roots x.
Proof. exact Proofs.Reach.reach_exact. Qed.

Theorem reach_nodup : forall succ roots fuel res, reach succ roots fuel = Done res -> NoDup res.
Proof. exact Proofs.Reach.reach_nodup. Qed.

Theorem reach_terminates_generic : forall succ roots (U : list positive) fuel,
    incl roots U -> (forall x, In x U -> incl (succ x) U) -> length U <= fuel ->
    exists res, reach succ roots fuel = Done res.
Proof. exact Proofs.Reach.reach_terminates. Qed.

Theorem reach_fuel_irrelevant : forall succ roots n m res,
    reach succ roots n = Done res -> n <= m -> reach succ roots m = Done res.
Proof. exact Proofs.Reach.reach_fuel_mono. Qed.

(** ** the analysis on programs, for any visitor tables *)

(** reported set is contained in the set of all functions *)
Theorem reach_subset_all : forall T P s fuel out,
    wf_refs P = true -> reach_prog T P s fuel = Done out -> incl out (map f_id P).
Proof. exact reach_prog_subset_all. Qed.

(** -nomain / -noinit: excluding more roots shrinks the reported set (the four selections form a lattice under [sel_le]) *)
Theorem reach_mono_roots : forall T P s1 s2 f1 f2 o1 o2,
    sel_le s1 s2 -> reach_prog T P s1 f1 = Done o1 -> reach_prog T P s2 f2 = Done o2 -> incl o2 o1.
Proof. exact reach_prog_mono_sel. Qed.

(** termination: the number of functions (+1) is enough fuel *)
Theorem reach_terminates : forall T P s,
    wf_refs P = true -> exists out, reach_prog T P s (prog_fuel P) = Done out.
Proof. exact reach_prog_terminates. Qed.

(** verified validator (T-cert, run on the implementation's reported sets): a set that passes the certificate check
    contains every function of the abstract execution model *)
Theorem cert_sound : forall T idx rts out,
    check_cert T idx rts out = true -> forall f, executed T idx rts f -> In f out.
Proof. exact Proofs.Reach.cert_sound. Qed.

(** conservativeness, given full operand coverage of the visitor tables and no method reachable only through an
    interface-to-interface assertion *)
Theorem reach_sound : forall T P s fuel out,
    operand_cover T = true -> wf_ops T P = true ->
    reach_prog T P s fuel = Done out -> iface_cover T P s out ->
    forall f, executed T (index P) (roots s P) f -> In f out.
Proof. exact Proofs.Reach.reach_sound. Qed.

(** ... and without the side condition when findCallees also resolves interface-to-interface assertions *)
Theorem reach_sound_full : forall T P s fuel out,
    operand_cover T = true -> assert_case T = true -> wf_ops T P = true ->
    reach_prog T P s fuel = Done out ->
    forall f, executed T (index P) (roots s P) f -> In f out.
Proof. exact Proofs.Reach.reach_sound_full. Qed.

(** ** the checked tree (regenerated tables) *)

Theorem tables_in_schema : tables_wf gen_tables = true.
Proof. exact tables_wf_holds. Qed.

(** finite coverage theorem: every operand field of every ssa instruction type that may hold a function constant is
    visited by preTraversalVisitValuesInstruction - except (at most) Defer.Call.Args and Go.Call.Args; the
    MakeInterface case of findCallees resolves the methods *)
Theorem operand_cover_except_known : operand_cover_except gen_tables known_uncovered = true.
Proof. exact Proofs.ReachTables.operand_cover_except_known. Qed.

(** the reported set contains everything reachable in the static call graph (direct calls, closure creations) *)
Theorem reach_contains_cg : forall P s fuel out,
    wf_ops gen_tables P = true -> reach_prog gen_tables P s fuel = Done out ->
    forall f, cg_reach gen_tables (index P) (roots s P) f -> In f out.
Proof. intros P s fuel out. exact (Proofs.Reach.reach_contains_cg gen_tables P s fuel out call_cover_holds). Qed.

(** the only ways the analysis of the checked tree can miss an executed function: a function constant among the
    arguments of a deferred / go call, or a method callable only after an interface-to-interface assertion *)
Theorem reach_gaps_only_known : forall P s fuel out,
    wf_ops gen_tables P = true -> reach_prog gen_tables P s fuel = Done out ->
    forall g, In g (cert_gaps gen_tables (index P) (roots s P) out) -> gap_excused known_uncovered true g = true.
Proof. intros P s fuel out. exact (reach_gaps_excused_weak gen_tables known_uncovered P s fuel out Proofs.ReachTables.operand_cover_except_known). Qed.

(** conservativeness of the checked tree on every program where neither of the two occurs *)
Theorem reach_sound_partial : forall P s fuel out,
    wf_ops gen_tables P = true -> reach_prog gen_tables P s fuel = Done out ->
    (forall g, In g (cert_gaps gen_tables (index P) (roots s P) out) -> gap_excused known_uncovered true g = false) ->
    forall f, executed gen_tables (index P) (roots s P) f -> In f out.
Proof. intros P s fuel out. exact (reach_sound_except gen_tables known_uncovered P s fuel out Proofs.ReachTables.operand_cover_except_known). Qed.

(** ** non-vacuity *)

(** the hypotheses of [reach_sound_partial] / [cert_sound] hold on a program with a stored function, a called closure,
    an invoked method and an init root; the unreferenced function is not reported *)
Example hypotheses_satisfiable :
  wf_refs ex_ok = true /\ wf_ops gen_tables ex_ok = true
  /\ exists out, reach_prog gen_tables ex_ok all_roots (prog_fuel ex_ok) = Done out
                 /\ cert_gaps gen_tables (index ex_ok) (roots all_roots ex_ok) out = []
                 /\ In 2%positive out /\ In 3%positive out /\ In 4%positive out /\ In 5%positive out /\ ~ In 6%positive out.
Proof. exact ex_ok_facts. Qed.

Example selection_lattice :
  sel_le (mkSel false false) (mkSel true false) /\ sel_le (mkSel false false) (mkSel false true)
  /\ sel_le (mkSel true false) (mkSel true true) /\ sel_le (mkSel false true) (mkSel true true).
Proof. unfold sel_le; simpl. repeat split; auto. Qed.

Example no_roots_nothing_reported : reach_prog gen_tables ex_ok (mkSel true true) (prog_fuel ex_ok) = Done [].
Proof. exact ex_ok_noroots. Qed.

Example defer_program_executes_hidden :
  wf_ops gen_tables ex_defer = true /\ executed gen_tables (index ex_defer) (roots all_roots ex_defer) 3%positive.
Proof. split; [exact (proj2 ex_defer_wf) | exact ex_defer_executed]. Qed.

Example assert_program_executes_method :
  wf_ops gen_tables ex_widen = true /\ executed gen_tables (index ex_widen) (roots all_roots ex_widen) 3%positive.
Proof. split; [exact (proj2 ex_widen_wf) | exact ex_widen_executed]. Qed.
