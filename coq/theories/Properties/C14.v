(* C14 - an instruction classified thread-local never touches shared memory.
   Model: Lang/Conc.v (calculus), Model/Esc.v (escape graph, transfer, verdict), Model/EscTable.v + gen/GenLocality.v (T-gen). *)
From Coq Require Import List Arith Bool.
From Coq Require String.
From Argot Require Import Lang.Conc Model.Esc Model.EscTable Proofs.EscGraph0 Proofs.Esc Proofs.EscStep Proofs.EscSound
  Proofs.EscShare Proofs.EscFinal.
From ArgotGen Require Import GenLocality.
Import ListNotations.

(* the closure invariant (edge a -> b implies status a <= status b) is established by every transfer function, which
   only adds edges and raises statuses *)
Theorem status_closed : forall fn pc i g g', transfer fn pc i g = Some g' -> closed g' /\ gle g g'.
Proof. intros; split; [eapply transfer_closed | eapply transfer_ge]; eauto. Qed.

(* alpha (the abstraction relation between concrete states and escape graphs) is preserved by every step of every
   program under every valid annotation, and holds initially *)
Theorem alpha_preserved : forall P A, check_annot P A = true -> forall s c, alpha P A s -> alpha P A (step P s c).
Proof. exact alpha_step. Qed.

Theorem alpha_reachable : forall P A, check_annot P A = true -> 0 < length P -> forall sched, alpha P A (run P sched).
Proof. exact alpha_run. Qed.

(* the annotation the fixpoint loop returns is valid *)
Theorem analyze_sound : forall fuel P A, analyze fuel P = Annot A -> check_annot P A = true.
Proof. exact analyze_valid. Qed.

(* local_sound for the core instruction set: all programs, all schedules *)
Theorem local_sound_partial : forall P A, check_annot P A = true -> 0 < length P ->
  forall sched tid t i succs q l,
    nth_error (thr (run P sched)) tid = Some t -> t_live t = true ->
    fetch P (t_fn t) (t_pc t) = Some (i, succs) ->
    guarded_operand i = Some q ->
    instr_verdict (getA A (t_fn t) (t_pc t)) i = VLocal ->
    t_regs t q = Some l ->
    ~ shared (run P sched) tid l.
Proof. exact local_sound_core. Qed.

(* the same as an instance of the full statement local_sound (Proofs/EscFinal.v); what the calculus lacks w.r.t. Go is
   listed in fragment_lacks *)
Theorem local_sound_partial_instance : local_sound conc_lang conc_classified_local.
Proof. exact local_sound_conc. Qed.

(* T-gen: every instruction kind that dereferences a pointer-like operand is guarded by derefsAreLocal on that operand (or
   gets the conservative non-local default), every ssa instruction type gets a verdict, and checkEscape consults the
   locality of the instructions in a node's location set *)
Theorem locality_table_sound : table_sound locality_table locality_default = true.
Proof. vm_compute. reflexivity. Qed.

Theorem locality_table_total : table_total locality_table locality_default ssa_instruction_types = true.
Proof. vm_compute. reflexivity. Qed.

Theorem transfer_table_covers : forallb (handled transfer_table) transfer_required = true.
Proof. vm_compute. reflexivity. Qed.

Theorem check_escape_consults_locality : check_escape_iterates_marks && check_escape_reports = true.
Proof. vm_compute. reflexivity. Qed.

(* the taint visitor skips call instructions (callees are checked in their own contexts) but not builtin calls *)
Theorem check_escape_checks_builtins : check_escape_skips_builtins = false.
Proof. vm_compute. reflexivity. Qed.

(* non-vacuity: a program with a go statement; the store before the go is Local, the one after it is not, and the
   goroutine's load through its parameter is not *)
Definition ex_prog : prog :=
  [ {| f_arity := 0; f_code := [ (IAlloc 0, [1]); (IStore 0 0 0, [2]); (IGo 1 [0], [3]); (IStore 0 0 0, []) ] |};
    {| f_arity := 1; f_code := [ (ILoad 1 0 0, []) ] |} ].

Example ex_verdicts : exists A, analyze 10 ex_prog = Annot A /\
  verdicts ex_prog A = [(0, 0, VLocal); (0, 1, VLocal); (0, 2, VLocal); (0, 3, VNonLocal); (1, 0, VNonLocal)].
Proof. eexists; split; vm_compute; reflexivity. Qed.

Example ex_shared : shared (run ex_prog [(0, 0); (0, 0); (0, 0)]) 0 0.
Proof.
  right. exists 1, {| t_fn := 1; t_pc := 0; t_regs := spawn_regs (upd (fun _ => None) 0 (Some 0)) [0]; t_live := true |}, 0, 0.
  repeat split; auto. constructor.
Qed.
