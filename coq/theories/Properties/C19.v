(* C19 - May-panic analysis reports every goroutine entry without a recovering defer.
   Only statements; proofs are in Proofs/MayPanic.v (unbounded, all programs of the mini-IR) and Proofs/MayPanicGen.v
   (finite, vm_compute over the tables regenerated from the Go source).  Model: Model/MayPanic.v. *)
From Coq Require Import List String.
From Argot Require Import Model.MayPanic Proofs.MayPanic Proofs.MayPanicGen.
From ArgotGen Require GenMayPanic.
Import ListNotations.
Local Open Scope string_scope.
Local Open Scope list_scope.

(* ---- the full statement: Proofs.MayPanic.reports_all, unfolded here so that it stays visible ----------------------- *)
Theorem full_statement : reports_all <->
  (forall (c : config) (P : program) (fnh : func) (fm : form) (p : pos) (f : fid),
    In fnh (funcs P) -> In (IGo fm p) (f_body fnh) ->   (* a go statement of any form ...                          *)
    filtered_fn c fnh = false ->                         (* ... outside the excluded packages ...                   *)
    may_target P fm f ->                                 (* ... that may launch f ...                               *)
    ~ defers_recovering P f ->                           (* ... where f does not defer a function calling recover   *)
    reported c P f p).                                   (* f is reported together with this creation site          *)
Proof. exact reports_all_unfold. Qed.

(* ---- refuted on the faithful model (each witness is confirmed on the real tool by tools/props/c19.py) ------------ *)
Theorem go_forms_refuted : ~ reports_all.
Proof. exact Proofs.MayPanic.go_forms_refuted. Qed.

Theorem go_invoke_refuted : ~ reports_all_for (fun fm => exists m, fm = FInvoke m).            (* go i.M()            *)
Proof. exact Proofs.MayPanic.go_invoke_refuted. Qed.

Theorem go_funcvalue_refuted : ~ reports_all_for (fun fm => exists s, fm = FValue s).          (* go fv()             *)
Proof. exact Proofs.MayPanic.go_funcvalue_refuted. Qed.

Theorem go_callee_allowlisted_refuted : ~ reports_all_for direct_form.                         (* go sort.Slice(..)   *)
Proof. exact Proofs.MayPanic.go_callee_allowlisted_refuted. Qed.

Theorem go_callee_excluded_refuted : ~ reports_all_for direct_form.                            (* -exclude lib; go lib.F() *)
Proof. exact Proofs.MayPanic.go_callee_excluded_refuted. Qed.

(* ---- proved for ALL programs: static / closure forms ------------------------------------------------------------- *)
Theorem reports_static_closure_partial : forall c P fnh fm p f,
  In fnh (funcs P) -> In (IGo fm p) (f_body fnh) -> (fm = FStatic f \/ fm = FClosure f) ->
  filtered c P f = false -> does_defer_recover P f = false ->
  reported c P f p.
Proof. exact reports_static_closure. Qed.

Theorem reports_static_closure_spec_partial : forall c P fnh fm p f,
  In fnh (funcs P) -> In (IGo fm p) (f_body fnh) -> direct_form fm -> may_target P fm f ->
  filtered c P f = false -> ~ defers_recovering_direct P f ->
  reported c P f p.
Proof. exact reports_static_closure_spec. Qed.

Theorem reported_exactly : forall c P f p,
  reported c P f p <->
  (exists fnh fm, In fnh (funcs P) /\ In (IGo fm p) (f_body fnh) /\ (fm = FStatic f \/ fm = FClosure f)) /\
  filtered c P f = false /\ does_defer_recover P f = false.
Proof. exact reported_iff. Qed.

Theorem report_entries_unique : forall c P, NoDup (map fst (report c P)).
Proof. exact report_nodup. Qed.

(* ---- does_defer_recover against "defers a function that calls recover" ------------------------------------------- *)
Theorem does_defer_recover_exact_direct : forall P f,
  does_defer_recover P f = true <-> defers_recovering_direct P f.
Proof. exact does_defer_recover_iff_direct. Qed.

Theorem does_defer_recover_sound : forall P f, does_defer_recover P f = true -> defers_recovering P f.
Proof. exact Proofs.MayPanic.does_defer_recover_sound. Qed.

Theorem does_defer_recover_complete_refuted :                                 (* defer r.Rec() / defer fv(): over-report *)
  ~ (forall P f, defers_recovering P f -> does_defer_recover P f = true).
Proof. exact Proofs.MayPanic.does_defer_recover_complete_refuted. Qed.

Theorem defer_invoke_not_recognised :
  defers_recovering prog_defer_invoke 0 /\ does_defer_recover prog_defer_invoke 0 = false.
Proof. exact Proofs.MayPanic.defer_invoke_not_recognised. Qed.

Theorem defer_value_not_recognised :
  defers_recovering prog_defer_value 0 /\ does_defer_recover prog_defer_value 0 = false.
Proof. exact Proofs.MayPanic.defer_value_not_recognised. Qed.

Theorem noneffective_defers_agree :     (* defer recover() ; defer func(){ helper() }() ; defer func(){ defer recover() }() *)
  (does_defer_recover prog_defer_noneffective 0 = false /\ ~ defers_recovering prog_defer_noneffective 0) /\
  (does_defer_recover prog_defer_noneffective 1 = false /\ ~ defers_recovering prog_defer_noneffective 1) /\
  (does_defer_recover prog_defer_noneffective 4 = false /\ ~ defers_recovering prog_defer_noneffective 4).
Proof. exact Proofs.MayPanic.noneffective_defers_agree. Qed.

(* ---- T-gen: the model dispatches as the current Go source does ---------------------------------------------------- *)
Theorem go_switch_matches_code : switch_ok go_action GenMayPanic.go_switch = true.
Proof. exact Proofs.MayPanicGen.go_switch_matches_code. Qed.

Theorem recover_switch_matches_code : switch_ok recover_action GenMayPanic.recover_switch = true.
Proof. exact Proofs.MayPanicGen.recover_switch_matches_code. Qed.

Theorem defer_switch_matches_code : switch_ok defer_action GenMayPanic.defer_switch = true.
Proof. exact Proofs.MayPanicGen.defer_switch_matches_code. Qed.

Theorem scans_have_no_guards :
  GenMayPanic.go_switch_guards ++ GenMayPanic.recover_switch_guards ++ GenMayPanic.defer_switch_guards = [].
Proof. exact Proofs.MayPanicGen.scans_have_no_guards. Qed.

Theorem filter_matches_code : filter_ok = true.
Proof. exact Proofs.MayPanicGen.filter_matches_code. Qed.

(* ---- non-vacuity -------------------------------------------------------------------------------------------------- *)
(* main: go named(); go func(){..}() [closure]; go rec()   where rec defers a closure calling recover, lib.F excluded *)
Definition ex_prog : program :=
  mkProgram [ mkFunc (Some "p1") "/w/main.go" [IGo (FStatic 1) 10; IGo (FClosure 2) 11; IGo (FStatic 3) 12; IGo (FStatic 1) 13];
              mkFunc (Some "p1") "/w/main.go" [ICall (FStatic 5); IOther];                  (* 1 named *)
              mkFunc (Some "p1") "/w/main.go" [IOther];                                     (* 2 main$1 *)
              mkFunc (Some "p1") "/w/main.go" [IDefer (FClosure 4); ICall (FStatic 5)];     (* 3 rec *)
              mkFunc (Some "p1") "/w/main.go" [ICall (FBuiltin "recover")];                 (* 4 rec$1 *)
              mkFunc (Some "p1") "/w/main.go" [ICall (FBuiltin "panic")] ]                  (* 5 boom *)
            [] [].
Definition ex_cfg : config := mkConfig GenMayPanic.allow_list "/w" ["lib"].

Example ex_report : report ex_cfg ex_prog = [(1, [10; 13]); (2, [11])].
Proof. vm_compute. reflexivity. Qed.

Example ex_partial_hypotheses_satisfiable :
  In (nth 0 (funcs ex_prog) (mkFunc None "" [])) (funcs ex_prog) /\
  In (IGo (FClosure 2) 11) (f_body (nth 0 (funcs ex_prog) (mkFunc None "" []))) /\
  filtered ex_cfg ex_prog 2 = false /\ does_defer_recover ex_prog 2 = false /\ reported ex_cfg ex_prog 2 11.
Proof.
  repeat split; try (simpl; auto; fail); try reflexivity.
  exists [11]. split; [vm_compute; auto|simpl; auto].
Qed.

Example ex_recovering_not_reported : does_defer_recover ex_prog 3 = true /\ ~ reported ex_cfg ex_prog 3 12.
Proof.
  split; [reflexivity|]. intros H. apply reported_iff in H. destruct H as [_ [_ H]]. vm_compute in H. discriminate.
Qed.

Example ex_invoke_witness : report cfg0 prog_go_invoke = [] /\ may_target prog_go_invoke (FInvoke 0) 1.
Proof. split; [reflexivity|simpl; auto]. Qed.

Example ex_excluded_prefix_semantics :
  is_excluded_one "/w/lib/a.go" (make_absolute "/w" "lib") = true /\
  is_excluded_one "/w/libx/a.go" (make_absolute "/w" "lib") = false /\
  is_excluded_one "/w/libx/a.go" (make_absolute "/w" "lib/") = false /\
  is_excluded_one "/w/lib/a.go" (make_absolute "/w" "lib/a.go") = true /\
  is_excluded_one "/w/lib/a.go" "/w/lib/" = true.
Proof. repeat split; reflexivity. Qed.
