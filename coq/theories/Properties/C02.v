(* Property C02: sanitizers and validators only suppress flows that really pass through them.
   Only statements + `exact lemma`; models in Model/Cond.v, proofs in Proofs/Cond.v. *)
From Coq Require Import List Arith Bool.
Import ListNotations.
From Argot Require Import Model.Cond Proofs.Cond.

(* ---- the FULL statement of the validator half (a Definition: it does NOT hold of the code as it is) -------------- *)
Definition C02_validator_statement : Prop := validator_only_all_paths.

(* refuted on the faithful model: 4-block diamond  b0: if ValidateErr(x) != nil -> b1 | b2 ; b1,b2 -> b3: sink(x).  The one path
   found (b0 b2 b3) takes the validated else-branch, the path through b1 bypasses the check.  Confirmed on the real tool. *)
Theorem validator_drop_refuted : ~ validator_only_all_paths.
Proof. exact Cond.validator_drop_refuted. Qed.

(* ---- what IS proved about the code as it is ------------------------------------------------------------------------ *)
Theorem validator_single_path_partial : forall g src dst v raw,
  find_path g src dst = Found raw ->
  edge_dropped (as_predicate_to (simple_path_condition g raw) v) = true ->
  cfg_path g src dst raw /\ passes_validated_branch g raw v.
Proof. exact Cond.validator_single_path_partial. Qed.

Theorem dropped_iff_raw_validated : forall g raw v,
  edge_dropped (as_predicate_to (simple_path_condition g raw) v) = true <-> passes_validated_branch g raw v.
Proof. exact Cond.dropped_iff_raw_validated. Qed.

(* the stack search of FindPathBetweenBlocks: terminates within fuel_bound, returns a real CFG path, and finds a path
   whenever one exists *)
Theorem find_path_terminates : forall g src dst, wf_cfg g -> find_path g src dst <> OutOfFuel.
Proof. exact Cond.find_path_terminates. Qed.

Theorem find_path_sound : forall g src dst raw,
  find_path g src dst = Found raw -> cfg_path g src dst raw.
Proof. exact Cond.find_path_sound. Qed.

Theorem find_path_complete : forall g src dst,
  wf_cfg g -> (exists p, cfg_path g src dst p) -> exists raw, find_path g src dst = Found raw.
Proof. exact Cond.find_path_complete_cfg. Qed.

(* isValidatorCondition / isValuePredicateTo characterised *)
Theorem ivc_sound : forall c pol,
  is_validator_condition c pol = true -> cval c true = Some pol /\ cval c false = Some (negb pol).
Proof. exact Cond.ivc_sound. Qed.

Theorem ivc_char : forall c pol,
  wf_cond c = true -> (is_validator_condition c pol = true <-> cval c true = Some pol).
Proof. exact Cond.ivc_char. Qed.

Theorem is_pred_to_char : forall c v,
  is_pred_to c v = true <->
  exists rk args a, leaf c = Some (rk, args) /\ is_pred_kind rk = true /\ In a args /\ same_data a v = true.
Proof. exact Cond.is_pred_to_char. Qed.

(* the executable spec used by the check is exact *)
Theorem ideal_kept_exact : forall g src dst v,
  wf_cfg g ->
  ((exists raw, ideal_kept g src dst v = Found raw) <->
   (exists p, cfg_path g src dst p /\ ~ passes_validated_branch g p v)).
Proof. exact Cond.ideal_kept_exact. Qed.

Theorem ideal_dropped_exact : forall g src dst v,
  wf_cfg g ->
  (ideal_kept g src dst v = NoPath <-> (forall p, cfg_path g src dst p -> passes_validated_branch g p v)).
Proof. exact Cond.ideal_dropped_exact. Qed.

Theorem wf_cfgb_ok : forall g, wf_cfgb g = true -> wf_cfg g.
Proof. exact Cond.wf_cfgb_ok. Qed.

(* ---- sanitizer half, on the abstract worklist traversal ------------------------------------------------------------ *)
Theorem sanitizer_stop_exact : forall out stop fuel roots res,
  visit out stop fuel roots = Some res ->
  forall n, In n res <-> sreach out stop roots n.
Proof. exact Cond.sanitizer_stop_exact. Qed.

(* several taint problems: stopping also at the sanitizers of ANOTHER problem can only lose nodes (and does: Example) *)
Theorem other_problem_sanitizers_only_lose : forall out stop_p stop_q fuel fuel' roots res res',
  visit out stop_p fuel roots = Some res ->
  visit out (fun n => stop_p n || stop_q n) fuel' roots = Some res' ->
  incl res' res.
Proof. exact Cond.other_problem_sanitizers_only_lose. Qed.

Example other_problem_sanitizer_must_not_stop :
  visit ex_out_q (fun _ => false) 10 [0] = Some [4; 2; 1; 0] /\
  visit ex_out_q (fun n => false || (n =? 1)) 10 [0] = Some [1; 0].
Proof. exact Cond.other_problem_sanitizer_must_not_stop. Qed.

(* ---- non-vacuity ---------------------------------------------------------------------------------------------------- *)
Example early_return_dropped :
  wf_cfgb early_return = true /\
  find_path early_return 0 2 = Found [0; 2] /\
  edge_dropped (as_predicate_to (simple_path_condition early_return [0; 2]) vx) = true /\
  ideal_kept early_return 0 2 vx = NoPath.
Proof. exact Cond.early_return_dropped. Qed.

Example triangle_refutes :
  exists raw p, find_path triangle 0 2 = Found raw /\
    edge_dropped (as_predicate_to (simple_path_condition triangle raw) vx) = true /\
    cfg_path triangle 0 2 p /\ ~ passes_validated_branch triangle p vx.
Proof. exact Cond.validator_drop_refuted_triangle. Qed.

Example dowhile_kept :
  find_path dowhile 0 1 = Found [0; 1] /\
  edge_dropped (as_predicate_to (simple_path_condition dowhile [0; 1]) vx) = false.
Proof. exact Cond.dowhile_kept. Qed.

Example diamond_bypass : ideal_kept diamond 0 3 vx = Found [0; 1; 3].
Proof. exact Cond.diamond_bypass. Qed.

Example nil_check_char :
  let c := CBin OpNeq true false true (CCall true RErr [vx]) COther in
  wf_cond c = true /\ is_validator_condition c false = true /\ is_validator_condition c true = false /\
  is_pred_to c (VMkIface 9 vx) = true.
Proof. exact Cond.nil_check_char. Qed.

Example sanitizer_bypass_visited : visit ex_out ex_stop 10 [0] = Some [4; 3; 1; 0].
Proof. exact Cond.sanitizer_bypass_visited. Qed.
