(* C14, known findings of the pinned tree as refutation lemmas over the regenerated tables (they stop compiling when the
   code is repaired; the check then records a stale finding instead of alarming). *)
From Coq Require Import List Bool String.
From Argot Require Import Model.EscTable.
From ArgotGen Require Import GenLocality.
Import ListNotations.
Open Scope string_scope.

(* builtin calls (copy/append/delete/clear/len) and string([]byte) dereference their operands but are always Local *)
Theorem locality_uncovered_refuted :
  exists k, In k ["Call"; "Convert"] /\ table_verdict locality_table locality_default k "" = LLocal.
Proof. exists "Call"; split; [left; reflexivity | vm_compute; reflexivity]. Qed.

Theorem locality_convert_refuted : table_verdict locality_table locality_default "Convert" "" = LLocal.
Proof. vm_compute; reflexivity. Qed.

(* and the taint visitor skips call instructions when it consults the locality map *)
Theorem check_escape_skips_calls_refuted : check_escape_skips_calls = true.
Proof. vm_compute; reflexivity. Qed.

(* deferred calls have no transfer function *)
Theorem transfer_defer_refuted : exists k, In k transfer_required_defer /\ handled transfer_table k = false.
Proof. exists "Defer"; split; [left; reflexivity | vm_compute; reflexivity]. Qed.
