(* C14, known findings of the pinned tree as refutation lemmas over the regenerated tables (they stop compiling when the
   code is repaired; the check then records a stale finding instead of alarming).
   Retired after fix 913f0a4 (now theorems of Properties/C14.v: locality_table_sound covers builtin calls and Convert,
   check_escape_checks_builtins): locality_uncovered_refuted, locality_convert_refuted, check_escape_skips_calls_refuted. *)
From Coq Require Import List Bool String.
From Argot Require Import Model.EscTable.
From ArgotGen Require Import GenLocality.
Import ListNotations.
Open Scope string_scope.

(* deferred calls have no transfer function *)
Theorem transfer_defer_refuted : exists k, In k transfer_required_defer /\ handled transfer_table k = false.
Proof. exists "Defer"; split; [left; reflexivity | vm_compute; reflexivity]. Qed.
