(** * C15 — escape graphs form a join-semilattice; the primitives are monotone; worklist order is irrelevant

    Statements only; the proofs are in [Proofs/EscGraph*.v] and [Base/Fix.v].  Model: [Model/EscGraph.v].

    Reading guide.  [intr] is [Node.IntrinsicEscape]; [ord] is an arbitrary re-ordering of a list (Go map iteration
    order) — all statements hold for every [ord] that returns a permutation, and the equalities relate runs with
    DIFFERENT orders.  [Inv intr g] is the data-structure invariant: same key set in [edges] and [status], every edge
    endpoint has a status, flags non-empty, status >= intrinsic status, and status closed along edges
    (edge a->b implies status a <= status b).  [le_g] is what [LessEqual] decides, graph equality [=] is what [Matches]
    decides.  [covers es ss h] says that the lists [es]/[ss] enumerate the atomic edges / status entries of [h] in any
    order, repetitions allowed — i.e. any iteration order of [Merge]'s two loops.

    Not proved (tied by the checked runs instead): monotonicity of the 40 cases of [transferFunction] and of
    [EscapeGraph.Call]; [WeakAssign]/[LoadField]/[StoreField] with subnode recursion. *)
From stdpp Require Import gmap.
From Argot Require Import Base.Fix Model.EscGraph Proofs.EscGraph.

(** ** The order and the equivalence computed by the code *)
Theorem lessEqual_spec : forall (ord : list node -> list node), (forall l, ord l ≡ₚ l) ->
  forall g h, less_equal ord g h = true <-> le_g g h.
Proof. exact less_equal_spec. Qed.

Theorem matches_spec : forall g h, matches g h = true <-> g = h.
Proof. exact EscGraphOrder.matches_spec. Qed.

Theorem le_preorder : (forall g, le_g g g) /\ (forall g h k, le_g g h -> le_g h k -> le_g g k).
Proof. exact (conj le_g_refl le_g_trans). Qed.

Theorem le_antisym : forall intr g h, wf intr g -> wf intr h -> le_g g h -> le_g h g -> g = h.
Proof. exact le_g_antisym. Qed.

(** ** computeEdgeClosure: the fuel bound suffices, the result is the least closed status above the input *)
Theorem closure_fuel_suffices : forall (ord : list node -> list node), (forall l, ord l ≡ₚ l) ->
  forall e a b st, exists st', closure_st ord (close_fuel e) e a b st = Done st'.
Proof. exact closure_st_done. Qed.

(** ** The primitives compute least invariant extensions *)
Theorem add_edge_least : forall intr (ord : list node -> list node), (forall l, ord l ≡ₚ l) -> forall a b f g,
  Inv intr g -> f_is_none f = false ->
  Inv intr (add_edge intr ord a b f g) /\ le_g g (add_edge intr ord a b f g) /\
  (forall x, f_has f x = true -> hasb (add_edge intr ord a b f g) a b x) /\
  (forall k, Inv intr k -> le_g g k -> (forall x, f_has f x = true -> hasb k a b x) ->
             le_g (add_edge intr ord a b f g) k).
Proof. exact add_edge_spec. Qed.

Theorem merge_node_status_least : forall intr (ord : list node -> list node), (forall l, ord l ≡ₚ l) -> forall n s g,
  Inv intr g -> n ∈ dom (status g) ->
  Inv intr (merge_node_status ord n s g) /\ le_g g (merge_node_status ord n s g) /\
  sle s (sigma (status (merge_node_status ord n s g)) n) /\
  (forall k, Inv intr k -> le_g g k -> sle s (sigma (status k) n) -> le_g (merge_node_status ord n s g) k).
Proof. exact merge_node_status_spec. Qed.

(** ** Merge *)
(** order-free specification: whatever order the edges and statuses of [h] are visited in, and whatever the
    iteration order inside the closure, the result is the closure of (union of edges, maximum of statuses) *)
Theorem merge_spec : forall intr (o1 o2 : list node -> list node), (forall l, o1 l ≡ₚ l) -> (forall l, o2 l ≡ₚ l) ->
  forall es ss g h, covers es ss h -> Inv intr g -> Inv intr h ->
  merge_lists intr o1 es ss g = join_spec o2 g h.
Proof. exact merge_lists_eq_join. Qed.

Theorem merge_spec_model : forall intr (o1 o2 : list node -> list node), (forall l, o1 l ≡ₚ l) -> (forall l, o2 l ≡ₚ l) ->
  forall g h, Inv intr g -> Inv intr h -> merge intr o1 g h = join_spec o2 g h.
Proof. exact merge_eq_join. Qed.

Theorem merge_order_free : forall intr (o1 o2 : list node -> list node), (forall l, o1 l ≡ₚ l) -> (forall l, o2 l ≡ₚ l) ->
  forall es1 ss1 es2 ss2 g h, covers es1 ss1 h -> covers es2 ss2 h -> Inv intr g ->
  merge_lists intr o1 es1 ss1 g = merge_lists intr o2 es2 ss2 g.
Proof. exact merge_lists_order_free. Qed.

Theorem merge_preserves_inv : forall intr (o1 : list node -> list node), (forall l, o1 l ≡ₚ l) ->
  forall g h, Inv intr g -> Inv intr (merge intr o1 g h).
Proof. exact merge_inv. Qed.

Theorem merge_idem : forall intr (o1 : list node -> list node), (forall l, o1 l ≡ₚ l) -> forall g, Inv intr g -> merge intr o1 g g = g.
Proof. exact EscGraphMerge.merge_idem. Qed.

Theorem merge_comm : forall intr (o1 o2 : list node -> list node), (forall l, o1 l ≡ₚ l) -> (forall l, o2 l ≡ₚ l) ->
  forall g h, Inv intr g -> Inv intr h -> merge intr o1 g h = merge intr o2 h g.
Proof. exact EscGraphMerge.merge_comm. Qed.

Theorem merge_assoc : forall intr (o1 o2 o3 o4 : list node -> list node),
  (forall l, o1 l ≡ₚ l) -> (forall l, o2 l ≡ₚ l) -> (forall l, o3 l ≡ₚ l) -> (forall l, o4 l ≡ₚ l) ->
  forall g h k, Inv intr g -> Inv intr h ->
  merge intr o1 (merge intr o2 g h) k = merge intr o3 g (merge intr o4 h k).
Proof. exact EscGraphMerge.merge_assoc. Qed.

Theorem merge_ub : forall intr (o1 : list node -> list node), (forall l, o1 l ≡ₚ l) ->
  forall g h, Inv intr g -> le_g g (merge intr o1 g h) /\ le_g h (merge intr o1 g h).
Proof. exact EscGraphMerge.merge_ub. Qed.

Theorem merge_lub : forall intr (o1 : list node -> list node), (forall l, o1 l ≡ₚ l) ->
  forall g h k, Inv intr g -> Inv intr k -> le_g g k -> le_g h k -> le_g (merge intr o1 g h) k.
Proof. exact merge_least. Qed.

Theorem le_iff_merge_noop : forall intr (o1 : list node -> list node), (forall l, o1 l ≡ₚ l) ->
  forall g h, Inv intr g -> Inv intr h -> le_g g h <-> merge intr o1 h g = h.
Proof. exact le_iff_merge. Qed.

(** ** Monotonicity of the primitives ([prim_mono]) *)
Theorem add_node_mono : forall intr (ord : list node -> list node), (forall l, ord l ≡ₚ l) -> forall n g g',
  Inv intr g -> Inv intr g' -> le_g g g' -> le_g (add_node intr n g) (add_node intr n g').
Proof. exact EscGraphMerge.add_node_mono. Qed.

Theorem add_edge_mono : forall intr (ord : list node -> list node), (forall l, ord l ≡ₚ l) -> forall a b f g g',
  f_is_none f = false -> Inv intr g -> Inv intr g' -> le_g g g' ->
  le_g (add_edge intr ord a b f g) (add_edge intr ord a b f g').
Proof. exact EscGraphMerge.add_edge_mono. Qed.

Theorem merge_node_status_mono : forall intr (ord : list node -> list node), (forall l, ord l ≡ₚ l) -> forall n s g g',
  n ∈ dom (status g) -> Inv intr g -> Inv intr g' -> le_g g g' ->
  le_g (merge_node_status ord n s g) (merge_node_status ord n s g').
Proof. exact EscGraphMerge.merge_node_status_mono. Qed.

Theorem add_then_merge_status_mono : forall intr (ord : list node -> list node), (forall l, ord l ≡ₚ l) -> forall n s g g',
  Inv intr g -> Inv intr g' -> le_g g g' ->
  le_g (merge_node_status ord n s (add_node intr n g)) (merge_node_status ord n s (add_node intr n g')).
Proof. exact add_status_mono. Qed.

Theorem weak_assign_mono : forall intr (ord : list node -> list node), (forall l, ord l ≡ₚ l) -> forall dest src g g',
  Inv intr g -> Inv intr g' -> le_g g g' ->
  le_g (weak_assign_flat intr ord dest src g) (weak_assign_flat intr ord dest src g').
Proof. exact weak_assign_flat_mono. Qed.

Theorem merge_mono_left : forall intr (o1 o2 : list node -> list node), (forall l, o1 l ≡ₚ l) -> (forall l, o2 l ≡ₚ l) ->
  forall g g' h, Inv intr g -> Inv intr g' -> le_g g g' -> le_g (merge intr o1 g h) (merge intr o2 g' h).
Proof. exact EscGraphMerge.merge_mono_left. Qed.

Theorem merge_mono_right : forall intr (o1 o2 : list node -> list node), (forall l, o1 l ≡ₚ l) -> (forall l, o2 l ≡ₚ l) ->
  forall g h h', Inv intr g -> le_g h h' -> le_g (merge intr o1 g h) (merge intr o2 g h').
Proof. exact EscGraphMerge.merge_mono_right. Qed.

(** ** Worklist order is irrelevant *)
(** generic: any two runs of a worklist iteration of a monotone system end in equivalent states *)
Theorem wl_order_irrelevant : forall (L : Type) (le : L -> L -> Prop),
  (forall a, le a a) -> (forall a b c, le a b -> le b c -> le a c) ->
  forall (good : L -> Prop) (n : nat) (F : nat -> state L -> L),
  (forall i x, i < n -> sgood L good n x -> good (F i x)) ->
  (forall i x y, i < n -> sgood L good n x -> sgood L good n y -> Fix.sle L le n x y -> le (F i x) (F i y)) ->
  forall succs : nat -> list nat,
  (forall i j x v, ~ List.In j (succs i) -> F j (upd L x i v) = F j x) ->
  forall x0 wl0 a b,
  sgood L good n x0 -> inflationary L le n F x0 -> unqueued_stable L le n F (wl0, x0) ->
  wsteps L le n F succs (wl0, x0) (nil, a) -> wsteps L le n F succs (wl0, x0) (nil, b) ->
  forall i, i < n -> eqv L le (a i) (b i).
Proof. exact Fix.wl_order_irrelevant. Qed.

(** the escape analysis' block loop: merge of the predecessors' block-end graphs followed by ANY monotone
    invariant-preserving transfer function; every run that empties the worklist yields the same graphs *)
Theorem block_fixpoint_order_free : forall intr (ord : list node -> list node), (forall l, ord l ≡ₚ l) ->
  forall (n : nat) (preds succs : nat -> list nat),
  (forall j i, In i (preds j) -> i < n) -> (forall i j, In i (preds j) -> In j (succs i)) ->
  forall init, (forall i, Inv intr (init i)) ->
  forall tf : nat -> graph -> graph,
  (forall i g, Inv intr g -> Inv intr (tf i g)) ->
  (forall i g g', Inv intr g -> Inv intr g' -> le_g g g' -> le_g (tf i g) (tf i g')) ->
  forall x0 wl0 a b,
  sgood graph (Inv intr) n x0 ->
  inflationary graph le_g n (blockF intr ord preds init tf) x0 ->
  unqueued_stable graph le_g n (blockF intr ord preds init tf) (wl0, x0) ->
  wsteps graph le_g n (blockF intr ord preds init tf) succs (wl0, x0) ([], a) ->
  wsteps graph le_g n (blockF intr ord preds init tf) succs (wl0, x0) ([], b) ->
  forall i, i < n -> a i = b i.
Proof. exact EscGraphFix.block_fixpoint_order_free. Qed.

(** termination of the fuelled worklist algorithm from a height certificate, for every oracle *)
Theorem wl_terminates : forall (L : Type) (le0 : L -> L -> Prop),
  (forall a, le0 a a) -> (forall a b c, le0 a b -> le0 b c -> le0 a c) ->
  forall (good : L -> Prop) (n : nat) (F : nat -> state L -> L),
  (forall i x, i < n -> sgood L good n x -> good (F i x)) ->
  (forall i x y, i < n -> sgood L good n x -> sgood L good n y -> Fix.sle L le0 n x y -> le0 (F i x) (F i y)) ->
  forall succs : nat -> list nat,
  (forall i j, i < n -> List.In j (succs i) -> j < n) ->
  forall eqb : L -> L -> bool,
  (forall a b, good a -> good b -> eqv L le0 a b -> eqb a b = true) ->
  forall (mu : L -> nat) (H : nat),
  (forall a, good a -> mu a <= H) ->
  (forall a b, good a -> good b -> le0 a b -> ~ le0 b a -> mu a < mu b) ->
  forall m : nat, (forall i, i < n -> length (succs i) <= m) ->
  forall pick fuel wl x,
  all_lt n wl -> sgood L good n x -> inflationary L le0 n F x ->
  (m + 1) * room L mu H x n + length wl < fuel ->
  exists a, wl_iter L F succs eqb pick fuel wl x = Some a.
Proof. exact Fix.wl_iter_terminates. Qed.

(** ** Non-vacuity: concrete invariant-satisfying graphs, evaluated inside Coq *)
Definition ex_intr (n : node) : estatus := if decide (n = 3%positive) then Escaped else Local.
Definition ex_id (l : list node) : list node := l.
Definition ex_g : graph :=
  mkGraph (<[1%positive := {[2%positive := f_bit BInt]}]> (<[2%positive := ∅]> (<[3%positive := ∅]> ∅)))
          (<[1%positive := Local]> (<[2%positive := Local]> (<[3%positive := Escaped]> ∅))).
Definition ex_h : graph :=
  mkGraph (<[2%positive := {[3%positive := f_bit BExt]}]> (<[3%positive := {[2%positive := f_bit BInt]}]> ∅))
          (<[2%positive := Escaped]> (<[3%positive := Escaped]> ∅)).

Example ex_g_inv : Inv ex_intr ex_g.
Proof. apply inv_b_sound. vm_compute. reflexivity. Qed.
Example ex_h_inv : Inv ex_intr ex_h.
Proof. apply inv_b_sound. vm_compute. reflexivity. Qed.
Example ex_not_comparable : less_equal ex_id ex_g ex_h = false /\ less_equal ex_id ex_h ex_g = false.
Proof. vm_compute. split; reflexivity. Qed.
Example ex_merge_raises_status :
  sigma (status (merge ex_intr ex_id ex_g ex_h)) 2%positive = Escaped /\
  sigma (status (merge ex_intr ex_id ex_g ex_h)) 1%positive = Local /\
  matches (merge ex_intr ex_id ex_g ex_h) (merge ex_intr (@rev node) ex_h ex_g) = true /\
  matches (merge ex_intr ex_id ex_g ex_h) (join_spec ex_id ex_g ex_h) = true.
Proof. vm_compute. repeat split; reflexivity. Qed.
