(** * C03 — Backtrace reports every backward data flow from a backtrace point

    Statements only.  Model: Model/Back.v (the DFS of analysis/backtrace/backtrace.go over a dumped linked graph).
    All theorems quantify over every graph, configuration, iteration-order oracle, prevEdgeInfos state and fuel. *)
From Coq Require Import List PArith NArith ZArith Bool FMapPositive Permutation.
Import ListNotations.
From Argot Require Import Model.Back Proofs.BackBase Proofs.BackWf Proofs.BackCover Proofs.BackTerm Proofs.BackExamples.
Local Open Scope positive_scope.

(** Go map iteration order: whatever the oracle answers, the candidates tried are a permutation of the candidates. *)
Theorem oracle_permutes : forall cs rs, Permutation (sort_by_rank cs rs) cs.
Proof. exact sort_by_rank_perm. Qed.

(** [trace_wf]: every recorded trace (and the path of every silent leaf) passes the executable checker [trace_wfb] — the
    same boolean function that is extracted and run on the traces the real implementation reports (T-cert). *)
Theorem trace_wf : forall rank g cfg entry fuel p s o,
  back rank g cfg fuel p entry = (s, o) ->
  (forall t, In t (traces s) -> trace_wfb g entry t = true) /\
  (forall t, In t (silent s) -> trace_wfb g entry t = true) /\
  (forall v, In v (visited s) -> exists tl, v_path v = v_node v :: tl).
Proof. exact back_trace_wf. Qed.

(** what the checker's verdict means: a connected sequence of backward steps of the step relation [bstep], ending at
    the entry argument *)
Theorem trace_wfb_sound : forall g e t, trace_wfb g e t = true -> chain g t /\ exists pre, t = pre ++ [e].
Proof. exact trace_wfb_spec. Qed.

Example trace_wf_nonvacuous :
  let '(s, o) := back no_oracle g_direct cfg_eager 100%nat empty_pei 1 in
  o = Done /\ traces s = [[4; 3; 1]] /\ silent s = [] /\ closed_runb g_direct cfg_eager s = true.
Proof. exact direct_run. Qed.

(** the strict reading of the free-variable link (the closure node must create the closure that owns the free
    variable) does NOT hold of the traversal: the closure trace is not checked against the closure being left *)
Theorem trace_strict_refuted :
  let '(s, o) := back no_oracle g_clo cfg_eager 100%nat empty_pei 1 in
  o = Done /\ traces s = [[7; 6; 5; 4; 2; 7; 6; 5; 4; 2; 1]] /\
  map (trace_wfb g_clo 1) (traces s) = [true] /\ map (chain_strictb g_clo) (traces s) = [false].
Proof. exact clo_run. Qed.

(** [back_terminates]: a fuel bound computed from the graph suffices — the traversal never runs out of fuel. *)
Theorem back_terminates : forall rank g cfg entry fuel p,
  (fuel_bound g entry <= fuel)%nat -> snd (back rank g cfg fuel p entry) <> OutOfFuel.
Proof. exact back_terminates_lemma. Qed.

(** [back_visited_cover] (unconditional): when the traversal finishes, the entry is expanded and every expanded
    visitor node lies on a recorded trace or on the path to a DFS leaf that recorded nothing. *)
Theorem back_visited_cover : forall rank g cfg entry fuel p s,
  back rank g cfg fuel p entry = (s, Done) ->
  In (root entry) (visited s) /\
  forall v, In v (visited s) -> exists t, (In t (traces s) \/ In t (silent s)) /\ suffix (v_path v) t.
Proof. exact Proofs.BackCover.back_visited_cover. Qed.

(** [leaf_reports]: every DFS leaf records its trace. *)
Definition leaf_reports (s : state) : Prop := silent s = [].

(** the full statement: every node backward reachable along a realizable path (ideal successor relation [vreach]:
    the rules of the traversal without tuple-index filtering and without the seen / depth stops) lies on a recorded
    trace *)
Definition back_cover_statement : Prop :=
  forall rank g cfg entry fuel p s,
    back rank g cfg fuel p entry = (s, Done) -> back_cover g cfg entry s.

(** [back_cover_partial]: proved under [leaf_reports] and under the executable closure condition [closed_runb] (the
    set of expanded nodes is closed under the ideal successors up to key and Prev class).  Both hypotheses are
    evaluated by the extracted model on every real run; their failures are the candidates for a missed flow. *)
Theorem back_cover_partial : forall rank g cfg entry fuel p s,
  back rank g cfg fuel p entry = (s, Done) -> leaf_reports s -> closed_runb g cfg s = true ->
  back_cover g cfg entry s.
Proof. exact back_cover_closed. Qed.

Example back_cover_partial_nonvacuous :
  let '(s, o) := back no_oracle g_direct cfg_eager 100%nat empty_pei 1 in
  o = Done /\ traces s = [[4; 3; 1]] /\ silent s = [] /\ closed_runb g_direct cfg_eager s = true.
Proof. exact direct_run. Qed.

(** the same witness with the tuple repair switched on in the model: both origins are on traces and the hypotheses of
    [back_cover_partial] hold *)
Example back_cover_partial_tuple_repaired :
  let '(s, o) := back no_oracle g_tuple cfg_fix_tuple 100%nat empty_pei 1 in
  o = Done /\ traces s = [[6; 4; 3; 1]; [7; 5; 3; 1]] /\ silent s = [] /\ closed_runb g_tuple cfg_fix_tuple s = true.
Proof. exact tuple_fixed_run. Qed.

(** [leaf_reports_refuted]: a global that is only read (no write location), on-demand mode: the read access is a leaf
    of the DFS that records nothing, so no trace at all is reported although the node is reached; eagerly the same
    graph yields the trace. *)
Theorem leaf_reports_refuted :
  (let '(s, o) := back no_oracle g_glob cfg_ondemand 100%nat empty_pei 1 in
   o = Done /\ traces s = [] /\ silent s = [[3; 1]] /\ map v_node (visited s) = [3; 1]) /\
  (let '(s, o) := back no_oracle g_glob cfg_eager 100%nat empty_pei 1 in
   o = Done /\ traces s = [[3; 1]] /\ silent s = []).
Proof. exact (conj glob_ondemand glob_eager). Qed.

(** [back_cover_refuted]: the full statement is false of the traversal even when every leaf reports — a call
    returning a tuple whose two components both flow to the argument: In() keeps one tuple index per source, the
    tuple-index filter of addNext then drops the other return value and its origin (node 7) lies on no trace. *)
Theorem back_cover_refuted : ~ back_cover_statement.
Proof.
  intros H. apply tuple_not_covered.
  destruct tuple_run as [Hr _]. exact (H no_oracle g_tuple cfg_eager 1 100%nat empty_pei tuple_state Hr).
Qed.
