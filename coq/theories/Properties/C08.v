(* Properties/C08.v -- C08: function summaries cover every direct def-use chain of the function; the abstract state is closed
   under control-flow propagation.  (Also the intra-procedural half of C01: lemma 1 `intra_sound` is stated over ANY fact set
   closed under the rule system R, which is what these theorems are about.)

   Model: Model/Intra.v (rule system R, facts Mark p v m / Edge m u, validators), lemmas: Proofs/Intra.v, Proofs/BuiltinTbl.v,
   regenerated table: ArgotGen.GenBuiltins (T-gen from analysis/dataflow/builtins.go).
   Every theorem quantifies over ALL functions F (finite records of arbitrary size) and ALL fact sets. *)
From Coq Require Import List Bool PArith NArith String.
From Argot Require Import Model.Intra Proofs.Intra Model.BuiltinTbl Proofs.BuiltinTbl.
From ArgotGen Require Import GenBuiltins.
Import ListNotations.

(* the extracted validator decides closedness under R *)
Theorem check_closed_ok : forall F l, check_closed F l = true <-> closed F (fun f => In f l).
Proof. exact Proofs.Intra.check_closed_ok. Qed.

Theorem violations_nil : forall F l, violations F l = [] <-> closed F (fun f => In f l).
Proof. exact Proofs.Intra.violations_nil. Qed.

(* second sentence of the property: marks attached to a value at a point are attached at every later point *)
Theorem closed_forward : forall F S, closed F S -> forall p q v m, S (Mark p v m) -> cfg_succ F p q -> S (Mark q v m).
Proof. exact Proofs.Intra.closed_forward. Qed.

Theorem closed_forward_star : forall F S, closed F S -> forall p q v m, S (Mark p v m) -> reach F p q -> S (Mark q v m).
Proof. exact Proofs.Intra.closed_forward_star. Qed.

(* first sentence: every def-use chain from an origin to a use is covered by a summary edge, for EVERY closed set *)
Theorem closed_covers_chains : forall F S, closed F S -> wf_ssa F -> covers_chains F S.
Proof. exact Proofs.Intra.closed_covers_chains. Qed.

(* every closed set contains the least model of R, and the least model is closed *)
Theorem closed_least : forall F S, closed F S -> forall f, derivable F f -> S f.
Proof. exact Proofs.Intra.closed_least. Qed.

Theorem derivable_closed : forall F, closed F (derivable F).
Proof. exact Proofs.Intra.derivable_closed. Qed.

(* the boolean SSA well-formedness check run on every dumped function is sound *)
Theorem check_wf_ssa_sound : forall F, check_wf_ssa F = true -> wf_ssa F.
Proof. exact Proofs.Intra.check_wf_ssa_sound. Qed.

(* T-cert end to end: what the two validators establish about the implementation's output for one function *)
Theorem tcert_sound : forall F l, check_wf_ssa F = true -> check_closed F l = true -> covers_chains F (fun f => In f l).
Proof. exact Proofs.Intra.tcert_sound. Qed.

Theorem check_closed_forward : forall F l, check_closed F l = true ->
  forall p q v m, In (Mark p v m) l -> cfg_succ F p q -> In (Mark q v m) l.
Proof. exact Proofs.Intra.check_closed_forward. Qed.

(* ---- T-gen: the case/arity table of isHandledBuiltinCall / doBuiltinCall, regenerated from the Go source on every run ----
   Every value-returning builtin whose result carries operand data (append len min max complex real imag ssa:wrapnilchk), at
   every arity at which isHandledBuiltinCall claims it (0..4 and the class ">= 5"), is handled by a doBuiltinCall case that
   transfers from ALL operands.  (Until fix a1b576c the statement carried an exception for min/max with other than two
   operands -- finding builtin-minmax-arity; the exception is retired, so a regression breaks this theorem.) *)
Theorem builtins_transfer_all : forall g, In g go_builtins -> builtin_ok handled_table do_table g = true.
Proof. apply forallb_forall. vm_compute. reflexivity. Qed.

Theorem builtins_classified : forall g, In g go_builtins -> builtin_classified g = true.
Proof. apply forallb_forall. vm_compute. reflexivity. Qed.

(* the guard of the Error() special case is exactly  invoke /\ Method.Name() = "Error" /\ len(Args) = 0  at every occurrence
   in isHandledBuiltinCall and doBuiltinCall (a weaker guard removes the call node of every interface method named Error) *)
Theorem error_guard_exact : forall g, In g error_guards -> guard_exact g = true.
Proof. apply forallb_forall. vm_compute. reflexivity. Qed.

Theorem error_guard_in_both : guards_cover error_guards = true.
Proof. vm_compute. reflexivity. Qed.

Theorem row_any_arity_sound : forall tbl name, row_any_arity tbl name = true -> forall n, some_row_transfers_all tbl name n = true.
Proof. exact Proofs.BuiltinTbl.row_any_arity_sound. Qed.

(* min / max are all-operand loops in the table generated from the current tree *)
Example min_any_arity : some_row_transfers_all do_table "min" 3 = true /\ row_any_arity do_table "max" = true.
Proof. vm_compute. split; reflexivity. Qed.

Local Open Scope positive_scope.

(* ---- non-vacuity: real functions (dumps of corpus/c08/regress1 produced by harness/cmd/c08dump) ------------------------ *)

(* func conv(a string) []byte { return []byte(a + "x") } *)
(* F 39 p1.conv 1 3 4 1 1 user *)
Definition F_conv : func := mk_func
  [(1, {| i_kind := KBinOp; i_def := Some 3; i_ops := [1; 2] |});
   (2, {| i_kind := KConvert; i_def := Some 4; i_ops := [3] |});
   (3, {| i_kind := KReturn; i_def := None; i_ops := [4] |})]
  [(1, [2]); (2, [3]); (3, [])]
  [(3, 1); (4, 2); (1, 1)]
  [(1, 1, 1)]
  []
  [(3, [(4, 1)])].
Definition S_conv : list fact :=
  [Mark 1 1 1; Mark 1 3 1; Mark 2 1 1; Mark 2 3 1; Mark 2 4 1; Mark 3 1 1; Mark 3 3 1; Mark 3 4 1; Edge 1 1].

Example conv_wf : check_wf_ssa F_conv = true. Proof. vm_compute. reflexivity. Qed.
Example conv_closed : check_closed F_conv S_conv = true. Proof. vm_compute. reflexivity. Qed.
(* a chain of length 2: parameter a (v1) -> a + "x" (v3) -> []byte(..) (v4), returned at point 3 as result node 1 *)
Example conv_chain : chain F_conv 1 1 4 [3; 4].
Proof.
  eapply ch_cons with (p := 1%positive); [|eapply ch_cons with (p := 2%positive); [|apply ch_nil]];
    eexists; repeat split; try reflexivity; simpl; auto.
Qed.
Example conv_edge : In (Edge 1 1) S_conv.
Proof.
  apply (tcert_sound F_conv S_conv conv_wf conv_closed 1%positive 1%positive 1%positive 4%positive [3%positive; 4%positive]
           3%positive 1%positive).
  - left; reflexivity.
  - exact conv_chain.
  - left; reflexivity.
Qed.

(* func loop(a string, n int) string { s := ""; for i := 0; i < n; i++ { s = s + a }; return s }   (phi, CFG cycle) *)
(* F 50 p1.loop 4 9 10 1 1 user *)
Definition F_loop : func := mk_func
  [(1, {| i_kind := KOther; i_def := None; i_ops := [] |});
   (2, {| i_kind := KPhi; i_def := Some 5; i_ops := [3; 4] |});
   (3, {| i_kind := KPhi; i_def := Some 8; i_ops := [6; 7] |});
   (4, {| i_kind := KBinOp; i_def := Some 9; i_ops := [8; 2] |});
   (5, {| i_kind := KIf; i_def := None; i_ops := [9] |});
   (6, {| i_kind := KBinOp; i_def := Some 4; i_ops := [5; 1] |});
   (7, {| i_kind := KBinOp; i_def := Some 7; i_ops := [8; 10] |});
   (8, {| i_kind := KOther; i_def := None; i_ops := [] |});
   (9, {| i_kind := KReturn; i_def := None; i_ops := [5] |})]
  [(1, [2]); (2, [3]); (3, [4]); (4, [5]); (5, [6; 9]); (6, [7]); (7, [8]); (8, [2]); (9, [])]
  [(5, 2); (8, 3); (9, 4); (4, 6); (7, 7); (1, 1); (2, 1)]
  [(1, 1, 1); (2, 1, 2)]
  []
  [(5, [(9, 1)]); (9, [(5, 2)])].
Definition S_loop : list fact :=
  [Mark 1 1 1; Mark 1 2 2; Mark 2 1 1; Mark 2 2 2; Mark 2 4 1; Mark 2 5 1; Mark 2 9 2; Mark 3 1 1; Mark 3 2 2; Mark 3 4 1; Mark 3 5 1; Mark 3 9 2; Mark 4 1 1; Mark 4 2 2; Mark 4 4 1; Mark 4 5 1; Mark 4 9 2; Mark 5 1 1; Mark 5 2 2; Mark 5 4 1; Mark 5 5 1; Mark 5 9 2; Mark 6 1 1; Mark 6 2 2; Mark 6 4 1; Mark 6 5 1; Mark 6 9 2; Mark 7 1 1; Mark 7 2 2; Mark 7 4 1; Mark 7 5 1; Mark 7 9 2; Mark 8 1 1; Mark 8 2 2; Mark 8 4 1; Mark 8 5 1; Mark 8 9 2; Mark 9 1 1; Mark 9 2 2; Mark 9 4 1; Mark 9 5 1; Mark 9 9 2; Edge 1 2; Edge 2 1].

Example loop_wf : check_wf_ssa F_loop = true. Proof. vm_compute. reflexivity. Qed.
Example loop_closed : check_closed F_loop S_loop = true. Proof. vm_compute. reflexivity. Qed.
(* parameter a (v1) -> s + a (v4, in the loop body) -> phi s (v5, loop header) -> returned *)
Example loop_chain : chain F_loop 1 1 5 [4; 5].
Proof.
  eapply ch_cons with (p := 6%positive); [|eapply ch_cons with (p := 2%positive); [|apply ch_nil]];
    eexists; repeat split; try reflexivity; simpl; auto.
Qed.
Example loop_required : required_edges F_loop 20%nat = [(1, 2); (2, 1)].
Proof. vm_compute. reflexivity. Qed.

(* ---- the statement is sharp: the real final states below, dumped from the tree BEFORE the fix commits e5a6fa9 / a1b576c /
   e1856b7 (snapshot 25e32d0), are NOT closed; on the current tree the same functions validate (corpus/c08/regress1) -------- *)

(* func three(a string) (int, int, string) { return 1, 2, a }: addReturnEdge drops tuple index 2 > #return instructions *)
(* F 64 p1.three 1 1 3 1 3 user *)
Definition F_three : func := mk_func
  [(1, {| i_kind := KReturn; i_def := None; i_ops := [2; 3; 1] |})]
  [(1, [])]
  [(1, 1)]
  [(1, 1, 1)]
  []
  [(1, [(2, 1); (3, 2); (1, 3)])].
Definition S_three : list fact :=
  [Mark 1 1 1].

Example three_wf : check_wf_ssa F_three = true. Proof. vm_compute. reflexivity. Qed.
Example three_violations : violations F_three S_three = [VEdge 1 1 1 3]. Proof. vm_compute. reflexivity. Qed.

(* "the state the summary is built from is closed under R" was refuted for the implementation at 25e32d0: witness = its real
   dump of func three (finding return-tuple-index-bound, fixed by e5a6fa9); the chain parameter a -> result #2 is not covered.
   Kept as the witness that closedness and chain coverage can fail on real analysis output. *)
Theorem impl_state_closed_refuted :
  exists F l, wf_ssa F /\ ~ closed F (fun f => In f l) /\
              exists m p0 v0 p u, is_origin F m p0 v0 /\ chain F m v0 v0 [] /\ consumes F p v0 u /\ ~ In (Edge m u) l.
Proof.
  exists F_three, S_three. split; [apply check_wf_ssa_sound; exact three_wf|]. split.
  - intros H. apply check_closed_ok in H. vm_compute in H. discriminate.
  - exists 1%positive, 1%positive, 1%positive, 1%positive, 3%positive.
    split; [left; reflexivity|]. split; [apply ch_nil|]. split; [right; right; left; reflexivity|].
    intros [H|[]]. discriminate.
Qed.

(* func mx(a, b, c int) int { return max(a, b, c) }: doBuiltinCall handles exactly two operands (finding builtin-minmax-arity, fixed by a1b576c) *)
(* F 55 p1.mx 1 2 5 1 1 user *)
Definition F_mx : func := mk_func
  [(1, {| i_kind := (KBuiltin BMax); i_def := Some 5; i_ops := [1; 2; 3] |});
   (2, {| i_kind := KReturn; i_def := None; i_ops := [5] |})]
  [(1, [2]); (2, [])]
  [(5, 1); (1, 1); (2, 1); (3, 1)]
  [(5, 1, 1); (6, 1, 2); (7, 1, 3)]
  []
  [(2, [(5, 1)])].
Definition S_mx : list fact :=
  [Mark 1 1 1; Mark 1 1 5; Mark 1 2 2; Mark 1 2 6; Mark 1 3 3; Mark 1 3 7; Mark 1 5 4; Mark 2 1 1; Mark 2 1 5; Mark 2 2 2; Mark 2 2 6; Mark 2 3 3; Mark 2 3 7; Mark 2 5 4].

Example mx_not_closed : check_closed F_mx S_mx = false. Proof. vm_compute. reflexivity. Qed.

(* _, b := pair(); x, ok := b.(string); return x : the tuple-index filter of transferPre drops the mark of pair's result #1 at
   Extract #0 of the comma-ok type assertion (finding extract-index-noncall-tuple, fixed by e1856b7) *)
(* F 32 p1.assertSecond 3 9 8 2 1 user *)
Definition F_assert2 : func := mk_func
  [(1, {| i_kind := KCall; i_def := Some 2; i_ops := [] |});
   (2, {| i_kind := (KExtract 0%N true); i_def := Some 3; i_ops := [2] |});
   (3, {| i_kind := (KExtract 1%N true); i_def := Some 4; i_ops := [2] |});
   (4, {| i_kind := KTypeAssert; i_def := Some 5; i_ops := [4] |});
   (5, {| i_kind := (KExtract 0%N false); i_def := Some 6; i_ops := [5] |});
   (6, {| i_kind := (KExtract 1%N false); i_def := Some 7; i_ops := [5] |});
   (7, {| i_kind := KIf; i_def := None; i_ops := [7] |});
   (8, {| i_kind := KReturn; i_def := None; i_ops := [6] |});
   (9, {| i_kind := KReturn; i_def := None; i_ops := [8] |})]
  [(1, [2]); (2, [3]); (3, [4]); (4, [5]); (5, [6]); (6, [7]); (7, [8; 9]); (8, []); (9, [])]
  [(2, 1); (3, 2); (4, 3); (5, 4); (6, 5); (7, 6)]
  [(1, 1, 2); (2, 1, 2)]
  [(1, (2, 0%N)); (2, (2, 1%N))]
  [(7, [(7, 1)]); (8, [(6, 2)]); (9, [(8, 2)])].
Definition S_assert2 : list fact :=
  [Mark 1 2 1; Mark 1 2 2; Mark 2 2 1; Mark 2 2 2; Mark 2 3 1; Mark 3 2 1; Mark 3 2 2; Mark 3 3 1; Mark 3 4 2; Mark 4 2 1; Mark 4 2 2; Mark 4 3 1; Mark 4 4 2; Mark 4 5 2; Mark 5 2 1; Mark 5 2 2; Mark 5 3 1; Mark 5 4 2; Mark 5 5 2; Mark 6 2 1; Mark 6 2 2; Mark 6 3 1; Mark 6 4 2; Mark 6 5 2; Mark 6 7 2; Mark 7 2 1; Mark 7 2 2; Mark 7 3 1; Mark 7 4 2; Mark 7 5 2; Mark 7 7 2; Mark 8 2 1; Mark 8 2 2; Mark 8 3 1; Mark 8 4 2; Mark 8 5 2; Mark 8 7 2; Mark 9 2 1; Mark 9 2 2; Mark 9 3 1; Mark 9 4 2; Mark 9 5 2; Mark 9 7 2; Edge 2 1].

Example assert2_violations : violations F_assert2 S_assert2 = [VTransfer 5 5 6 2]. Proof. vm_compute. reflexivity. Qed.
