(** * C04 - every code location matching a specification is identified, and only those

    Statements about the model [Model/CodeId.v] (tied to /repo by tools/props/c04.py).  [rmatch] is an arbitrary
    regex engine; [lit_match] (witnesses of the [_refuted] statements) is RE2 restricted to literal patterns. *)
From Coq Require Import String List Bool.
From Argot Require Import Model.CodeId Proofs.CodeId.
Import ListNotations.
Open Scope string_scope.

(** ** 1. The matcher ([equalOnNonEmptyFields]) *)

(** exactly what the code does for identifiers compiled by the config loader: a conjunction over the eight regex
    fields and kind equality.  Deviation from the property: [spec_regex s FInterface = c_package s] (the Interface
    field is matched with the PACKAGE pattern); for every other field [spec_regex s f = get s f]. *)
Theorem match_spec : forall rmatch sp c, sp_compiled sp = true ->
  (match1 rmatch sp c = true <->
   (forall f, get (sp_cid sp) f = "" \/ rmatch (spec_regex (sp_cid sp) f) (get c f) = true)
   /\ c_kind (sp_cid sp) = c_kind c).
Proof. exact match_spec. Qed.

Theorem match_spec_uncompiled : forall rmatch sp c, sp_compiled sp = false ->
  (match1 rmatch sp c = true <->
   (forall f, get (sp_cid sp) f = "" \/ uncompiled_cand c f = get (sp_cid sp) f)
   /\ c_kind (sp_cid sp) = c_kind c).
Proof. exact match_spec_uncompiled. Qed.

(** what the property demands of one specification *)
Theorem match_ideal_spec : forall rmatch sp c,
  match_ideal rmatch sp c = true <->
  (forall f, get sp f = "" \/ rmatch (get sp f) (get c f) = true) /\ c_kind sp = c_kind c.
Proof. exact match_ideal_spec. Qed.

(** the two coincide for identifiers without an [interface] field ... *)
Theorem match_agrees_without_interface : forall rmatch sp c,
  sp_compiled sp = true -> c_interface (sp_cid sp) = "" ->
  match1 rmatch sp c = match_ideal rmatch (sp_cid sp) c.
Proof. exact match1_ideal_no_iface. Qed.

(** ... and differ otherwise: `interface: "Logger"` without package accepts any candidate *)
Theorem iface_field_refuted :
  let sp := mkSpec (mkCid "" "" "Logger" "" "" "" "" "" "") true in
  let c := mkCid "q3.main" "q3" "" "anything" "" "" "" "" "" in
  match1 lit_match sp c = true /\ match_ideal lit_match (sp_cid sp) c = false.
Proof. exact iface_field_refuted. Qed.

(** ** 2. Classification *)

(** full statement w.r.t. the candidates the tool builds: a node is classified iff some specification of the list
    accepts one of its candidates ([ExistsCid], [IsSource] ... [IsBacktracePoint]) *)
Theorem classify_exact : forall rmatch specs cands,
  classify rmatch specs cands = true <->
  exists c sp, In c cands /\ In sp specs /\ match1 rmatch sp c = true.
Proof. exact classify_spec. Qed.

Theorem classify_ideal_exact : forall rmatch specs ids,
  classify_ideal rmatch specs ids = true <->
  exists c sp, In c ids /\ In sp specs /\ match_ideal rmatch sp c = true.
Proof. exact classify_ideal_spec. Qed.

(** the config-wide oracles [Config.IsSomeSource / IsSomeSink / IsSomeSanitizer / IsSomeValidator /
    IsSomeBacktracePoint] ([sel] = the role's identifier list): true iff SOME problem accepts, wherever it stands *)
Theorem is_some_spec : forall rmatch sel cfg c,
  is_some rmatch sel cfg c = true <-> exists p, In p cfg /\ exists_cid rmatch (sel p) c = true.
Proof. exact is_some_spec. Qed.

Theorem is_some_position : forall rmatch sel pre p post c,
  exists_cid rmatch (sel p) c = true -> is_some rmatch sel (pre ++ p :: post) c = true.
Proof. exact is_some_position. Qed.

(** [taint.IsNodeOfInterest]: an instruction becomes a node of the dataflow graph iff some problem's sources or
    sinks accept one of its candidates - the per-problem entry-point / sink tests can only find what this admits *)
Theorem node_of_interest_spec : forall rmatch cfg cands,
  node_of_interest rmatch cfg cands = true <->
  exists p, In p cfg /\ (classify rmatch (p_sources p) cands = true \/ classify rmatch (p_sinks p) cands = true).
Proof. exact node_of_interest_spec. Qed.

(** full statement of the property w.r.t. the callee's identity: [form_independent] - every form classifies as
    [classify_ideal] on [identity callee site].  It does NOT hold for the faithful model, whichever string
    [FindValuePackage] returns: *)
Theorem form_independent_refuted : forall fvpkg, ~ form_independent fvpkg.
Proof. exact form_independent_refuted. Qed.

(** what does hold. Sinks / sanitizers: direct, method, deferred, go and in-closure calls *)
Theorem form_indep_partial_sink : forall rmatch specs f k e,
  Forall plain specs -> wf_callee k -> direct_form f ->
  sink_of rmatch specs f k e = ideal_of rmatch specs k e.
Proof. exact form_indep_sink_direct. Qed.

(** sources / backtrace points: direct and in-closure CALLS of functions that are not address-taken, identifiers
    without value-match *)
Theorem form_indep_partial_entry : forall rmatch fvpkg specs f k e,
  Forall (entry_plain) specs -> k_recv k = "" -> e_addr_taken e = false ->
  (f = Static \/ f = Method \/ f = InClosure) ->
  entry_of rmatch fvpkg specs f k e = ideal_of rmatch specs k e.
Proof. exact form_indep_entry_direct. Qed.

(** ... and of methods when no identifier constrains the receiver *)
Theorem form_indep_partial_entry_method : forall rmatch fvpkg specs f k e,
  Forall (entry_plain) specs -> Forall (fun sp => c_receiver (sp_cid sp) = "") specs -> e_addr_taken e = false ->
  (f = Static \/ f = Method \/ f = InClosure) ->
  entry_of rmatch fvpkg specs f k e = ideal_of rmatch specs k e.
Proof. exact form_indep_entry_method. Qed.

(** with proposed_fixes/C04-funcvalue-pkgpath.diff: function-value sources, identifiers without context *)
Theorem funcvalue_entry_pkgpath_partial : forall rmatch specs k e,
  Forall (entry_plain) specs -> Forall (fun sp => c_context (sp_cid sp) = "") specs ->
  k_recv k = "" -> e_other_aliases e = [] ->
  entry_of rmatch pkg_path specs FuncValue k e = ideal_of rmatch specs k e.
Proof. exact funcvalue_entry_pkgpath. Qed.

(** ** 3. Forms that deviate (each conjunct is a verdict of the faithful model; confirmed on the real code by the tie) *)

Theorem funcvalue_package_string_refuted :
  entry_of lit_match pkg_string [sp_pm "^q3$" "source"] FuncValue k_source e_apply = false /\
  ideal_of lit_match [sp_pm "^q3$" "source"] k_source e_apply = true /\
  entry_of lit_match pkg_string [sp_pm "q3" "source"] FuncValue k_source e_apply = true /\
  entry_of lit_match pkg_string [sp_pm "^q3$" "source"] Static k_source e_main = true.
Proof. exact funcvalue_package_string_refuted. Qed.

Theorem funcvalue_package_string_fixed :
  entry_of lit_match pkg_path [sp_pm "^q3$" "source"] FuncValue k_source e_apply = true.
Proof. exact funcvalue_package_string_fixed. Qed.

Theorem static_alias_refuted :
  entry_of lit_match pkg_string [sp_pm "age q3" "source"] Static k_source e_main_taken = true /\
  ideal_of lit_match [sp_pm "age q3" "source"] k_source e_main_taken = false.
Proof. exact static_alias_refuted. Qed.

Theorem receiver_entry_refuted_invoke :
  entry_of lit_match pkg_string [sp_pmr "io" "Read" "Reader"] IfaceInvoke k_method e_main = false /\
  entry_of lit_match pkg_string [sp_pmr "io" "Read" "^t1$"] IfaceInvoke k_method e_main = true /\
  entry_of lit_match pkg_string [sp_pmr "" "Read" "^T$"] IfaceInvoke k_method e_main = false /\
  ideal_of lit_match [sp_pmr "" "Read" "^T$"] k_method e_main = true.
Proof. exact receiver_entry_refuted_invoke. Qed.

Theorem invoke_interface_package_refuted :
  entry_of lit_match pkg_string [sp_pm "^q3/impl$" "Read"] IfaceInvoke k_method e_main = false /\
  sink_of lit_match [sp_pm "^q3/impl$" "Read"] IfaceInvoke k_method e_main = false /\
  ideal_of lit_match [sp_pm "^q3/impl$" "Read"] k_method e_main = true.
Proof. exact invoke_interface_package_refuted. Qed.

Theorem entry_receiver_empty_refuted :
  entry_of lit_match pkg_string [sp_pmr "q3/impl" "Read" "T"] Method k_method e_main = false /\
  ideal_of lit_match [sp_pmr "q3/impl" "Read" "T"] k_method e_main = true /\
  sink_of lit_match [sp_pmr "q3/impl" "Read" "T"] Method k_method e_main = true.
Proof. exact entry_receiver_empty_refuted. Qed.

Theorem entry_defer_go_never : forall rmatch fvpkg specs k e,
  entry_of rmatch fvpkg specs Deferred k e = false /\ entry_of rmatch fvpkg specs GoCall k e = false.
Proof. exact entry_defer_go_never. Qed.

Theorem entry_defer_refuted :
  entry_of lit_match pkg_string [sp_pm "q3" "source"] Deferred k_source e_main = false /\
  ideal_of lit_match [sp_pm "q3" "source"] k_source e_main = true.
Proof. exact entry_defer_refuted. Qed.

Theorem entry_method_wrapper_never : forall rmatch fvpkg specs k e,
  entry_of rmatch fvpkg specs MethodValue k e = false /\ entry_of rmatch fvpkg specs MethodExpr k e = false.
Proof. exact entry_method_wrapper_never. Qed.

Theorem method_wrapper_refuted :
  sink_of lit_match [sp_pm "q3/impl" "^Read$"] MethodValue k_method e_main = false /\
  sink_of lit_match [sp_pm "q3/impl" "^Read$"] MethodExpr k_method e_main = false /\
  arg_sink_of [sp_pm "q3/impl" "^Read$"] MethodValue k_method e_main = false /\
  arg_sink_of [sp_pm "q3/impl" "^Read$"] MethodExpr k_method e_main = false /\
  arg_sink_of [sp_pm "q3/impl" "Read"] MethodValue k_method e_main = true /\
  sink_of lit_match [sp_pm "q3/impl" "Read"] MethodExpr k_method e_main = true /\
  ideal_of lit_match [sp_pm "q3/impl" "^Read$"] k_method e_main = true /\
  entry_of lit_match pkg_string [sp_pm "q3/impl" "Read"] MethodValue k_method e_main = false.
Proof. exact method_wrapper_refuted. Qed.

Theorem funcvalue_sink_variable_name_refuted :
  sink_of lit_match [sp_pm "q3" "^f$"] FuncValue k_source e_apply = true /\
  ideal_of lit_match [sp_pm "q3" "^f$"] k_source e_apply = false /\
  sink_of lit_match [sp_pm "q3" "^source$"] FuncValue k_source e_apply = false /\
  classify lit_match [sp_pm "q3" "^source$"]
    (arg_cands (site_of FuncValue k_source e_apply) (Some (node_callee FuncValue k_source))
               (Some (node_callee FuncValue k_source))) = true.
Proof. exact funcvalue_sink_variable_name_refuted. Qed.

(** ** 4. Type kinds *)

Theorem type_kinds_exact : forall rmatch specs o,
  op_entry rmatch specs o = true <->
  exists pt sp, elt (o_ty o) "" = Some pt /\ In sp specs /\ match1 rmatch sp (op_cid o pt) = true.
Proof. exact type_kinds_exact. Qed.

Theorem type_kind_selects : forall rmatch sp o pt, match1 rmatch sp (op_cid o pt) = true ->
  c_kind (sp_cid sp) = op_kind_str (o_kind o).
Proof. exact type_kind_selects. Qed.

Theorem op_sink_only_stores : forall rmatch specs o, op_sink rmatch specs o = true -> o_kind o = OStore.
Proof. exact op_sink_only_stores. Qed.

Theorem type_kinds_path_partial : forall rmatch specs o, Forall plain specs -> name_is_path (o_ty o) ->
  op_entry rmatch specs o = op_ideal rmatch specs o.
Proof. exact type_kinds_path_partial. Qed.

Theorem type_pkg_name_refuted :
  (forall rmatch specs, op_entry rmatch specs op_a = op_entry rmatch specs op_b) /\
  (let specs := [mkSpec (mkCid "" "^a/util$" "" "" "" "" "Secret" "" "") true] in
   op_ideal lit_match specs op_a = true /\ op_ideal lit_match specs op_b = false /\
   op_entry lit_match specs op_a = false).
Proof. exact type_pkg_name_refuted. Qed.

(** ** 5. Interface expansion of sinks *)
Theorem expand_sinks_spec : forall tbl sinks sp,
  In sp (expand_sinks tbl sinks) <-> In sp sinks \/ exists ci, In ci sinks /\ In sp (expand_one tbl ci).
Proof. exact expand_sinks_spec. Qed.

(** ** Non-vacuity *)
Example direct_forms_identified :
  sink_of lit_match [sp_pmr "^q3/impl$" "^Read$" "^T$"] Deferred k_method e_main = true /\
  sink_of lit_match [sp_pmr "^q3/impl$" "^Read$" "^T$"] GoCall k_method e_main = true /\
  entry_of lit_match pkg_string [sp_pm "^q3$" "^source$"] InClosure k_source e_main = true /\
  wf_callee k_method /\ wf_callee k_source.
Proof. exact direct_forms_identified. Qed.

Example type_kinds_examples :
  elt (TPtr (TNamed (Some "sub") (Some "q3/sub") "T")) "" = Some ("sub", "*T") /\
  elt (TChan (TPtr (TNamed (Some "sub") (Some "q3/sub") "T"))) "" = Some ("sub", "chan *T") /\
  elt (TPtr (TArray "3" (TNamed (Some "sub") (Some "q3/sub") "T"))) "" = Some ("sub", "*[3]T") /\
  elt (TPtr (TSlice (TNamed None None "error"))) "" = Some ("", "error") /\
  elt (TPtr TStruct) "" = None /\
  receiver_str "*q3/sub.T" = "T".
Proof. exact type_kinds_examples. Qed.
