(** C10 - user dataflow specifications (dataflow-specs) are applied exactly as written.

    Models: Model/Summ.v (the loader shared with C09) and Model/Resolve.v (callee resolution, contract precedence, the
    linking steps of BuildGraph and the one step the taint visitor takes through a callee summary).  The tie is
    tools/props/c10.py: all 0/1 matrices of small arity, both contract forms, all call forms, adversarial bodies, run
    through the real taint analysis and compared for EQUALITY with the extracted model (build/bin/c10model). *)
From Coq Require Import List ZArith Bool Arith.
Import ListNotations.
From Argot Require Import Model.Summ Model.Resolve Proofs.Summ Proofs.Resolve.

(** What "the specification lists j for i" means, for all summaries, signatures and positions. *)
Theorem spec_ret_iff : forall s sg i j, spec_ret s sg i j = true <->
  (In (Z.of_nat j) (nth i (s_rets s) []) /\ i < nparams sg /\ exists len, In len (ret_lens sg) /\ j < len).
Proof. exact Proofs.Resolve.spec_ret_iff. Qed.

Theorem spec_arg_iff : forall s sg i k, spec_arg s sg i k = true <->
  (In (Z.of_nat k) (nth i (s_args s) []) /\ i < nparams sg /\ k < nparams sg).
Proof. exact Proofs.Resolve.spec_arg_iff. Qed.

(** contract_exact: a call resolved to a contracted function propagates argument i to result x / argument x exactly
    when the specification lists it (the code requires nothing of the target parameter's type). *)
Theorem contract_exact : forall w prog f s i x,
  w_fun_contract w (f_id f) = Some s ->
  flow_ret w prog (static_call f) i x = spec_ret s (f_sig f) i x /\
  flow_arg w prog (static_call f) i x = spec_arg s (f_sig f) i x.
Proof. exact Proofs.Resolve.contract_exact_static. Qed.

(** the same for calls whose callees come from the call graph (function values, bound methods, invokes of an
    interface method without interface contract): the union of what the callees' contracts list. *)
Theorem contract_exact_callgraph : forall w prog mk cg impls (c : fn -> summary) i x,
  cg <> [] ->
  (match mk with Some k => w_iface_contract w k = None | None => True end) ->
  (forall f, In f cg -> w_fun_contract w (f_id f) = Some (c f)) ->
  flow_ret w prog (mk_callsite None mk cg impls) i x = existsb (fun f => spec_ret (c f) (f_sig f) i x) cg /\
  flow_arg w prog (mk_callsite None mk cg impls) i x = existsb (fun f => spec_arg (c f) (f_sig f) i x) cg.
Proof. exact Proofs.Resolve.contract_exact_callgraph. Qed.

(** iface_precedence: an interface-method contract decides an invoke alone (on the representative's signature) ... *)
Theorem iface_precedence : forall w prog k s rep cg impls i x,
  w_iface_contract w k = Some (s, rep) ->
  flow_ret w prog (invoke_call k cg impls) i x = spec_ret s (f_sig rep) i x /\
  flow_arg w prog (invoke_call k cg impls) i x = spec_arg s (f_sig rep) i x.
Proof. exact Proofs.Resolve.iface_precedence. Qed.

(** ... whatever the function contracts, call-graph callees, implementations and bodies are. *)
Theorem iface_shadows : forall fc fc' ic body body' pd prog prog' k s rep cg cg' impls impls' i x,
  ic k = Some (s, rep) ->
  flow_ret (mk_world fc ic body pd) prog (invoke_call k cg impls) i x =
  flow_ret (mk_world fc' ic body' pd) prog' (invoke_call k cg' impls') i x /\
  flow_arg (mk_world fc ic body pd) prog (invoke_call k cg impls) i x =
  flow_arg (mk_world fc' ic body' pd) prog' (invoke_call k cg' impls') i x.
Proof. exact Proofs.Resolve.iface_shadows. Qed.

(** body_ignored: replacing every body by anything leaves the flows of a contracted call unchanged. *)
Theorem body_ignored : forall w prog cs body' i x,
  contracted w cs = true ->
  flow_ret w prog cs i x = flow_ret (with_body w body') prog cs i x /\
  flow_arg w prog cs i x = flow_arg (with_body w body') prog cs i x.
Proof. exact Proofs.Resolve.body_ignored. Qed.

Theorem contracted_static : forall w f s, w_fun_contract w (f_id f) = Some s -> contracted w (static_call f) = true.
Proof. exact Proofs.Resolve.contracted_static. Qed.

Theorem contracted_invoke : forall w k s rep cg impls,
  w_iface_contract w k = Some (s, rep) -> contracted w (invoke_call k cg impls) = true.
Proof. exact Proofs.Resolve.contracted_invoke. Qed.

(** Finding (known_findings.txt C10 key=iface-impl-static-call): a STATIC call to a method implementing a contracted
    interface method gets the contract iff the method happens to be the representative implementation (picked by map
    iteration order), and its body otherwise. *)
Theorem static_impl_call_depends_on_representative :
  flow_ret (world_rep fA) prog_ab (static_call fA) 1 0 = false /\
  flow_ret (world_rep fB) prog_ab (static_call fA) 1 0 = true.
Proof. exact Proofs.Resolve.static_impl_call_depends_on_representative. Qed.

(** Finding (known_findings.txt C10 key=iface-contract-noreturn-representative): when the representative is an
    implementation without Return instruction (a panicking stub), the result positions of the interface contract are
    dropped for every invoke. *)
Theorem iface_contract_noreturn_representative :
  flow_ret (world_stub fImpl) [] (invoke_call 0 [fImpl; fStub] [fImpl; fStub]) 1 0 = true /\
  flow_ret (world_stub fStub) [] (invoke_call 0 [fImpl; fStub] [fImpl; fStub]) 1 0 = false.
Proof. exact Proofs.Resolve.iface_contract_noreturn_representative. Qed.

(** Non-vacuity: a 3-parameter, 2-result function whose contract lists a0->a1, a0->r0, a2->r1 and whose body does
    the opposite; called statically. *)
Definition ex_f := mk_fn 7 (mk_sig 3 [2]) None.
Definition ex_spec := mk_summary [[1%Z]; []; []] [[0%Z]; []; [1%Z]].
Definition ex_world := mk_world (fun id => if Nat.eqb id 7 then Some ex_spec else None) (fun _ => None)
                                (fun _ => [EP 1 0%Z; EP 2 0%Z; ER 0 1%Z; ER 1 0%Z; ER 1 1%Z; ER 2 0%Z]) (fun _ => None).
Example ex_flows :
  map (fun i => (map (flow_ret ex_world [] (static_call ex_f) i) [0; 1], map (flow_arg ex_world [] (static_call ex_f) i) [0; 1; 2])) [0; 1; 2]
  = [([true; false], [false; true; false]); ([false; false], [false; false; false]); ([false; true], [false; false; false])].
Proof. reflexivity. Qed.

Example ex_contracted : contracted ex_world (static_call ex_f) = true.
Proof. reflexivity. Qed.
