(** * C16 — the defer analysis computes exactly the possible defer stacks

    Statements only.  Model of [analysis/defers/defer.go]: [Model/Defers.v]; independent specification (CFG
    paths, concrete defer-stack semantics [step_real]: a defer pushes, RunDefers pops everything, order [slt],
    sorted sets): [Model/DefersSpec.v]; proofs: [Proofs/Defers*.v].
    All theorems quantify over every CFG [c], every block order [order] and every [fuel]. *)
From Coq Require Import List Arith Bool.
From Argot Require Import Model.Defers Model.DefersSpec Model.DefersExamples Proofs.Defers.
Import ListNotations.

(** ** 1. [stackCompare] decides a strict total order whose [Eq] is list equality *)
Theorem stack_compare_strict_total_order :
  (forall a b, stack_compare a b = Eq <-> a = b) /\
  (forall a b, stack_compare b a = CompOpp (stack_compare a b)) /\
  (forall a, ~ slt a a) /\
  (forall a b c, slt a b -> slt b c -> slt a c) /\
  (forall a b, slt a b \/ a = b \/ slt b a).
Proof. exact stack_compare_order. Qed.

Theorem stack_compare_decidable : forall a b, {slt a b} + {a = b} + {slt b a}.
Proof. exact sc_dec. Qed.

(** [sorted] (= [StronglySorted slt]) is the usual "adjacent elements strictly increasing", hence duplicate-free *)
Theorem sorted_is_Sorted_NoDup : forall l, (sorted l <-> Sorted.Sorted slt l) /\ (sorted l -> NoDup l).
Proof. exact (fun l => conj (sorted_iff_Sorted l) (sorted_NoDup l)). Qed.

(** ** 2. [stackSetUnion] on sorted duplicate-free sets *)
Theorem union_spec : forall a b r same,
  sorted a -> sorted b -> stack_set_union a b = (r, same) ->
  sorted r /\ (forall s, In s r <-> In s a \/ In s b) /\ (same = true <-> incl b a) /\ (same = true -> r = a).
Proof. exact union_spec_full. Qed.

(** ** 3. [dataflowTransfer] *)
Theorem transfer_spec : forall d k v r rp,
  sorted v -> transfer d k v = (r, rp) ->
  match k with
  | KDefer => sorted r /\ (forall s', In s' r <-> exists s, In s v /\ s' = push_defer d s)
              /\ (rp = true <-> exists s, In s v /\ In d s)
  | KRunDefers => r = [[]] /\ rp = false
  | KOther => r = v /\ rp = false
  end.
Proof. exact Proofs.Defers.transfer_spec. Qed.

(** ** 5. exactness: bounded => the set reported at a RunDefers = the defer stacks of the entry paths to it *)
Theorem defers_exact : forall fuel c order st,
  wf_cfg c = true -> fair c order -> analyze fuel c order = Done st -> bounded st = true ->
  forall r s, (exists set, run_sets st r = Some set /\ In s set) <-> path_stacks c r s.
Proof. exact Proofs.Defers.defers_exact. Qed.

(** in general (bounded or not) the reported sets are exactly the abstract stacks (first occurrences only) *)
Theorem defers_abs_exact : forall fuel c order st,
  wf_cfg c = true -> fair c order -> analyze fuel c order = Done st ->
  forall r s, (exists set, run_sets st r = Some set /\ In s set) <-> abs_stacks c r s.
Proof. exact Proofs.Defers.defers_abs_exact. Qed.

(** every reported set is a sorted duplicate-free non-empty set at a reachable RunDefers *)
Theorem run_sets_wf : forall fuel c order st r set,
  analyze fuel c order = Done st -> run_sets st r = Some set ->
  sorted set /\ set <> [] /\ is_rundefers c r /\ reachable c (fst r).
Proof. exact Proofs.Defers.run_sets_wf. Qed.

(** under [wf_cfg] the reset of the concrete semantics never discards anything before the first RunDefers
    of a block: the stack there is the plain sequence of all defers executed along the path *)
Theorem real_no_reset : forall c p b j,
  wf_cfg c = true -> epath c p b -> is_rundefers c (b, j) ->
  (forall j', j' < j -> ~ is_rundefers c (b, j')) ->
  at_exec step_real c (b, j) (path_exec step_real c p) = at_exec step_seq c (b, j) (path_exec step_seq c p).
Proof. exact Proofs.Defers.real_no_reset. Qed.

(** the dominator preorder lists every block, which is more than [fair] asks for *)
Theorem covers_all_fair : forall c order, covers_all c order -> fair c order.
Proof. exact Proofs.Defers.covers_all_fair. Qed.

(** ** 6. unbounded <=> a reachable defer lies on a CFG cycle *)
Theorem unbounded_iff : forall fuel c order st,
  wf_cfg c = true -> fair c order -> analyze fuel c order = Done st ->
  (bounded st = false <-> defer_on_cycle c).
Proof. exact Proofs.Defers.unbounded_iff. Qed.

(** ** 7. termination, bounded or not, for every CFG (well-formed or not) and every order *)
Theorem defers_terminates : forall c order,
  exists n, forall m, n <= m -> analyze m c order <> OutOfFuel /\ analyze m c order = analyze n c order.
Proof. exact Proofs.DefersTerm.defers_terminates. Qed.

(** ** 8. the result does not depend on the (fair) block order *)
Corollary order_free : forall fuel1 fuel2 c order1 order2 st1 st2,
  wf_cfg c = true -> fair c order1 -> fair c order2 ->
  analyze fuel1 c order1 = Done st1 -> analyze fuel2 c order2 = Done st2 ->
  bounded st1 = bounded st2 /\ forall r, run_sets st1 r = run_sets st2 r.
Proof. exact Proofs.Defers.order_free. Qed.

(** ** non-vacuity: the hypotheses are satisfiable by non-trivial inputs *)
Example ex_diamond_hyps :
  wf_cfg ex_diamond = true /\ covers_all ex_diamond ex_diamond_order /\ covers_all ex_diamond ex_diamond_order'.
Proof.
  split; [vm_compute; reflexivity|].
  split; intros b Hb; do 4 (destruct b as [|b]; [vm_compute; tauto|]); vm_compute in Hb;
    exfalso; repeat apply le_S_n in Hb; inversion Hb.
Qed.

(** bounded, two stacks at the exit; the second order needs more sweeps but gives the same answer *)
Example ex_diamond_result :
  let st := final (analyze 20 ex_diamond ex_diamond_order) in
  let st' := final (analyze 20 ex_diamond ex_diamond_order') in
  analyze 20 ex_diamond ex_diamond_order = Done st /\ analyze 20 ex_diamond ex_diamond_order' = Done st' /\
  bounded st = true /\ bounded st' = true /\
  run_sets st (3, 0) = Some [[(1, 0)]; [(2, 1)]] /\ run_sets st' (3, 0) = Some [[(1, 0)]; [(2, 1)]].
Proof. vm_compute. repeat split; reflexivity. Qed.

(** hence (by [defers_exact]) both one-element stacks are stacks of real entry paths, and nothing else is *)
Example ex_diamond_paths :
  forall s, path_stacks ex_diamond (3, 0) s <-> s = [(1, 0)] \/ s = [(2, 1)].
Proof.
  intros s.
  rewrite <- (Proofs.Defers.defers_exact 20 ex_diamond ex_diamond_order
                (final (analyze 20 ex_diamond ex_diamond_order))
                (proj1 ex_diamond_hyps) (Proofs.Defers.covers_all_fair _ _ (proj1 (proj2 ex_diamond_hyps)))
                eq_refl eq_refl (3, 0) s).
  vm_compute. split.
  - intros (set & E & H). inversion E; subst set. destruct H as [H|[H|[]]]; auto.
  - intros [->| ->]; eexists; split; try reflexivity; simpl; auto.
Qed.

Example ex_loop_hyps : wf_cfg ex_loop = true /\ covers_all ex_loop ex_loop_order.
Proof.
  split; [vm_compute; reflexivity|].
  intros b Hb; do 4 (destruct b as [|b]; [vm_compute; tauto|]); vm_compute in Hb;
    exfalso; repeat apply le_S_n in Hb; inversion Hb.
Qed.

(** unbounded; two sweeps are not enough, twenty are *)
Example ex_loop_result :
  let st := final (analyze 20 ex_loop ex_loop_order) in
  analyze 20 ex_loop ex_loop_order = Done st /\ bounded st = false /\
  run_sets st (3, 0) = Some [[]; [(2, 0)]] /\ analyze 2 ex_loop ex_loop_order = OutOfFuel.
Proof. vm_compute. repeat split; reflexivity. Qed.

(** hence (by [unbounded_iff]) a reachable defer of [ex_loop] lies on a cycle *)
Example ex_loop_cycle : defer_on_cycle ex_loop.
Proof.
  exact (proj1 (Proofs.Defers.unbounded_iff 20 ex_loop ex_loop_order (final (analyze 20 ex_loop ex_loop_order))
                  (proj1 ex_loop_hyps) (Proofs.Defers.covers_all_fair _ _ (proj2 ex_loop_hyps)) eq_refl) eq_refl).
Qed.

(** ... and the diamond has none *)
Example ex_diamond_no_cycle : ~ defer_on_cycle ex_diamond.
Proof.
  intros H.
  apply (proj2 (Proofs.Defers.unbounded_iff 20 ex_diamond ex_diamond_order
                  (final (analyze 20 ex_diamond ex_diamond_order))
                  (proj1 ex_diamond_hyps) (Proofs.Defers.covers_all_fair _ _ (proj1 (proj2 ex_diamond_hyps)))
                  eq_refl)) in H.
  vm_compute in H. discriminate.
Qed.

(** sorted sets for [union_spec] / [transfer_spec], and a union that adds something *)
Example ex_union :
  sorted [[(1, 0)]; [(2, 1)]] /\ sorted [[]; [(2, 1)]] /\
  stack_set_union [[(1, 0)]; [(2, 1)]] [[]; [(2, 1)]] = ([[]; [(1, 0)]; [(2, 1)]], false) /\
  transfer (2, 1) KDefer [[(1, 0)]; [(2, 1)]] = ([[(1, 0); (2, 1)]; [(2, 1)]], true).
Proof.
  split; [|split; [|split; reflexivity]].
  - repeat constructor.
  - repeat constructor.
Qed.
