From Argot Require Import Model.Defers.
From Coq Require Import List. Import ListNotations.
Example ex1 : stack_compare [] [] = Eq. Proof. reflexivity. Qed.
