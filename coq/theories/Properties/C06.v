(** * C06 — analysis results are deterministic

    Statements only (proofs: Base/Closure.v).

    WHAT THESE THEOREMS ARE ABOUT.  [order_indep] is a generic theorem about the ABSTRACT worklist of Base/Closure.v: a
    traversal with a seen-set computes the reachability closure of its roots, so the visited SET does not depend on the
    order in which successors are produced (Go map iteration) nor on the queue discipline - PROVIDED the successors of a
    key are a function of the key ([oracle_ok]: every oracle returns the same SET of successors for a key, in any
    state).  That hypothesis is not a theorem about the Go code: [Visitor.Visit] also reads [cur.Prev], [cur.Depth] and
    the closure-tracing index, which are not part of [VisitorNode.Key()].  It is what the tie validates: tools/props/c06.py
    runs the real taint and backtrace analyses K times in-process and cross-process (Go re-randomises map order and
    goroutine scheduling every time), with 1, 2 and NumCPU-1 worker routines, and compares the sets of flows, escapes
    and trace end points.  Schedule-independence of the parallel summary pass ([funcutil.MapParallel]) is builder c20's
    [mappar_correct] (Proofs/MapPar.v) - NOTE FOR THE COORDINATOR: cite it here once that file compiles. *)
From Coq Require Import List Arith Bool.
From Argot Require Import Base.Closure.
Import ListNotations.

(** any two oracle packs (successor orders, queue disciplines, lazily built graphs, internal state) give the same set *)
Theorem order_indep : forall (K : Type) (K_eq_dec : forall x y : K, {x = y} + {x <> y}) (succ : K -> list K)
    (S1 S2 : Type)
    (nexts1 : S1 -> K -> list K * S1) (sched1 : S1 -> list K -> list K * S1) (Inv1 : S1 -> Prop)
    (nexts2 : S2 -> K -> list K * S2) (sched2 : S2 -> list K -> list K * S2) (Inv2 : S2 -> Prop)
    (roots : list K) (f1 f2 : nat) (s1 : S1) (s2 : S2) (seen1 seen2 : list K),
  oracle_ok K succ S1 nexts1 sched1 Inv1 roots -> oracle_ok K succ S2 nexts2 sched2 Inv2 roots ->
  Inv1 s1 -> Inv2 s2 ->
  run K K_eq_dec S1 nexts1 sched1 f1 s1 roots = Done seen1 ->
  run K K_eq_dec S2 nexts2 sched2 f2 s2 roots = Done seen2 ->
  set_eq seen1 seen2.
Proof. exact Closure.order_indep. Qed.

(** the visited set is duplicate-free and the result does not depend on how much fuel was given beyond what is needed *)
Theorem wl_nodup : forall (K : Type) (K_eq_dec : forall x y : K, {x = y} + {x <> y}) (succ : K -> list K)
    (St : Type) (nexts : St -> K -> list K * St) (sched : St -> list K -> list K * St) (Inv : St -> Prop) (roots : list K),
  oracle_ok K succ St nexts sched Inv roots ->
  forall (fuel : nat) (s0 : St) (seen : list K), Inv s0 ->
  run K K_eq_dec St nexts sched fuel s0 roots = Done seen -> NoDup seen.
Proof. exact Closure.wl_nodup. Qed.

Theorem wl_fuel_mono : forall (K : Type) (K_eq_dec : forall x y : K, {x = y} + {x <> y})
    (St : Type) (nexts : St -> K -> list K * St) (sched : St -> list K -> list K * St) (roots : list K)
    (f f' : nat) (s0 : St) (r : list K),
  run K K_eq_dec St nexts sched f s0 roots = Done r -> f <= f' -> run K K_eq_dec St nexts sched f' s0 roots = Done r.
Proof. exact Closure.wl_fuel_mono. Qed.

(** the exemption of the property: with max-alarms = k the recorded hits are some at-most-k subset of one and the same
    untruncated set, whatever the order (which k hits are kept may vary) *)
Theorem truncated_drawn_from_same_set : forall (K : Type) (K_eq_dec : forall x y : K, {x = y} + {x <> y}) (succ : K -> list K)
    (is_sink : K -> bool) (S1 S2 : Type)
    (nexts1 : S1 -> K -> list K * S1) (sched1 : S1 -> list K -> list K * S1) (Inv1 : S1 -> Prop)
    (nexts2 : S2 -> K -> list K * S2) (sched2 : S2 -> list K -> list K * S2) (Inv2 : S2 -> Prop)
    (roots : list K) (k fuel fuel' : nat) (s1 : S1) (s2 : S2) (r : kresult K) (seen_full : list K),
  0 < k ->
  oracle_ok K succ S1 nexts1 sched1 Inv1 roots -> oracle_ok K succ S2 nexts2 sched2 Inv2 roots ->
  Inv1 s1 -> Inv2 s2 ->
  runk K K_eq_dec is_sink S1 nexts1 sched1 fuel k s1 roots = r -> r <> KOutOfFuel ->
  run K K_eq_dec S2 nexts2 sched2 fuel' s2 roots = Done seen_full ->
  let full := filter is_sink seen_full in
  incl (hits_of r) full /\ length (hits_of r) <= k /\ (full <> [] -> hits_of r <> []).
Proof. exact Closure.alarm_limit_core. Qed.

(** ** non-vacuity: the hypotheses are satisfiable by genuinely different oracles, and the visit ORDER does differ *)
Example oracle_packs_exist : forall (K : Type) (succ : K -> list K) (roots : list K),
  oracle_ok K succ unit (nexts_id K succ unit) (sched_id K unit) (fun _ => True) roots /\
  oracle_ok K succ unit (nexts_rev K succ unit) (sched_rev K unit) (fun _ => True) roots /\
  oracle_ok K succ nat (nexts_rev K succ nat) (sched_alt K) (fun _ => True) roots.
Proof. intros; split; [apply oracle_ok_id | split; [apply oracle_ok_rev | apply oracle_ok_alt]]. Qed.

Example order_differs_set_equal :
  run nat Nat.eq_dec unit (nexts_id nat ClosureExamples.succ5 unit) (sched_id nat unit) 10 tt [0] = Done [4; 3; 2; 1; 0] /\
  run nat Nat.eq_dec unit (nexts_rev nat ClosureExamples.succ5 unit) (sched_rev nat unit) 10 tt [0] = Done [3; 4; 2; 1; 0] /\
  set_eq [4; 3; 2; 1; 0] [3; 4; 2; 1; 0].
Proof.
  split; [vm_compute; reflexivity|]. split; [vm_compute; reflexivity|].
  eapply (Closure.order_indep nat Nat.eq_dec ClosureExamples.succ5 unit unit
            (nexts_id nat ClosureExamples.succ5 unit) (sched_id nat unit) (fun _ => True)
            (nexts_rev nat ClosureExamples.succ5 unit) (sched_rev nat unit) (fun _ => True) [0] 10 10 tt tt);
    auto using oracle_ok_id, oracle_ok_rev; vm_compute; reflexivity.
Qed.

(** * Code-level theorems on the faithful model of [Visitor.Visit] (Model/Visit.v, tied by tools/props/travlib.py)
      and on the model of [funcutil.MapParallel] (Model/MapPar.v, tied by tools/props/c20.py) *)
From Argot Require Model.Visit Proofs.VisitBase Proofs.VisitInv Proofs.VisitClosure Proofs.VisitExamples Model.MapPar Proofs.MapParTop.
From Coq Require NArith.

(** order independence of the real traversal's visited-key set and reported sinks, UNDER the hypothesis that successors
    are determined by the key *)
Theorem visit_order_indep : forall (g : Visit.graph) (P : Visit.preds) (cfg : Visit.config) (src : Visit.id)
    (o1 o2 : VisitBase.oracle) (fuel1 fuel2 : nat) (t : list Visit.id) (al1 al2 : BinNums.N) (st1 st2 : Visit.state),
  VisitClosure.key_determines_succ g P cfg src o1 o2 -> VisitClosure.key_determines_succ g P cfg src o2 o1 ->
  Visit.visit g P cfg o1 src fuel1 t al1 = Visit.Done st1 ->
  Visit.visit g P cfg o2 src fuel2 t al2 = Visit.Done st2 ->
  (forall k : list BinNums.positive,
     List.In k (List.map Visit.vkey (Visit.st_visited st1)) <-> List.In k (List.map Visit.vkey (Visit.st_visited st2))) /\
  (forall (n : Visit.id) (tr : list Visit.id),
     List.In (n, tr) (List.map (fun v : Visit.vnode => (Visit.v_node v, Visit.v_trace v)) (Visit.st_hits st1)) <->
     List.In (n, tr) (List.map (fun v : Visit.vnode => (Visit.v_node v, Visit.v_trace v)) (Visit.st_hits st2))).
Proof. exact VisitClosure.order_indep_lemma. Qed.

(** ... and that hypothesis is NOT a property of the code: the expansion reads [Prev], the depth and the closure-tracing
    index, none of which is in [Key()].  Witness: a 9-node path-insensitive graph on which two map-iteration orders
    (both permutations) give different sink sets.  This is a statement about the traversal over ABSTRACT graphs; a Go
    program whose two arrivals race (a flaky report) was searched for and not found (status/trav.md); the deterministic
    consequence — a flow lost because a parameter node is first reached from inside its function — is real and is
    listed as C01 finding [param-reached-from-inside-first]. *)
Theorem visit_order_dep_refuted :
  exists (g : Visit.graph) (P : Visit.preds) (cfg : Visit.config) (src : Visit.id) (t : list Visit.id) (fuel : nat)
         (o1 o2 : VisitBase.oracle),
    VisitBase.ord_perm o1 /\ VisitBase.ord_perm o2 /\ VisitInv.path_insensitive g /\ VisitInv.wf_trace g t /\
    VisitExamples.is_done (Visit.visit g P cfg o1 src fuel t BinNums.N0) = true /\
    VisitExamples.is_done (Visit.visit g P cfg o2 src fuel t BinNums.N0) = true /\
    VisitExamples.hit_nodes (Visit.visit g P cfg o1 src fuel t BinNums.N0) = nil /\
    VisitExamples.hit_nodes (Visit.visit g P cfg o2 src fuel t BinNums.N0) <> nil.
Proof. exact VisitExamples.order_dep_refuted_lemma. Qed.

(** schedule independence of the parallel summary pass: under EVERY scheduler [MapParallel] returns the sequential
    map in input order (the summaries then depend only on the function and on read-only state) *)
Theorem mappar_schedule_independent : forall A B (f : A -> B) (zero : B) (xs : list A) (nr : BinNums.Z) (sched : nat -> nat),
  let n := MapPar.nworkers nr in
  let r := MapPar.run A B f zero (MapPar.bound (length xs) n) sched (MapPar.init A B xs nr) in
  snd r = MapPar.bound (length xs) n /\
  MapPar.st_result (fst r) = Some (Some (List.map f xs)) /\
  MapPar.all_terminated A B (fst r) = true /\
  MapPar.enabled A B f zero (fst r) = nil.
Proof. exact MapParTop.mappar_correct_sched. Qed.
