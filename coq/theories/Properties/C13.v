(* C13 - with escape analysis on, concurrency cannot hide a flow silently.
   Calculus Lang/Conc.v; an object o of thread `owner` stands for the data of a source. *)
From Coq Require Import List Arith Bool.
From Argot Require Import Lang.Conc Model.Esc Model.EscTable Proofs.EscGraph0 Proofs.Esc Proofs.EscStep Proofs.EscSound
  Proofs.EscShare Proofs.EscFinal.
Import ListNotations.

(* the step that makes o reachable from another thread or from a global is executed by the owner itself, and is
   (a) a store into a global, or a store into an object the analysis classifies NonLocal, of a value from which o is
       reachable -- an instruction touching the source's data that checkEscape reports, or
   (b) a go statement passing a value from which o is reachable -- a flow into the callee that the sequential taint
       traversal follows like a call *)
Theorem escape_or_flow_step : forall P A s, alpha P A s -> forall tid br owner o,
  o < nxt s -> ~ shared s owner o -> shared (step P s (tid, br)) owner o ->
  tid = owner /\ share_cause P A s owner o.
Proof. exact share_event. Qed.

(* hence, for every program, valid annotation and schedule: as long as no such instruction has been executed, o is
   unreachable from every other thread and from the globals, i.e. the other threads' behaviour cannot depend on it and
   every flow of o is a flow of the owner's own (sequential) execution *)
Theorem escape_or_flow_partial : forall P A, check_annot P A = true -> 0 < length P ->
  forall pre post owner o,
    o < nxt (run P pre) -> ~ shared (run P pre) owner o ->
    (forall post1 c post2, post = post1 ++ c :: post2 ->
        ~ share_cause P A (fold_left (step P) post1 (run P pre)) owner o) ->
    ~ shared (fold_left (step P) post (run P pre)) owner o.
Proof.
  intros P A CA HP pre post owner o Ho NS NC.
  eapply no_cause_no_sharing; eauto. apply alpha_run; auto.
Qed.

(* composition with the traversal: reported_escape over-approximates the NonLocal instructions touching o's data
   (locset_complete + checkEscape), taint_follows says the sequential analysis tracks o into go-callees (C01).  If neither
   ever happens on the schedule, o is never shared. *)
Section Composition.
  Variables (P : prog) (A : annot) (owner : nat) (o : loc).
  Variable reported_escape : state -> Prop.
  Variable taint_follows : state -> Prop.
  Hypothesis locset_complete : forall s t i succs q,
    nth_error (thr s) owner = Some t -> fetch P (t_fn t) (t_pc t) = Some (i, succs) ->
    touches s t q o -> instr_verdict (getA A (t_fn t) (t_pc t)) i = VNonLocal ->
    (exists r f, i = IStore r f q) \/ (exists gv, i = IGStore gv q) -> reported_escape s.
  Hypothesis seq_taint_sound_C01 : forall s t fn args succs a,
    nth_error (thr s) owner = Some t -> fetch P (t_fn t) (t_pc t) = Some (IGo fn args, succs) -> In a args ->
    touches s t a o -> taint_follows s.

  Theorem escape_or_flow_composed : check_annot P A = true -> 0 < length P ->
    forall pre post, o < nxt (run P pre) -> ~ shared (run P pre) owner o ->
      (forall post1 c post2, post = post1 ++ c :: post2 ->
         ~ reported_escape (fold_left (step P) post1 (run P pre)) /\ ~ taint_follows (fold_left (step P) post1 (run P pre))) ->
      ~ shared (fold_left (step P) post (run P pre)) owner o.
  Proof.
    intros CA HP pre post Ho NS NR. eapply escape_or_flow_partial; eauto.
    intros post1 c post2 E SC. destruct (NR post1 c post2 E) as [NE NT].
    destruct SC as [t gv q succs Ht F T V | t r f q succs Ht F T V | t fn args succs a Ht F Hin T].
    - apply NE. eapply locset_complete; eauto.
    - apply NE. eapply locset_complete; eauto.
    - apply NT. eapply seq_taint_sound_C01; eauto.
  Qed.
End Composition.

(* non-vacuity: in ex_prog the object allocated by main becomes shared exactly at the go statement *)
Definition ex_prog13 : prog :=
  [ {| f_arity := 0; f_code := [ (IAlloc 0, [1]); (IGo 1 [0], [2]); (IStore 0 0 0, []) ] |};
    {| f_arity := 1; f_code := [ (ILoad 1 0 0, []) ] |} ].

Example ex13_unshared_before : ~ shared (run ex_prog13 [(0, 0)]) 0 0.
Proof.
  intros [ (g & l0 & Hg & _) | (k & t & r & l0 & Hk & Ht & _) ].
  - simpl in Hg. discriminate.
  - destruct k as [|k]; [contradiction|]. simpl in Ht. destruct k; discriminate.
Qed.

Example ex13_shared_after : shared (run ex_prog13 [(0, 0); (0, 0)]) 0 0.
Proof.
  right. exists 1, {| t_fn := 1; t_pc := 0; t_regs := spawn_regs (upd (fun _ => None) 0 (Some 0)) [0]; t_live := true |}, 0, 0.
  repeat split; auto. constructor.
Qed.

Example ex13_valid : exists A, analyze 10 ex_prog13 = Annot A /\ check_annot ex_prog13 A = true.
Proof. eexists; split; vm_compute; reflexivity. Qed.
