(* C11 - pointer analysis never misses a run-time alias.

   Statements are about muSSA (Lang/MuSSA.v): ALL programs, ALL oracle sequences (branch outcomes, indices, map slots),
   ALL execution lengths, ALL post-fixpoints S of the constraint system of Model/Andersen.v (in particular the least one
   computed by the extracted saturating solver, [analyze_sound]).  Fragments covered by the one invariant (Proofs/Andersen.v):
   alloc/copy/phi/convert/load/store/field/index (core), static calls and returns, closures and dynamic calls,
   interfaces (tagged boxes, invoke by dynamic type, type assertion).
   Gap to the property as stated for Go: muSSA has no tuples / multiple results, no struct values in registers, no
   append/copy, no go/defer/panic/select/range, no interface-to-interface assertions, no reflection/unsafe; maps and
   channels are array-like objects with oracle-chosen slots; the correspondence muSSA <-> Go is validated (native runs),
   not proved.  The vendored solver (HVN, online solving, intrinsics) is NOT modelled: the tie checks that the model's
   least solution is included in the implementation's.  "No-effect functions" are not covered by a theorem
   (noeffect_sound is not proved; the option is exercised natively by tools/props/c11.py). *)
From Coq Require Import List NArith PArith.
From Argot Require Import Lang.MuSSA Model.Andersen.
From Argot Require Proofs.Andersen Proofs.AndersenSolver Proofs.AndersenThm.
Import ListNotations.

Theorem pts_sound : forall P S, closed P S -> forall os st evs, run P os (init_state P) = (st, evs) ->
  (forall fr r l off, In fr (sstack st) -> fenv fr r = VPtr l off ->
     exists ob, nth_error (sheap st) l = Some ob /\ pts S (NReg (ffn fr) r) (lab_of ob off) /\
                AndersenThm.lab_site (lab_of ob off) = Some (osite ob)) /\
  (forall l0 ob0 i l off, nth_error (sheap st) l0 = Some ob0 -> nth_error (ocells ob0) i = Some (VPtr l off) ->
     exists ob, nth_error (sheap st) l = Some ob /\ pts S (cell_node ob0 i) (lab_of ob off) /\
                AndersenThm.lab_site (lab_of ob off) = Some (osite ob)) /\
  (forall fr r g cenv, In fr (sstack st) -> fenv fr r = VClo g cenv -> pts S (NReg (ffn fr) r) (LFun g)).
Proof. exact AndersenThm.pts_sound. Qed.

Theorem may_alias_sound : forall P S, closed P S -> forall os1 os2 st1 st2 ev1 ev2,
  run P os1 (init_state P) = (st1, ev1) -> run P os2 st1 = (st2, ev2) ->
  forall fr1 r1 fr2 r2 l off,
    In fr1 (sstack st1) -> fenv fr1 r1 = VPtr l off -> In fr2 (sstack st2) -> fenv fr2 r2 = VPtr l off ->
    exists lab, pts S (NReg (ffn fr1) r1) lab /\ pts S (NReg (ffn fr2) r2) lab.
Proof. exact AndersenThm.may_alias_sound. Qed.

Theorem may_alias_sound_same_state : forall P S, closed P S -> forall os st evs,
  run P os (init_state P) = (st, evs) ->
  forall fr1 r1 fr2 r2 l off,
    In fr1 (sstack st) -> fenv fr1 r1 = VPtr l off -> In fr2 (sstack st) -> fenv fr2 r2 = VPtr l off ->
    exists lab, pts S (NReg (ffn fr1) r1) lab /\ pts S (NReg (ffn fr2) r2) lab.
Proof. exact AndersenThm.may_alias_sound_same_state. Qed.

(* the preservation step itself *)
Theorem step_preserves_invariant : forall P S, closed P S -> forall o st st' ev,
  Andersen.state_ok P S st -> step P o st = Some (st', ev) ->
  Andersen.state_ok P S st' /\ Andersen.event_ok P S ev /\ Andersen.heap_ext (sheap st) (sheap st').
Proof. exact Andersen.step_ok. Qed.

(* the extracted validator and solver: a validated finite solution is closed; the solver's result is closed and least *)
Theorem check_closed_sound : forall P F, check_closed P F = true -> closed P (interp F).
Proof. exact AndersenSolver.check_closed_sound. Qed.

Theorem analyze_sound : forall fuel P F, analyze fuel P = Done F ->
  closed P (interp F) /\ forall S, closed P S -> AndersenSolver.below F S.
Proof. exact AndersenThm.analyze_sound. Qed.

Theorem analyze_least_even_out_of_fuel : forall fuel P S, closed P S ->
  AndersenSolver.below (AndersenSolver.result_sol (analyze fuel P)) S.
Proof. exact AndersenSolver.analyze_least. Qed.

Theorem check_closed_pts_sound : forall P F, check_closed P F = true ->
  forall os st evs, run P os (init_state P) = (st, evs) ->
  forall fr r l off, In fr (sstack st) -> fenv fr r = VPtr l off ->
    exists ob, nth_error (sheap st) l = Some ob /\ In (lab_of ob off) (fpts F (NReg (ffn fr) r)).
Proof. exact AndersenThm.check_closed_pts_sound. Qed.

(* non-vacuity: a program with a struct field store/load, a closure capturing by reference called dynamically, an
   interface invoke, an array element store and a phi; the solver terminates on it with a closed solution that
   separates the two allocation sites, and an execution reaches a state in which two registers hold the same pointer *)
Example ex_analyze : exists F, analyze 30%nat AndersenThm.ex_prog = Done F /\
  holdsb F (FPts (NReg 1%positive 6%positive) (LObj 11%positive 0%N)) = true /\
  holdsb F (FEdge 20%positive 2%positive) = true /\ holdsb F (FEdge 21%positive 3%positive) = true /\
  holdsb F (FPts (NReg 1%positive 6%positive) (LObj 10%positive 0%N)) = false.
Proof. exact AndersenThm.ex_analyze. Qed.

Example ex_pointer : exists fr,
  In fr (sstack (fst (run AndersenThm.ex_prog (repeat 0%nat 12%nat) (init_state AndersenThm.ex_prog)))) /\
  fenv fr 6%positive = VPtr 2%nat 0%N /\ fenv fr 2%positive = VPtr 2%nat 0%N.
Proof. exact AndersenThm.ex_pointer. Qed.
