(* ====================================================================== *)
(*  Argot.Proofs.Cond -- lemmas about Model/Cond.v (property C02)          *)
(*                                                                        *)
(*   A  what a validator condition means (cval) and the characterisation  *)
(*      of is_validator_condition / is_pred_to                            *)
(*   B  CFG paths; soundness, completeness and termination of the         *)
(*      faithful stack search find_path                                   *)
(*   C  condition collection: edge dropped <-> the block path found       *)
(*      passes a validated step                                           *)
(*   D  the executable spec (prune / ideal_kept) is exact                 *)
(*   E  the full statement and its refutations (vm_compute witnesses)     *)
(*   F  sanitizers: a worklist traversal that does not expand stop nodes  *)
(*      visits exactly the nodes reachable without passing THROUGH one    *)
(*  Standard library only; no axioms.                                     *)
(* ====================================================================== *)

From Coq Require Import List Arith Bool Lia.
Import ListNotations.
From Argot Require Import Model.Cond.

(* ====================================================================== *)
(*  A.  Conditions                                                         *)
(* ====================================================================== *)

(* [cval c ok]: the truth value of the branch condition c, read as a statement about the validator call at its leaf,
   when that call ACCEPTED the data (ok = true: returned true / a nil error) or rejected it (ok = false).
   None: c is not such a statement. *)
Fixpoint cval (c : cexpr) (ok : bool) : option bool :=
  match c with
  | CCall is_val _ _ => if is_val then Some ok else None
  | CBin op errty xnil ynil x y =>
      if is_eqneq op && errty then
        if xnil then option_map (eqb (is_eq op)) (cval y ok)          (* nil == e  /  nil != e *)
        else if ynil then option_map (eqb (is_eq op)) (cval x ok)     (* e == nil  /  e != nil *)
        else None
      else None
  | CUn isnot x => if isnot then option_map negb (cval x ok) else None
  | CExtract _ _ t => cval t ok
  | COther => None
  end.

(* the branch [pol] of a validator condition is taken exactly when the validator accepted *)
Lemma ivc_sound : forall c pol,
  is_validator_condition c pol = true ->
  cval c true = Some pol /\ cval c false = Some (negb pol).
Proof.
  induction c as [iv rk args | op errty xnil ynil x IHx y IHy | isnot x IHx | idx len t IHt | ]; intros pol H; simpl in *.
  - apply andb_true_iff in H. destruct H as [Hp Hv]. subst. simpl. auto.
  - destruct (is_eqneq op && errty); [|discriminate].
    destruct xnil.
    + apply andb_true_iff in H. destruct H as [He Hy]. apply eqb_prop in He. subst pol.
      destruct (IHy true Hy) as [H1 H2]. rewrite H1, H2. simpl. destruct (is_eq op); auto.
    + destruct ynil; [|discriminate].
      apply andb_true_iff in H. destruct H as [He Hx]. apply eqb_prop in He. subst pol.
      destruct (IHx true Hx) as [H1 H2]. rewrite H1, H2. simpl. destruct (is_eq op); auto.
  - destruct isnot; [|discriminate].
    destruct (IHx _ H) as [H1 H2]. rewrite H1, H2. simpl. rewrite !negb_involutive. auto.
  - auto.
  - discriminate.
Qed.

(* well-formed conditions (Model.Cond.wf_cond): what is compared with nil is a call result (possibly a tuple component),
   never a negation.  Every condition produced by the Go type checker has this form (a negation is a bool, a nil-checked
   value an error); the check counts the real conditions that satisfy it. *)
Lemma plain_cval_true : forall c a, plain c = true -> cval c true = Some a -> a = true.
Proof.
  induction c; simpl; intros a Hp H; try discriminate.
  - destruct is_val; inversion H; auto.
  - eauto.
Qed.

Lemma plain_wf : forall c, plain c = true -> wf_cond c = true.
Proof. induction c; simpl; intros; try discriminate; auto. Qed.

Lemma ivc_complete : forall c pol,
  wf_cond c = true -> cval c true = Some pol -> is_validator_condition c pol = true.
Proof.
  induction c as [iv rk args | op errty xnil ynil x IHx y IHy | isnot x IHx | idx len t IHt | ]; intros pol W H; simpl in *.
  - destruct iv; inversion H; subst; auto.
  - destruct (is_eqneq op && errty); [|discriminate].
    destruct xnil.
    + destruct (cval y true) as [a|] eqn:E; [|discriminate]. simpl in H. inversion H; subst.
      assert (a = true) by (eapply plain_cval_true; eauto). subst a.
      rewrite (IHy true (plain_wf _ W) eq_refl). destruct (is_eq op); reflexivity.
    + destruct ynil; [|discriminate].
      destruct (cval x true) as [a|] eqn:E; [|discriminate]. simpl in H. inversion H; subst.
      assert (a = true) by (eapply plain_cval_true; eauto). subst a.
      rewrite (IHx true (plain_wf _ W) eq_refl). destruct (is_eq op); reflexivity.
  - destruct isnot; [|discriminate].
    destruct (cval x true) as [a|] eqn:E; [|discriminate]. simpl in H. inversion H; subst.
    apply IHx; auto. rewrite negb_involutive. reflexivity.
  - auto.
  - discriminate.
Qed.

(* the characterisation: on well-formed conditions, isValidatorCondition(c, pol) holds exactly when taking branch pol of c
   is equivalent to "the validator at the leaf of c accepted" *)
Theorem ivc_char : forall c pol,
  wf_cond c = true ->
  (is_validator_condition c pol = true <-> cval c true = Some pol).
Proof.
  intros c pol W. split.
  - intro H. apply ivc_sound in H. tauto.
  - apply ivc_complete; auto.
Qed.

(* the call a condition is about, as isValuePredicateTo finds it *)
Fixpoint leaf (c : cexpr) : option (rkind * list vexpr) :=
  match c with
  | CCall _ rk args => Some (rk, args)
  | CBin op errty xnil ynil x y =>
      if is_eqneq op && errty then
        if xnil then leaf y else if ynil then leaf x else None
      else None
  | CUn isnot x => if isnot then leaf x else None
  | CExtract idx len t => if idx =? len - 1 then leaf t else None
  | COther => None
  end.

Theorem is_pred_to_char : forall c v,
  is_pred_to c v = true <->
  exists rk args a, leaf c = Some (rk, args) /\ is_pred_kind rk = true /\ In a args /\ same_data a v = true.
Proof.
  induction c as [iv rk args | op errty xnil ynil x IHx y IHy | isnot x IHx | idx len t IHt | ]; intro v; simpl.
  - rewrite andb_true_iff, existsb_exists. split.
    + intros [Hk [a [Ha Hs]]]. exists rk, args, a. auto.
    + intros (rk' & args' & a & E & Hk & Ha & Hs). inversion E; subst. split; auto. exists a; auto.
  - destruct (is_eqneq op && errty).
    + destruct xnil; [apply IHy|]. destruct ynil; [apply IHx|].
      split; [discriminate|]. intros (rk & args & a & E & _); discriminate.
    + split; [discriminate|]. intros (rk & args & a & E & _); discriminate.
  - destruct isnot; [apply IHx|].
    split; [discriminate|]. intros (rk & args & a & E & _); discriminate.
  - destruct (idx =? len - 1); simpl; [apply IHt|].
    split; [discriminate|]. intros (rk & args & a & E & _); discriminate.
  - split; [discriminate|]. intros (rk & args & a & E & _); discriminate.
Qed.

Lemma same_data_refl : forall v, same_data v v = true.
Proof. destruct v; simpl; rewrite Nat.eqb_refl; reflexivity. Qed.

(* ====================================================================== *)
(*  B.  CFG paths and the stack search                                     *)
(* ====================================================================== *)

(* a path with at least one edge starting at src, REVERSED (head = the block reached) *)
Inductive rpath (g : cfg) (src : nat) : list nat -> Prop :=
| rp_start s : In s (succs_of g src) -> rpath g src [s; src]
| rp_step s b t : rpath g src (b :: t) -> In s (succs_of g b) -> rpath g src (s :: b :: t).

(* p is a CFG path src -> dst with at least one edge (forward list of blocks, first = src, last = dst) *)
Definition cfg_path (g : cfg) (src dst : nat) (p : list nat) : Prop :=
  exists t, rpath g src (dst :: t) /\ p = rev (dst :: t).

Definition wf_cfg (g : cfg) : Prop := forall b s, In s (succs_of g b) -> s < length g.

Lemma memb_true : forall x l, memb x l = true <-> In x l.
Proof.
  intros x l. unfold memb. rewrite existsb_exists. split.
  - intros [y [Hy E]]. apply Nat.eqb_eq in E. subst; auto.
  - intro H. exists x. split; auto. apply Nat.eqb_refl.
Qed.

Lemma memb_false : forall x l, memb x l = false <-> ~ In x l.
Proof.
  intros x l. rewrite <- memb_true. destruct (memb x l); split; intro H; auto; try discriminate. exfalso; apply H; auto.
Qed.

Lemma succs_of_out_of_range : forall g b, length g <= b -> succs_of g b = [].
Proof. intros g b H. unfold succs_of, blk. rewrite nth_overflow; auto. Qed.

Lemma wf_cfgb_ok : forall g, wf_cfgb g = true -> wf_cfg g.
Proof.
  intros g H b s Hs. unfold wf_cfgb in H. rewrite forallb_forall in H.
  destruct (Nat.lt_ge_cases b (length g)) as [Hb|Hb].
  - assert (Hin : In (blk g b) g) by (unfold blk; apply nth_In; auto).
    specialize (H _ Hin). rewrite forallb_forall in H. apply Nat.ltb_lt. apply H. exact Hs.
  - rewrite succs_of_out_of_range in Hs; auto. destruct Hs.
Qed.

(* ---------- soundness ---------- *)

Lemma search_sound : forall fuel g src dst visited stack raw,
  Forall (rpath g src) stack ->
  search fuel g dst visited stack = Found raw ->
  exists t, rpath g src (dst :: t) /\ raw = rev (dst :: t).
Proof.
  induction fuel as [|f IH]; simpl; intros g src dst visited stack raw HF H; [discriminate|].
  destruct stack as [|cur rest]; [discriminate|].
  inversion HF as [|? ? Hcur Hrest]; subst.
  destruct (hd 0 cur =? dst) eqn:E.
  - inversion H; subst. apply Nat.eqb_eq in E.
    inversion Hcur; subst; simpl in *; subst.
    + exists [src]. split; [constructor; auto|reflexivity].
    + exists (b :: t). split; [constructor; auto|reflexivity].
  - eapply IH; [|exact H].
    apply Forall_forall. intros x Hx. apply in_app_or in Hx. destruct Hx as [Hx|Hx].
    + apply in_rev in Hx. apply in_map_iff in Hx. destruct Hx as [s [Es Hs]]. subst x.
      apply filter_In in Hs. destruct Hs as [Hs _].
      inversion Hcur; subst; simpl in *; constructor; auto; constructor; auto.
    + rewrite Forall_forall in Hrest. auto.
Qed.

Theorem find_path_fuel_sound : forall fuel g src dst raw,
  find_path_fuel fuel g src dst = Found raw ->
  exists t, rpath g src (dst :: t) /\ raw = rev (dst :: t).
Proof.
  intros fuel g src dst raw H. unfold find_path_fuel in H.
  eapply search_sound; [|exact H].
  apply Forall_forall. intros x Hx. apply in_rev in Hx. apply in_map_iff in Hx.
  destruct Hx as [s [Es Hs]]. subst. constructor. auto.
Qed.

(* ---------- completeness: the search never answers NoPath when a path exists ---------- *)

Definition heads (stack : list tnode) : list nat := map (hd 0) stack.

Definition cinv (g : cfg) (src dst : nat) (visited : list nat) (stack : list tnode) : Prop :=
  ~ In dst visited /\
  (forall s, In s (succs_of g src) -> In s visited \/ In s (heads stack)) /\
  (forall b s, In b visited -> In s (succs_of g b) -> In s visited \/ In s (heads stack)).

Lemma closed_rpath : forall g src visited t,
  (forall s, In s (succs_of g src) -> In s visited) ->
  (forall b s, In b visited -> In s (succs_of g b) -> In s visited) ->
  rpath g src t -> In (hd 0 t) visited.
Proof.
  intros g src visited t H1 H2 Hp. induction Hp; simpl in *; auto.
  eapply H2; eauto.
Qed.

Lemma search_complete : forall fuel g src dst visited stack,
  cinv g src dst visited stack ->
  (exists t, rpath g src (dst :: t)) ->
  search fuel g dst visited stack <> NoPath.
Proof.
  induction fuel as [|f IH]; simpl; intros g src dst visited stack HI HP; [discriminate|].
  destruct HI as (Hd & Hs & Hv).
  destruct stack as [|cur rest].
  - exfalso. destruct HP as [t Ht]. apply Hd.
    change dst with (hd 0 (dst :: t)). eapply closed_rpath; eauto.
    + intros s Hs'. destruct (Hs s Hs') as [?|[]]; auto.
    + intros b s Hb Hs'. destruct (Hv b s Hb Hs') as [?|[]]; auto.
  - destruct (hd 0 cur =? dst) eqn:E; [discriminate|].
    apply Nat.eqb_neq in E.
    apply IH with (src := src); auto.
    assert (Hfresh : forall s, In s (succs_of g (hd 0 cur)) ->
               In s (hd 0 cur :: visited) \/
               In s (heads (rev (map (fun s0 => s0 :: cur)
                       (filter (fun s0 => negb (memb s0 (hd 0 cur :: visited))) (succs_of g (hd 0 cur)))) ++ rest))).
    { intros s Hin. destruct (memb s (hd 0 cur :: visited)) eqn:M.
      - left. apply memb_true; auto.
      - right. unfold heads. rewrite map_app. apply in_or_app. left.
        apply in_map_iff. exists (s :: cur). split; auto.
        apply -> in_rev. apply in_map_iff. exists s. split; auto.
        apply filter_In. split; auto. rewrite M. reflexivity. }
    assert (Hold : forall s, In s visited \/ In s (heads (cur :: rest)) ->
               In s (hd 0 cur :: visited) \/
               In s (heads (rev (map (fun s0 => s0 :: cur)
                       (filter (fun s0 => negb (memb s0 (hd 0 cur :: visited))) (succs_of g (hd 0 cur)))) ++ rest))).
    { intros s [H|H]; [left; right; auto|].
      simpl in H. destruct H as [H|H]; [left; left; auto|].
      right. unfold heads. rewrite map_app. apply in_or_app. right. exact H. }
    split; [|split].
    + intros [H|H]; auto.
    + intros s Hin. apply Hold. auto.
    + intros b s [Hb|Hb] Hin.
      * subst b. apply Hfresh; auto.
      * apply Hold. eauto.
Qed.

Theorem find_path_fuel_complete : forall fuel g src dst,
  (exists t, rpath g src (dst :: t)) -> find_path_fuel fuel g src dst <> NoPath.
Proof.
  intros fuel g src dst HP. unfold find_path_fuel. eapply search_complete; eauto.
  split; [|split].
  - intros [].
  - intros s Hs. right. unfold heads. rewrite map_rev. apply -> in_rev.
    rewrite map_map. simpl. rewrite map_id. exact Hs.
  - intros b s [].
Qed.

(* ---------- termination: fuel_bound suffices ---------- *)

Lemma max_deg_ge : forall g b, In b g -> length (succs b) <= max_deg g.
Proof.
  induction g as [|a g IH]; simpl; intros b H; [destruct H|destruct H as [H|H]].
  - subst. apply Nat.le_max_l.
  - etransitivity; [apply IH; auto|apply Nat.le_max_r].
Qed.

Lemma deg_le : forall g b, length (succs_of g b) <= max_deg g.
Proof.
  intros g b. destruct (Nat.lt_ge_cases b (length g)) as [Hb|Hb].
  - apply max_deg_ge. unfold blk. apply nth_In. auto.
  - rewrite succs_of_out_of_range; simpl; auto. lia.
Qed.

Definition unvb (visited : list nat) (b : nat) : bool := negb (memb b visited).
Definition ucount (visited l : list nat) : nat := length (filter (unvb visited) l).

Lemma memb_cons : forall x b l, memb x (b :: l) = (x =? b) || memb x l.
Proof. reflexivity. Qed.

Lemma ucount_cons_in : forall b visited l, memb b visited = true -> ucount (b :: visited) l = ucount visited l.
Proof.
  intros b visited l H. unfold ucount. f_equal. apply filter_ext. intro x. unfold unvb.
  rewrite memb_cons. destruct (x =? b) eqn:E; simpl; auto.
  apply Nat.eqb_eq in E. subst. rewrite H. reflexivity.
Qed.

Lemma ucount_cons_fresh : forall b visited l, ~ In b l -> ucount (b :: visited) l = ucount visited l.
Proof.
  intros b visited l H. unfold ucount. f_equal. apply filter_ext_in. intros x Hx. unfold unvb.
  rewrite memb_cons. destruct (x =? b) eqn:E; simpl; auto.
  apply Nat.eqb_eq in E. subst. contradiction.
Qed.

Lemma ucount_cons_notin : forall b visited l,
  NoDup l -> In b l -> memb b visited = false -> ucount (b :: visited) l + 1 = ucount visited l.
Proof.
  intros b visited l ND. induction ND as [|a l Ha ND IH]; intros Hin Hm; [destruct Hin|].
  destruct (Nat.eq_dec a b) as [E|E].
  - subst a. unfold ucount. simpl.
    assert (E1 : unvb (b :: visited) b = false) by (unfold unvb; rewrite memb_cons, Nat.eqb_refl; reflexivity).
    assert (E2 : unvb visited b = true) by (unfold unvb; rewrite Hm; reflexivity).
    rewrite E1, E2. simpl.
    pose proof (ucount_cons_fresh b visited l Ha) as F. unfold ucount in F. rewrite F. lia.
  - destruct Hin as [Hin|Hin]; [contradiction|].
    specialize (IH Hin Hm).
    assert (E1 : unvb (b :: visited) a = unvb visited a).
    { unfold unvb. rewrite memb_cons. apply Nat.eqb_neq in E. rewrite E. reflexivity. }
    unfold ucount in *. simpl. rewrite E1. destruct (unvb visited a); simpl; lia.
Qed.

Lemma filter_length_le : forall (A : Type) (f : A -> bool) (l : list A), length (filter f l) <= length l.
Proof. induction l; simpl; auto. destruct (f a); simpl; lia. Qed.

Lemma ucount_le : forall visited l, ucount visited l <= length l.
Proof. intros. unfold ucount. apply filter_length_le. Qed.

Definition topu (visited : list nat) (stack : list tnode) : bool :=
  match stack with
  | cur :: _ => negb (memb (hd 0 cur) visited)
  | [] => false
  end.

(* the potential: strictly decreases at every iteration of the loop *)
Definition potential (g : cfg) (visited : list nat) (stack : list tnode) : nat :=
  length stack + 2 * max_deg g * ucount visited (seq 0 (length g)) + (if topu visited stack then 0 else max_deg g).

Lemma rev_map_top : forall (A B : Type) (f : A -> B) (l : list A),
  l <> [] -> exists s r, rev (map f l) = f s :: r /\ In s l.
Proof.
  intros A B f l H. rewrite <- map_rev. destruct (rev l) as [|s r] eqn:E.
  - exfalso. apply H. rewrite <- (rev_involutive l), E. reflexivity.
  - exists s, (map f r). split; auto. apply in_rev. rewrite E. left; auto.
Qed.

Lemma step_decrease : forall g visited cur rest,
  wf_cfg g ->
  hd 0 cur < length g ->
  let b := hd 0 cur in
  let fresh := filter (fun s => negb (memb s (b :: visited))) (succs_of g b) in
  potential g (b :: visited) (rev (map (fun s => s :: cur) fresh) ++ rest) < potential g visited (cur :: rest).
Proof.
  intros g visited cur rest WF Hb b fresh. unfold potential. unfold tnode in *.
  set (d := max_deg g). set (U := seq 0 (length g)).
  assert (Hk : length fresh <= d).
  { unfold fresh. etransitivity; [apply filter_length_le|apply deg_le]. }
  rewrite app_length, rev_length, map_length. simpl length. simpl topu. fold b.
  assert (Hbonus : (if topu (b :: visited) (rev (map (fun s => s :: cur) fresh) ++ rest) then 0 else d) <= d)
    by (destruct (topu _ _); lia).
  destruct (memb b visited) eqn:M; simpl negb; cbv iota.
  - (* the popped block had been visited already *)
    rewrite (ucount_cons_in b visited U M).
    destruct fresh as [|s0 fr] eqn:Ef.
    + clear Hbonus. simpl rev. simpl app. simpl length. destruct (topu (b :: visited) rest); lia.
    + destruct (rev_map_top _ _ (fun s => s :: cur) (s0 :: fr)) as (s & r & Er & Hs); [discriminate|].
      assert (Hs' : In s fresh) by (rewrite Ef; exact Hs).
      unfold fresh in Hs'. apply filter_In in Hs'. destruct Hs' as [_ Hs'].
      assert (Ht : topu (b :: visited) ((s :: cur) :: r ++ rest) = true) by (unfold topu; simpl hd; exact Hs').
      rewrite Er. simpl app. rewrite Ht. simpl in Hk |- *. lia.
  - (* first visit of this block *)
    assert (HU : ucount (b :: visited) U + 1 = ucount visited U).
    { apply ucount_cons_notin; auto. apply seq_NoDup. apply in_seq. lia. }
    rewrite <- HU. set (u' := ucount (b :: visited) U) in *.
    replace (2 * d * (u' + 1)) with (2 * d * u' + 2 * d) by ring.
    lia.
Qed.

Lemma search_terminates : forall fuel g dst visited stack,
  wf_cfg g ->
  Forall (fun t => hd 0 t < length g) stack ->
  potential g visited stack < fuel ->
  search fuel g dst visited stack <> OutOfFuel.
Proof.
  induction fuel as [|f IH]; intros g dst visited stack WF HF HP; [lia|].
  simpl. destruct stack as [|cur rest]; [discriminate|].
  destruct (hd 0 cur =? dst); [discriminate|].
  inversion HF as [|? ? Hc Hr]; subst.
  apply IH; auto.
  - apply Forall_forall. intros x Hx. apply in_app_or in Hx. destruct Hx as [Hx|Hx].
    + apply in_rev in Hx. apply in_map_iff in Hx. destruct Hx as [s [Es Hs]]. subst x. simpl.
      apply filter_In in Hs. destruct Hs as [Hs _]. eapply WF; eauto.
    + rewrite Forall_forall in Hr. auto.
  - pose proof (step_decrease g visited cur rest WF Hc) as H. simpl in H. lia.
Qed.

Theorem find_path_terminates : forall g src dst,
  wf_cfg g -> find_path g src dst <> OutOfFuel.
Proof.
  intros g src dst WF. unfold find_path, find_path_fuel.
  apply search_terminates; auto.
  - apply Forall_forall. intros x Hx. apply in_rev in Hx. apply in_map_iff in Hx.
    destruct Hx as [s [Es Hs]]. subst. simpl. eapply WF; eauto.
  - unfold potential, fuel_bound.
    rewrite rev_length, map_length.
    pose proof (deg_le g src) as Hd.
    pose proof (ucount_le [] (seq 0 (length g))) as Hu. rewrite seq_length in Hu.
    assert (Hm : 2 * max_deg g * ucount [] (seq 0 (length g)) <= 2 * max_deg g * length g)
      by (apply Nat.mul_le_mono_l; exact Hu).
    destruct (succs_of g src) as [|s0 l] eqn:E.
    + simpl. lia.
    + destruct (rev_map_top _ _ (fun s => [s; src]) (s0 :: l)) as (s & r & Er & Hs); [discriminate|].
      rewrite Er. simpl topu. simpl in Hd |- *. lia.
Qed.

(* a path is found whenever one exists *)
Theorem find_path_complete : forall g src dst,
  wf_cfg g -> (exists t, rpath g src (dst :: t)) -> exists raw, find_path g src dst = Found raw.
Proof.
  intros g src dst WF HP.
  pose proof (find_path_terminates g src dst WF) as HT.
  pose proof (find_path_fuel_complete (fuel_bound g) g src dst HP) as HC.
  unfold find_path in *. destruct (find_path_fuel (fuel_bound g) g src dst) as [raw| |]; try contradiction.
  exists raw; reflexivity.
Qed.

Theorem find_path_complete_cfg : forall g src dst,
  wf_cfg g -> (exists p, cfg_path g src dst p) -> exists raw, find_path g src dst = Found raw.
Proof.
  intros g src dst W [p [t [Ht _]]]. apply find_path_complete; eauto.
Qed.

Theorem find_path_sound : forall g src dst raw,
  find_path g src dst = Found raw -> cfg_path g src dst raw.
Proof.
  intros g src dst raw H. apply find_path_fuel_sound in H. destruct H as (t & Ht & Er).
  exists t; auto.
Qed.

Theorem find_path_none : forall g src dst,
  find_path g src dst = NoPath -> forall p, ~ cfg_path g src dst p.
Proof.
  intros g src dst H p (t & Ht & _).
  apply (find_path_fuel_complete (fuel_bound g) g src dst); eauto.
Qed.

(* ====================================================================== *)
(*  C.  Condition collection and the validator drop                        *)
(* ====================================================================== *)

Definition adjacent (b s : nat) (p : list nat) : Prop := exists l1 l2, p = l1 ++ b :: s :: l2.

(* the path takes, somewhere, a branch on which a validator accepted v *)
Definition passes_validated_branch (g : cfg) (p : list nat) (v : vexpr) : Prop :=
  exists b s, adjacent b s p /\ step_validated g v b s = true.

Definition olist {A : Type} (o : option A) : list A := match o with Some x => [x] | None => [] end.

Lemma spc_cons2 : forall g b b' tl,
  simple_path_condition g (b :: b' :: tl) = olist (step_label g b b') ++ simple_path_condition g (b' :: tl).
Proof.
  intros. simpl. unfold step_label.
  destruct (ifc (blk g b)) as [[cid c]|]; [|reflexivity].
  destruct (succs_of g b) as [|s0 ss]; [reflexivity|].
  destruct (b' =? s0); [reflexivity|].
  destruct ss as [|s1 ss']; [reflexivity|].
  destruct (b' =? s1); reflexivity.
Qed.

Lemma adjacent_cons : forall b s a p, adjacent b s p -> adjacent b s (a :: p).
Proof. intros b s a p (l1 & l2 & E). exists (a :: l1), l2. subst. reflexivity. Qed.

Lemma adjacent_inv : forall b s a p, adjacent b s (a :: p) ->
  (a = b /\ exists tl, p = s :: tl) \/ adjacent b s p.
Proof.
  intros b s a p (l1 & l2 & E). destruct l1 as [|x l1]; simpl in E; inversion E; subst.
  - left. split; auto. eauto.
  - right. exists l1, l2. reflexivity.
Qed.

Lemma spc_in : forall g p c,
  In c (simple_path_condition g p) <-> exists b s, adjacent b s p /\ step_label g b s = Some c.
Proof.
  intros g p c. induction p as [|a p IH].
  - simpl. split; [intros []|]. intros (b & s & (l1 & l2 & E) & _). destruct l1; discriminate.
  - destruct p as [|a' p'].
    + simpl. split; [intros []|]. intros (b & s & (l1 & l2 & E) & _).
      destruct l1 as [|x l1]; [discriminate|]. destruct l1; discriminate.
    + rewrite spc_cons2. rewrite in_app_iff. split.
      * intros [H|H].
        -- exists a, a'. split; [exists [], p'; reflexivity|].
           destruct (step_label g a a'); simpl in H; [destruct H as [H|[]]; subst; reflexivity|destruct H].
        -- apply IH in H. destruct H as (b & s & Ha & Hl). exists b, s. split; auto. apply adjacent_cons; auto.
      * intros (b & s & Ha & Hl). apply adjacent_inv in Ha. destruct Ha as [[Ea [tl Et]]|Ha].
        -- inversion Et; subst. left. rewrite Hl. left; reflexivity.
        -- right. apply IH. eauto.
Qed.

(* the edge is dropped exactly when the RAW block list passes a validated step *)
Theorem dropped_iff_raw_validated : forall g raw v,
  edge_dropped (as_predicate_to (simple_path_condition g raw) v) = true <-> passes_validated_branch g raw v.
Proof.
  intros g raw v. unfold edge_dropped, as_predicate_to, passes_validated_branch.
  rewrite existsb_exists. split.
  - intros (c & Hc & Hv). apply filter_In in Hc. destruct Hc as [Hc Hp].
    apply spc_in in Hc. destruct Hc as (b & s & Ha & Hl).
    exists b, s. split; auto. unfold step_validated. rewrite Hl. unfold cond_validates. rewrite Hp, Hv. reflexivity.
  - intros (b & s & Ha & Hs). unfold step_validated in Hs.
    destruct (step_label g b s) as [c|] eqn:Hl; [|discriminate].
    unfold cond_validates in Hs. apply andb_true_iff in Hs. destruct Hs as [Hp Hv].
    exists c. split; auto. apply filter_In. split; auto. apply spc_in. eauto.
Qed.

(* What IS proved about the code as it is (after the PathToLeaf repair): the block list found is a real CFG path, and the
   edge is dropped exactly when THIS path takes a branch on which a validator accepted v. *)
Theorem validator_single_path_partial : forall g src dst v raw,
  find_path g src dst = Found raw ->
  edge_dropped (as_predicate_to (simple_path_condition g raw) v) = true ->
  cfg_path g src dst raw /\ passes_validated_branch g raw v.
Proof.
  intros g src dst v raw HF HD. split.
  - apply find_path_sound; auto.
  - apply dropped_iff_raw_validated; auto.
Qed.

(* boolean version of passes_validated_branch, for the concrete witnesses *)
Fixpoint pairs (p : list nat) : list (nat * nat) :=
  match p with
  | a :: ((b :: _) as tl) => (a, b) :: pairs tl
  | _ => []
  end.

Lemma adjacent_pairs : forall b s p, adjacent b s p <-> In (b, s) (pairs p).
Proof.
  intros b s p. induction p as [|a p IH].
  - split; [|intros []]. intros (l1 & l2 & E). destruct l1; discriminate.
  - destruct p as [|a' p'].
    + split; [|intros []]. intros (l1 & l2 & E). destruct l1 as [|x l1]; [discriminate|]. destruct l1; discriminate.
    + simpl pairs. split.
      * intro H. apply adjacent_inv in H. destruct H as [[Ea [tl Et]]|H].
        -- inversion Et; subst. left; reflexivity.
        -- right. apply IH. exact H.
      * intros [H|H].
        -- inversion H; subst. exists [], p'. reflexivity.
        -- apply adjacent_cons. apply IH. exact H.
Qed.

Definition passes_b (g : cfg) (p : list nat) (v : vexpr) : bool :=
  existsb (fun bs => step_validated g v (fst bs) (snd bs)) (pairs p).

Lemma passes_b_iff : forall g p v, passes_b g p v = true <-> passes_validated_branch g p v.
Proof.
  intros. unfold passes_b, passes_validated_branch. rewrite existsb_exists. split.
  - intros ([b s] & Hin & Hs). exists b, s. split; auto. apply adjacent_pairs; auto.
  - intros (b & s & Ha & Hs). exists (b, s). split; auto. apply adjacent_pairs; auto.
Qed.

(* ====================================================================== *)
(*  D.  The executable spec is exact                                       *)
(* ====================================================================== *)

Lemma nth_prune_from : forall g v bs i b,
  nth b (prune_from g v i bs) dflt_block =
  if b <? length bs
  then mkBlock (filter (fun s => negb (step_validated g v (i + b) s)) (succs (nth b bs dflt_block))) None
  else dflt_block.
Proof.
  intros g v bs. induction bs as [|a bs IH]; intros i b.
  - simpl. destruct b; reflexivity.
  - unfold prune_from in *. simpl length. simpl seq. simpl combine. simpl map.
    destruct b as [|b'].
    + simpl. rewrite Nat.add_0_r. reflexivity.
    + simpl nth. rewrite IH. replace (S i + b') with (i + S b') by lia.
      change (S b' <? S (length bs)) with (b' <? length bs). reflexivity.
Qed.

Lemma succs_of_prune : forall g v b,
  succs_of (prune g v) b = filter (fun s => negb (step_validated g v b s)) (succs_of g b).
Proof.
  intros g v b. unfold succs_of, blk, prune. rewrite nth_prune_from. simpl Nat.add.
  destruct (b <? length g) eqn:E; [reflexivity|].
  apply Nat.ltb_ge in E. rewrite nth_overflow; auto.
Qed.

Lemma length_prune : forall g v, length (prune g v) = length g.
Proof.
  intros. unfold prune, prune_from. rewrite map_length, combine_length, seq_length. apply Nat.min_id.
Qed.

Lemma wf_prune : forall g v, wf_cfg g -> wf_cfg (prune g v).
Proof.
  intros g v WF b s H. rewrite succs_of_prune in H. apply filter_In in H. destruct H as [H _].
  rewrite length_prune. eapply WF; eauto.
Qed.

(* the steps of a reversed path, as (from, to) pairs *)
Fixpoint rsteps (t : list nat) : list (nat * nat) :=
  match t with
  | s :: ((b :: _) as tl) => (b, s) :: rsteps tl
  | _ => []
  end.

Definition unvalidated (g : cfg) (v : vexpr) (t : list nat) : Prop :=
  Forall (fun bs => step_validated g v (fst bs) (snd bs) = false) (rsteps t).

Lemma rpath_prune : forall g v src t,
  rpath (prune g v) src t <-> rpath g src t /\ unvalidated g v t.
Proof.
  intros g v src t. split.
  - intro H. induction H as [s Hs | s b t Hp [IH1 IH2] Hs].
    + rewrite succs_of_prune in Hs. apply filter_In in Hs. destruct Hs as [Hs Hv].
      split; [constructor; auto|]. unfold unvalidated. simpl. constructor; [|constructor].
      simpl. destruct (step_validated g v src s); [discriminate|reflexivity].
    + rewrite succs_of_prune in Hs. apply filter_In in Hs. destruct Hs as [Hs Hv].
      split; [constructor; auto|]. unfold unvalidated in *. simpl. constructor; [|exact IH2].
      simpl. destruct (step_validated g v b s); [discriminate|reflexivity].
  - intros [H U]. induction H as [s Hs | s b t Hp IH Hs].
    + unfold unvalidated in U. simpl in U. inversion U; subst. simpl in *.
      constructor. rewrite succs_of_prune. apply filter_In. split; auto. rewrite H1. reflexivity.
    + unfold unvalidated in U. simpl in U. inversion U; subst. simpl in *.
      constructor; [apply IH; exact H2|]. rewrite succs_of_prune. apply filter_In. split; auto. rewrite H1. reflexivity.
Qed.

Lemma rsteps_adjacent : forall b s t, In (b, s) (rsteps t) <-> adjacent s b t.
Proof.
  intros b s t. rewrite adjacent_pairs. induction t as [|a t IH]; [simpl; tauto|].
  destruct t as [|a' t']; [simpl; tauto|].
  simpl rsteps. simpl pairs. simpl In. rewrite IH. split; intros [H|H]; auto; left; inversion H; reflexivity.
Qed.

Lemma adjacent_rev : forall a b l, adjacent a b l -> adjacent b a (rev l).
Proof.
  intros a b l (l1 & l2 & E). subst. exists (rev l2), (rev l1).
  rewrite rev_app_distr. simpl. rewrite <- !app_assoc. reflexivity.
Qed.

Lemma unvalidated_iff : forall g v t,
  unvalidated g v t <-> ~ passes_validated_branch g (rev t) v.
Proof.
  intros g v t. unfold unvalidated. rewrite Forall_forall. split.
  - intros H (b & s & Ha & Hs). apply adjacent_rev in Ha. rewrite rev_involutive in Ha.
    apply rsteps_adjacent in Ha. specialize (H _ Ha). simpl in H. congruence.
  - intros H [b s] Hin. simpl. destruct (step_validated g v b s) eqn:E; auto.
    exfalso. apply H. exists b, s. split; auto. apply rsteps_adjacent in Hin. apply adjacent_rev. exact Hin.
Qed.

(* the ideal verdict "keep the edge" <-> some CFG path src -> dst avoids every validated branch *)
Theorem ideal_kept_exact : forall g src dst v,
  wf_cfg g ->
  ((exists raw, ideal_kept g src dst v = Found raw) <->
   (exists p, cfg_path g src dst p /\ ~ passes_validated_branch g p v)).
Proof.
  intros g src dst v WF. unfold ideal_kept. split.
  - intros [raw H]. apply find_path_sound in H. destruct H as (t & Ht & Ep).
    apply rpath_prune in Ht. destruct Ht as [Ht U].
    exists raw. split; [exists t; auto|]. subst raw. apply unvalidated_iff. exact U.
  - intros (p & (t & Ht & Ep) & NP). apply find_path_complete; [apply wf_prune; auto|].
    exists t. apply rpath_prune. split; auto. apply unvalidated_iff. subst p. exact NP.
Qed.

(* ... and "drop the edge" <-> EVERY CFG path src -> dst takes a validated branch *)
Theorem ideal_dropped_exact : forall g src dst v,
  wf_cfg g ->
  (ideal_kept g src dst v = NoPath <->
   (forall p, cfg_path g src dst p -> passes_validated_branch g p v)).
Proof.
  intros g src dst v WF. split.
  - intros H p Hp. destruct (passes_b g p v) eqn:E; [apply passes_b_iff; exact E|].
    exfalso. assert (HK : exists raw, ideal_kept g src dst v = Found raw).
    { apply ideal_kept_exact; auto. exists p. split; auto. intro HP. apply passes_b_iff in HP. congruence. }
    destruct HK as [raw HK]. congruence.
  - intro H. destruct (ideal_kept g src dst v) as [raw| |] eqn:E; auto.
    + exfalso. assert (HK : exists raw, ideal_kept g src dst v = Found raw) by eauto.
      apply ideal_kept_exact in HK; auto. destruct HK as (p & Hp & NP). apply NP. auto.
    + exfalso. unfold ideal_kept in E. eapply find_path_terminates; [apply wf_prune; exact WF|exact E].
Qed.

(* ====================================================================== *)
(*  E.  The full statement of the property and its refutations             *)
(* ====================================================================== *)

(* FULL STATEMENT (what C02 demands of the validator half): if the edge source -> call argument v is dropped, then EVERY
   CFG path from the source block to the block of the call takes a branch on which a validator accepted v. *)
Definition validator_only_all_paths : Prop :=
  forall (g : cfg) (src dst : nat) (v : vexpr) (raw : list nat),
    wf_cfg g ->
    find_path g src dst = Found raw ->
    edge_dropped (as_predicate_to (simple_path_condition g raw) v) = true ->
    forall p, cfg_path g src dst p -> passes_validated_branch g p v.

Definition vx : vexpr := VAtom 7.
Definition valid_x : cexpr := CCall true RBool [vx].           (* Validate(x) *)
Definition not_valid_x : cexpr := CUn true valid_x.            (* !Validate(x) *)
Definition invalid_x : cexpr :=                                (* ValidateErr(x) != nil *)
  CBin OpNeq true false true (CCall true RErr [vx]) COther.

(* b0: x := source(); if ValidateErr(x) != nil goto b1 else b2      b1: log(); goto b3      b2: log(); goto b3
   b3: sink(x) *)
Definition diamond : cfg :=
  [ mkBlock [1; 2] (Some (1, invalid_x)); mkBlock [3] None; mkBlock [3] None; mkBlock [] None ].

(* b0: x := source(); if ValidateErr(x) != nil goto b1 else b2      b1: log(); goto b2      b2: sink(x)
   (the shape of testdata/validators example 7) *)
Definition triangle : cfg :=
  [ mkBlock [1; 2] (Some (1, invalid_x)); mkBlock [2] None; mkBlock [] None ].

(* b0: x := source(); goto b1      b1: sink(x); if Validate(x) goto b1 else b2      b2: return
   ( for { sink(x); if !Validate(x) { break } } ): the sink is reached BEFORE the check of its own block *)
Definition dowhile : cfg :=
  [ mkBlock [1] None; mkBlock [1; 2] (Some (1, valid_x)); mkBlock [] None ].

(* b0: x := source(); if !Validate(x) goto b1 else b2      b1: return      b2: sink(x) *)
Definition early_return : cfg :=
  [ mkBlock [1; 2] (Some (1, not_valid_x)); mkBlock [] None; mkBlock [] None ].

Lemma validator_drop_refuted : ~ validator_only_all_paths.
Proof.
  intro H.
  assert (P : cfg_path diamond 0 3 [0; 1; 3]).
  { exists [1; 0]. split; [|reflexivity]. apply rp_step; [apply rp_start|]; simpl; auto. }
  assert (F : find_path diamond 0 3 = Found [0; 2; 3]) by (vm_compute; reflexivity).
  assert (D : edge_dropped (as_predicate_to (simple_path_condition diamond [0; 2; 3]) vx) = true)
    by (vm_compute; reflexivity).
  assert (W : wf_cfg diamond) by (apply wf_cfgb_ok; vm_compute; reflexivity).
  specialize (H diamond 0 3 vx [0; 2; 3] W F D [0; 1; 3] P).
  apply passes_b_iff in H. vm_compute in H. discriminate.
Qed.

(* the same with three blocks *)
Lemma validator_drop_refuted_triangle :
  exists raw p, find_path triangle 0 2 = Found raw /\
    edge_dropped (as_predicate_to (simple_path_condition triangle raw) vx) = true /\
    cfg_path triangle 0 2 p /\ ~ passes_validated_branch triangle p vx.
Proof.
  exists [0; 2], [0; 1; 2]. split; [vm_compute; reflexivity|]. split; [vm_compute; reflexivity|]. split.
  - exists [1; 0]. split; [|reflexivity]. apply rp_step; [apply rp_start|]; simpl; auto.
  - intro H. apply passes_b_iff in H. vm_compute in H. discriminate.
Qed.

(* regression witness of the repaired finding validator-dup-last-block: the edge into the do-while sink is KEPT *)
Example dowhile_kept :
  find_path dowhile 0 1 = Found [0; 1] /\
  edge_dropped (as_predicate_to (simple_path_condition dowhile [0; 1]) vx) = false.
Proof. split; vm_compute; reflexivity. Qed.

(* non-vacuity of validator_single_path_partial / ideal_dropped_exact: a dropped edge all of whose paths are validated *)
Example early_return_dropped :
  wf_cfgb early_return = true /\
  find_path early_return 0 2 = Found [0; 2] /\
  edge_dropped (as_predicate_to (simple_path_condition early_return [0; 2]) vx) = true /\
  ideal_kept early_return 0 2 vx = NoPath.
Proof. repeat split; vm_compute; reflexivity. Qed.

(* non-vacuity of ideal_kept_exact: the spec finds the bypass in the diamond *)
Example diamond_bypass : ideal_kept diamond 0 3 vx = Found [0; 1; 3].
Proof. vm_compute. reflexivity. Qed.

(* the conditions of the witnesses are well-formed, and a validator condition in the sense of ivc_char *)
Example not_valid_x_char :
  wf_cond not_valid_x = true /\ is_validator_condition not_valid_x false = true /\ is_pred_to not_valid_x vx = true.
Proof. repeat split; vm_compute; reflexivity. Qed.

(* err := ValidateErr(x); err != nil   -- accepted on the else-branch only *)
Example nil_check_char :
  let c := CBin OpNeq true false true (CCall true RErr [vx]) COther in
  wf_cond c = true /\ is_validator_condition c false = true /\ is_validator_condition c true = false /\
  is_pred_to c (VMkIface 9 vx) = true.
Proof. repeat split; vm_compute; reflexivity. Qed.

(* ====================================================================== *)
(*  F.  Sanitizers                                                         *)
(* ====================================================================== *)

Section Sanitizer.
  Variable out : nat -> list nat.
  Variable stop : nat -> bool.

  (* reachable from a root along edges none of whose SOURCE nodes is a stop node: data may END in a sanitizer node but
     never passes THROUGH one *)
  Inductive sreach (roots : list nat) : nat -> Prop :=
  | sr_root x : In x roots -> sreach roots x
  | sr_step x y : sreach roots x -> stop x = false -> In y (out x) -> sreach roots y.

  Lemma enqueue_spec : forall ys queue seen q s,
    enqueue ys queue seen = (q, s) ->
    (forall x, In x s <-> In x seen \/ In x ys) /\
    (forall x, In x queue -> In x q) /\
    (forall x, In x q -> In x queue \/ In x ys) /\
    (forall x, In x s -> In x seen \/ In x q).
  Proof.
    induction ys as [|y ys IH]; intros queue seen q s H; simpl in H.
    - inversion H; subst. repeat split; try tauto. intros [?|[]]; auto.
    - destruct (memb y seen) eqn:M.
      + destruct (IH _ _ _ _ H) as (A & B & C & D). apply memb_true in M.
        repeat split; auto.
        * intro Hx. apply A in Hx. simpl. tauto.
        * intros [Hx|[Hx|Hx]]; apply A; auto. subst; auto.
        * intros x Hx. apply C in Hx. simpl. tauto.
      + destruct (IH _ _ _ _ H) as (A & B & C & D).
        repeat split.
        * intro Hx. apply A in Hx. simpl in *. tauto.
        * intros [Hx|[Hx|Hx]]; apply A; simpl; auto.
        * intros x Hx. apply B. apply in_or_app. auto.
        * intros x Hx. apply C in Hx. destruct Hx as [Hx|Hx]; simpl; auto.
          apply in_app_or in Hx. destruct Hx as [Hx|[Hx|[]]]; auto.
        * intros x Hx. apply D in Hx. destruct Hx as [[Hx|Hx]|Hx]; auto.
          subst. right. apply B. apply in_or_app. right. left. reflexivity.
  Qed.

  Definition binv (roots queue seen : list nat) : Prop :=
    (forall x, In x seen -> sreach roots x) /\
    (forall x, In x roots -> In x seen) /\
    (forall x, In x queue -> In x seen) /\
    (forall x, In x seen -> In x queue \/ stop x = true \/ (forall y, In y (out x) -> In y seen)).

  Lemma bfs_spec : forall fuel roots queue seen res,
    binv roots queue seen -> bfs out stop fuel queue seen = Some res ->
    forall n, In n res <-> sreach roots n.
  Proof.
    induction fuel as [|f IH]; intros roots queue seen res HI H; simpl in H; [discriminate|].
    destruct HI as (I1 & I2 & I3 & I4).
    destruct queue as [|x rest].
    - inversion H; subst. intro n. split; [apply I1|].
      intro Hr. induction Hr as [x Hx | x y Hx IHx Hs Hy]; [apply I2; auto|].
      destruct (I4 x IHx) as [[]|[Hstop|Hc]]; [congruence|auto].
    - destruct (stop x) eqn:S.
      + eapply IH; [|exact H]. repeat split; auto.
        * intros z Hz. apply I3. right; auto.
        * intros z Hz. destruct (I4 z Hz) as [[Hq|Hq]|Hq]; auto. subst. auto.
      + destruct (enqueue (out x) rest seen) as [q s] eqn:E.
        destruct (enqueue_spec _ _ _ _ _ E) as (A & B & C & D).
        eapply IH; [|exact H]. repeat split.
        * intros z Hz. apply A in Hz. destruct Hz as [Hz|Hz]; auto.
          eapply sr_step; eauto. apply I1. apply I3. left; reflexivity.
        * intros z Hz. apply A. left. auto.
        * intros z Hz. apply C in Hz. apply A. destruct Hz as [Hz|Hz]; auto. left. apply I3. right; auto.
        * intros z Hz. destruct (D z Hz) as [Hs|Hq]; auto.
          destruct (I4 z Hs) as [[Hq|Hq]|[Hq|Hq]]; auto.
          -- subst z. right. right. intros y Hy. apply A. auto.
          -- right. right. intros y Hy. apply A. left. auto.
  Qed.

  (* The traversal visits EXACTLY the nodes reachable without passing through a stop (sanitizer) node: nothing else is
     pruned, so data that reaches a sink along a path bypassing the sanitizer call is still propagated. *)
  Theorem sanitizer_stop_exact : forall fuel roots res,
    visit out stop fuel roots = Some res ->
    forall n, In n res <-> sreach roots n.
  Proof.
    intros fuel roots res H. unfold visit in H.
    destruct (enqueue roots [] []) as [q s] eqn:E.
    destruct (enqueue_spec _ _ _ _ _ E) as (A & B & C & D).
    eapply bfs_spec; [|exact H]. repeat split.
    - intros x Hx. apply A in Hx. destruct Hx as [[]|Hx]. constructor; auto.
    - intros x Hx. apply A. auto.
    - intros x Hx. apply C in Hx. destruct Hx as [[]|Hx]. apply A. auto.
    - intros x Hx. destruct (D x Hx) as [[]|Hq]. auto.
  Qed.
End Sanitizer.

(* Several taint problems: only the sanitizers of the problem being solved may stop its traversal.  Stopping at MORE nodes
   (e.g. at the sanitizers of every problem of the configuration) can only lose reachable nodes ... *)
Lemma sreach_antimono : forall out (stop stop' : nat -> bool) roots n,
  (forall x, stop x = true -> stop' x = true) ->
  sreach out stop' roots n -> sreach out stop roots n.
Proof.
  intros out stop stop' roots n Hs H. induction H as [x Hx | x y Hx IH Hst Hy].
  - apply sr_root; auto.
  - eapply sr_step; eauto. destruct (stop x) eqn:E; auto. apply Hs in E. congruence.
Qed.

Theorem other_problem_sanitizers_only_lose : forall out stop_p stop_q fuel fuel' roots res res',
  visit out stop_p fuel roots = Some res ->
  visit out (fun n => stop_p n || stop_q n) fuel' roots = Some res' ->
  incl res' res.
Proof.
  intros out stop_p stop_q fuel fuel' roots res res' H H' n Hn.
  apply (sanitizer_stop_exact out stop_p fuel roots res H).
  apply (sanitizer_stop_exact out _ fuel' roots res' H') in Hn.
  eapply sreach_antimono; [|exact Hn]. intros x Hx. simpl. rewrite Hx. reflexivity.
Qed.

(* ... and does lose them: problem P: 0 (source) -> 1 (call of a sanitizer of problem Q only) -> 2 -> 4 (sink) *)
Definition ex_out_q (n : nat) : list nat := match n with 0 => [1] | 1 => [2] | 2 => [4] | _ => [] end.

Example other_problem_sanitizer_must_not_stop :
  visit ex_out_q (fun _ => false) 10 [0] = Some [4; 2; 1; 0] /\
  visit ex_out_q (fun n => false || (n =? 1)) 10 [0] = Some [1; 0].
Proof. split; vm_compute; reflexivity. Qed.

(* source 0 -> {1 (the sanitizer call), 3}, 1 -> 2 -> 4 (sink), 3 -> 4: the flow through 3 bypasses the sanitizer *)
Definition ex_out (n : nat) : list nat :=
  match n with 0 => [1; 3] | 1 => [2] | 2 => [4] | 3 => [4] | _ => [] end.
Definition ex_stop (n : nat) : bool := n =? 1.

Example sanitizer_bypass_visited : visit ex_out ex_stop 10 [0] = Some [4; 3; 1; 0].
Proof. vm_compute. reflexivity. Qed.

(* with the only route through the sanitizer, the sink (4) and the sanitizer's result (2) are not visited *)
Example sanitizer_only_route_pruned :
  visit (fun n => match n with 0 => [1] | 1 => [2] | 2 => [4] | _ => [] end) ex_stop 10 [0] = Some [1; 0].
Proof. vm_compute. reflexivity. Qed.
