(** * C03: which nodes lie on a recorded trace *)
From Coq Require Import List PArith NArith ZArith Bool Lia FMapPositive Permutation.
Import ListNotations.
From Argot Require Import Model.Back Proofs.BackBase Proofs.BackWf.

Definition suffix (p q : list nid) : Prop := exists l, q = l ++ p.

Lemma suffix_refl : forall p, suffix p p.
Proof. intros p. exists []. reflexivity. Qed.

Lemma suffix_trans : forall p q r, suffix p q -> suffix q r -> suffix p r.
Proof. intros p q r [l1 H1] [l2 H2]. exists (l2 ++ l1). subst. rewrite app_assoc. reflexivity. Qed.

Lemma suffix_cons : forall x p, suffix p (x :: p).
Proof. intros x p. exists [x]. reflexivity. Qed.

Lemma suffix_in : forall x tl t, suffix (x :: tl) t -> In x t.
Proof. intros x tl t [l H]. subst. apply in_or_app. right. left. reflexivity. Qed.

Section CoverRun.
Variable rank : oracle.
Variable g : graph.
Variable cfg : config.
Variable entry : nid.

(** every expanded visitor node is below a recorded trace, below the path of a silent leaf, or below a node that is
    still on the stack *)
Definition invJ (s : state) : Prop :=
  (forall v, In v (visited s) ->
     (exists t, (In t (traces s) \/ In t (silent s)) /\ suffix (v_path v) t) \/
     (exists w, In w (stack s) /\ suffix (v_path v) (v_path w))) /\
  (In (root entry) (visited s) \/ In (root entry) (stack s)).

Lemma invJ_leaf : forall s cur rest s',
  invJ s -> stack s = cur :: rest ->
  stack s' = rest -> visited s' = cur :: visited s ->
  (forall t, In t (traces s) -> In t (traces s')) -> (forall t, In t (silent s) -> In t (silent s')) ->
  (In (v_path cur) (traces s') \/ In (v_path cur) (silent s')) ->
  invJ s'.
Proof.
  intros s cur rest s' [J R] Hst Hst' Hv Ht Hs Hcur. split.
  - intros v Hin. rewrite Hv in Hin. destruct Hin as [E|Hin].
    + subst v. left. exists (v_path cur). split; auto. apply suffix_refl.
    + destruct (J v Hin) as [[t [Ht' Hsuf]]|[w [Hw Hsuf]]].
      * left. exists t. split; auto. destruct Ht'; auto.
      * rewrite Hst in Hw. destruct Hw as [E|Hw].
        -- subst w. left. exists (v_path cur). split; auto.
        -- right. exists w. rewrite Hst'. auto.
  - rewrite Hv, Hst'. destruct R as [R|R]; [left; right; exact R|].
    rewrite Hst in R. destruct R as [E|R]; [left; left; exact E|right; exact R].
Qed.

Lemma add_trace_in : forall s t, In t (traces (add_trace s t)).
Proof.
  intros s t. unfold add_trace. destruct (trace_mem t (traces s)) eqn:H.
  - apply trace_mem_In. exact H.
  - simpl. left. reflexivity.
Qed.

Lemma add_trace_mono : forall s t t', In t' (traces s) -> In t' (traces (add_trace s t)).
Proof.
  intros s t t' H. unfold add_trace. destruct (trace_mem t (traces s)); simpl; auto.
Qed.

Lemma add_trace_fields : forall s t,
  stack (add_trace s t) = stack s /\ visited (add_trace s t) = visited s /\ silent (add_trace s t) = silent s /\
  seen (add_trace s t) = seen s.
Proof. intros s t. unfold add_trace. destruct (trace_mem t (traces s)); simpl; auto. Qed.

Lemma step_invJ : forall s s', err s = None -> invJ s -> step rank g cfg s = (s', None) -> invJ s'.
Proof.
  intros s s' Herr Hinv H.
  destruct (step_shape _ _ _ _ _ _ Herr H) as [[_ [_ Ho]]|[cur [rest [Hst K]]]]; [discriminate|].
  destruct K as [c ? Hs Ho|? Hs Ho|? Hs ?|? Hs ?|cs rep s1 news He K1 K2 K3 K4 K5 K6 K7 Hc]; try discriminate; subst.
  - (* skip *)
    apply (invJ_leaf s cur rest _ Hinv Hst); simpl; auto.
  - (* base *)
    destruct (add_trace_fields (popped s cur rest) (v_path cur)) as [F1 [F2 [F3 F4]]].
    apply (invJ_leaf s cur rest _ Hinv Hst).
    + rewrite F1. reflexivity.
    + rewrite F2. reflexivity.
    + intros t Ht. apply add_trace_mono. exact Ht.
    + intros t Ht. rewrite F3. exact Ht.
    + left. apply add_trace_in.
  - destruct Hc as [[c [_ [_ Ho]]]|[[_ [Hn [_ [Hs _]]]]|[[_ [Hn [_ [Hs _]]]]|[_ [Hn [Hs _]]]]]]; try discriminate; subst.
    + (* nothing pushed, reported *)
      destruct (add_trace_fields s1 (v_path cur)) as [F1 [F2 [F3 F4]]].
      apply (invJ_leaf s cur rest _ Hinv Hst).
      * rewrite F1, K1. reflexivity.
      * rewrite F2, K5. reflexivity.
      * intros t Ht. apply add_trace_mono. rewrite K3. exact Ht.
      * intros t Ht. rewrite F3, K4. exact Ht.
      * left. apply add_trace_in.
    + (* nothing pushed, silent *)
      apply (invJ_leaf s cur rest _ Hinv Hst); simpl.
      * rewrite K1. reflexivity.
      * rewrite K5. reflexivity.
      * rewrite K3. auto.
      * rewrite K4. auto.
      * right. left. reflexivity.
    + (* something pushed *)
      destruct Hinv as [J R].
      destruct news as [|w0 news']; [exfalso; apply Hn; reflexivity|].
      assert (Hw0 : suffix (v_path cur) (v_path w0)).
      { destruct (K6 w0 (or_introl eq_refl)) as [c [_ [E _]]]. subst w0. simpl. apply suffix_cons. }
      split.
      * intros v Hin. rewrite K5 in Hin. rewrite K3, K4, K1. destruct Hin as [E|Hin].
        -- subst v. right. exists w0. split; [left; reflexivity|exact Hw0].
        -- destruct (J v Hin) as [[t [Ht' Hsuf]]|[w [Hw Hsuf]]].
           ++ left. exists t. auto.
           ++ rewrite Hst in Hw. destruct Hw as [E|Hw].
              ** subst w. right. exists w0. split; [left; reflexivity|]. eapply suffix_trans; eauto.
              ** right. exists w. split; auto. apply in_or_app. right. exact Hw.
      * rewrite K5, K1. destruct R as [R|R]; [left; right; exact R|].
        rewrite Hst in R. destruct R as [E|R]; [left; left; exact E|].
        right. apply in_or_app. right. exact R.
Qed.

Lemma loop_done : forall fuel s s',
  err s = None -> invJ s -> loop rank g cfg fuel s = (s', Done) -> invJ s' /\ stack s' = [].
Proof.
  induction fuel as [|f IH]; intros s s' Herr Hinv H; simpl in H; [discriminate|].
  destruct (step rank g cfg s) as [s1 [o1|]] eqn:Hs.
  - inversion H; subst.
    destruct (step_shape _ _ _ _ _ _ Herr Hs) as [[Hst [E _]]|[cur [rest [Hst K]]]].
    + subst. auto.
    + exfalso. destruct K as [c ? ? Ho|? ? Ho|? ? Ho|? ? Ho|cs rep s1' news ? ? ? ? ? ? ? ? Hc]; try discriminate.
      destruct Hc as [[c [_ [_ Ho]]]|[[_ [_ [_ [_ Ho]]]]|[[_ [_ [_ [_ Ho]]]]|[_ [_ [_ Ho]]]]]]; discriminate.
  - eapply IH; [| |exact H].
    + eapply step_err; eauto.
    + eapply step_invJ; eauto.
Qed.

Lemma init_invJ : forall p, invJ (init_state entry p).
Proof.
  intros p. unfold invJ, init_state. simpl. split; [intros v F; destruct F|right; left; reflexivity].
Qed.

(** [back_visited_cover]: when the traversal finishes, every expanded visitor node lies on a recorded trace or on the
    path to a leaf that recorded nothing *)
Lemma back_visited_cover : forall fuel p s,
  back rank g cfg fuel p entry = (s, Done) ->
  In (root entry) (visited s) /\
  forall v, In v (visited s) ->
    exists t, (In t (traces s) \/ In t (silent s)) /\ suffix (v_path v) t.
Proof.
  intros fuel p s H. unfold back in H.
  destruct (loop_done fuel (init_state entry p) s (eq_refl : err (init_state entry p) = None) (init_invJ p) H) as [[J R] Hst]. rewrite Hst in *. split.
  - destruct R as [R|[]]. exact R.
  - intros v Hv. destruct (J v Hv) as [Hl|[w [[] _]]]. exact Hl.
Qed.

(** [leaf_reports]: no leaf of the DFS was silent.  Then every expanded node is on a recorded trace. *)
Lemma back_visited_on_trace : forall fuel p s,
  back rank g cfg fuel p entry = (s, Done) -> silent s = [] ->
  forall v, In v (visited s) -> exists t, In t (traces s) /\ In (v_node v) t.
Proof.
  intros fuel p s H Hsil v Hv.
  destruct (back_visited_cover _ _ _ H) as [_ J].
  destruct (J v Hv) as [t [[Ht|Ht] Hsuf]]; [|rewrite Hsil in Ht; destruct Ht].
  destruct (back_trace_wf _ _ _ _ _ _ _ _ H) as [_ [_ Hp]]. destruct (Hp v Hv) as [tl Hpath].
  exists t. split; auto. rewrite Hpath in Hsuf. eapply suffix_in; eauto.
Qed.

(** ** Ideal reachability and the closure hypothesis *)
Inductive vreach : vnode -> Prop :=
| vr_root : vreach (root entry)
| vr_step : forall v c, vreach v -> In c (ideal_cands g cfg v) -> vreach (next_of v c).

Lemma vreach_path : forall v, vreach v -> exists tl, v_path v = v_node v :: tl.
Proof. intros v H. destruct H; simpl; eexists; reflexivity. Qed.

Lemma opos_eqb_eq : forall a b, opos_eqb a b = true -> a = b.
Proof. intros [a|] [b|] H; simpl in H; try discriminate; auto. apply Pos.eqb_eq in H. subst. reflexivity. Qed.

Lemma pclass_eqb_eq : forall a b, pclass_eqb a b = true -> a = b.
Proof.
  intros [[[[a1 a2] a3] a4]|] [[[[b1 b2] b3] b4]|] H; simpl in H; try discriminate; auto.
  repeat (apply andb_true_iff in H; destruct H as [H ?]).
  apply Bool.eqb_prop in H. apply Bool.eqb_prop in H2. apply Bool.eqb_prop in H1. apply opos_eqb_eq in H0.
  subst. reflexivity.
Qed.

Lemma oclass_eqb_eq : forall a b, oclass_eqb a b = true -> a = b.
Proof.
  intros [a|] [b|] H; simpl in H; try discriminate; auto. apply pclass_eqb_eq in H. subst. reflexivity.
Qed.

(** the expansion reads Prev only through its class *)
Lemma expand_k_class : forall k x prev prev' p,
  get_node g (k_node k) = Some x -> class_of g x prev = class_of g x prev' ->
  expand_k g cfg k prev p = expand_k g cfg k prev' p.
Proof.
  intros k x prev prev' p Hx Hc. unfold expand_k. rewrite Hx. rewrite Hc. reflexivity.
Qed.

Lemma ideal_cands_class : forall v v',
  key_of v = key_of v' -> vclass g v = vclass g v' -> ideal_cands g cfg v = ideal_cands g cfg v'.
Proof.
  intros v v' Hk Hc. unfold ideal_cands. rewrite <- Hk.
  assert (Hn : v_node v = v_node v') by (unfold key_of in Hk; inversion Hk; reflexivity).
  unfold vclass in Hc. rewrite <- Hn in Hc.
  destruct (get_node g (v_node v)) as [x|] eqn:Hx.
  - inversion Hc as [Hc']. rewrite (expand_k_class (key_of v) x (prev_of v) (prev_of v') empty_pei); auto.
  - unfold expand_k. simpl. unfold key_of. simpl. rewrite Hx. reflexivity.
Qed.

Lemma prev_of_next : forall v c tl, v_path v = v_node v :: tl -> prev_of (next_of v c) = Some (v_node v).
Proof. intros v c tl H. unfold prev_of, next_of. simpl. rewrite H. reflexivity. Qed.

(** [back_cover]: every node that is backward reachable along a realizable path (ideal successor relation: the
    traversal's rules with tuple filtering and the seen / depth stops switched off) lies on a recorded trace. *)
Definition back_cover (s : state) : Prop :=
  forall v, vreach v -> exists t, In t (traces s) /\ In (v_node v) t.

Lemma back_cover_closed : forall fuel p s,
  back rank g cfg fuel p entry = (s, Done) -> silent s = [] -> closed_runb g cfg s = true -> back_cover s.
Proof.
  intros fuel p s H Hsil Hcl.
  destruct (back_visited_cover _ _ _ H) as [Hroot _].
  destruct (back_trace_wf _ _ _ _ _ _ _ _ H) as [_ [_ Hpath]].
  assert (Hall : forall v, vreach v ->
            exists v', In v' (visited s) /\ key_of v' = key_of v /\ vclass g v' = vclass g v).
  { intros v Hv. induction Hv as [|v c Hv IH Hc].
    - exists (root entry). auto.
    - destruct IH as [v' [Hin [Hk Hcls]]].
      rewrite <- (ideal_cands_class v' v Hk Hcls) in Hc.
      unfold closed_runb in Hcl. rewrite forallb_forall in Hcl. specialize (Hcl v' Hin).
      rewrite forallb_forall in Hcl. specialize (Hcl c Hc). unfold covered in Hcl.
      apply existsb_exists in Hcl. destruct Hcl as [w [Hw Hsame]].
      unfold same_kc in Hsame. apply andb_true_iff in Hsame. destruct Hsame as [S1 S2].
      apply key_eqb_eq in S1. apply oclass_eqb_eq in S2.
      exists w. split; auto. split.
      + rewrite <- S1. reflexivity.
      + rewrite <- S2. unfold vclass. simpl.
        destruct (Hpath v' Hin) as [tl' Hp']. destruct (vreach_path v Hv) as [tl Hp].
        rewrite (prev_of_next v' c tl' Hp'), (prev_of_next v c tl Hp).
        assert (Hn : v_node v' = v_node v) by (unfold key_of in Hk; inversion Hk; reflexivity).
        rewrite Hn. reflexivity. }
  intros v Hv. destruct (Hall v Hv) as [v' [Hin [Hk _]]].
  destruct (back_visited_on_trace _ _ _ H Hsil v' Hin) as [t [Ht Hnt]].
  exists t. split; auto.
  assert (Hn : v_node v' = v_node v) by (unfold key_of in Hk; inversion Hk; reflexivity).
  rewrite <- Hn. exact Hnt.
Qed.

End CoverRun.
