(** * C16, part 1: [stack_compare] is a strict total order; specifications of [stack_set_union], the sort /
      de-duplication used by [transfer], and [transfer] itself. *)
From Coq Require Import List Arith Bool Sorted Lia.
From Argot Require Import Model.Defers Model.DefersSpec.
Import ListNotations.

(** ** comparison of instruction ids *)
Definition iid_cmp (x y : iid) : comparison :=
  match Nat.compare (fst x) (fst y) with
  | Eq => Nat.compare (snd x) (snd y)
  | r => r
  end.

Lemma sc_cons x a y b :
  stack_compare (x :: a) (y :: b) = match iid_cmp x y with Eq => stack_compare a b | r => r end.
Proof.
  destruct x as [x1 x2], y as [y1 y2]; unfold iid_cmp; simpl.
  destruct (Nat.compare x1 y1), (Nat.compare x2 y2); auto.
Qed.

Lemma iid_cmp_eq x y : iid_cmp x y = Eq <-> x = y.
Proof.
  destruct x as [x1 x2], y as [y1 y2]; unfold iid_cmp; simpl.
  destruct (Nat.compare_spec x1 y1); destruct (Nat.compare_spec x2 y2);
    split; intros E; try discriminate; try (inversion E; lia); subst; auto.
Qed.

Lemma iid_cmp_antisym x y : iid_cmp y x = CompOpp (iid_cmp x y).
Proof.
  destruct x as [x1 x2], y as [y1 y2]; unfold iid_cmp; simpl.
  rewrite (Nat.compare_antisym x1 y1), (Nat.compare_antisym x2 y2).
  destruct (Nat.compare x1 y1); simpl; auto.
Qed.

Lemma iid_cmp_lt_trans x y z : iid_cmp x y = Lt -> iid_cmp y z = Lt -> iid_cmp x z = Lt.
Proof.
  destruct x as [x1 x2], y as [y1 y2], z as [z1 z2]; unfold iid_cmp; simpl.
  intros A B.
  assert (HA : x1 < y1 \/ (x1 = y1 /\ x2 < y2)).
  { destruct (Nat.compare_spec x1 y1); try discriminate; auto.
    right; split; auto. apply Nat.compare_lt_iff; auto. }
  assert (HB : y1 < z1 \/ (y1 = z1 /\ y2 < z2)).
  { destruct (Nat.compare_spec y1 z1); try discriminate; auto.
    right; split; auto. apply Nat.compare_lt_iff; auto. }
  destruct (Nat.compare_spec x1 z1) as [e|e|e]; auto; try lia.
  apply Nat.compare_lt_iff; lia.
Qed.

(** ** [stack_compare] *)
Lemma sc_refl a : stack_compare a a = Eq.
Proof.
  induction a as [|x a IH]; auto. rewrite sc_cons.
  replace (iid_cmp x x) with Eq; auto. symmetry; apply iid_cmp_eq; auto.
Qed.

Lemma sc_eq a b : stack_compare a b = Eq -> a = b.
Proof.
  revert b; induction a as [|[x1 x2] a IH]; intros [|[y1 y2] b]; try (simpl; discriminate); auto.
  generalize (x1, x2) (y1, y2); intros x y. rewrite sc_cons.
  destruct (iid_cmp x y) eqn:E; try discriminate.
  apply iid_cmp_eq in E; subst. intros H; f_equal; auto.
Qed.

Lemma sc_eq_iff a b : stack_compare a b = Eq <-> a = b.
Proof. split; [apply sc_eq | intros ->; apply sc_refl]. Qed.

Lemma sc_antisym a b : stack_compare b a = CompOpp (stack_compare a b).
Proof.
  revert b; induction a as [|[x1 x2] a IH]; intros [|[y1 y2] b]; auto.
  generalize (x1, x2) (y1, y2); intros x y.
  rewrite !sc_cons, (iid_cmp_antisym x y). destruct (iid_cmp x y); simpl; auto.
Qed.

Lemma sc_lt_trans a b c : slt a b -> slt b c -> slt a c.
Proof.
  unfold slt. revert b c; induction a as [|[x1 x2] a IH]; intros [|[y1 y2] b] [|[z1 z2] c]; try (simpl; congruence).
  - generalize (x1, x2) (y1, y2) (z1, z2); intros x y z. rewrite !sc_cons.
    destruct (iid_cmp x y) eqn:E1; try discriminate; destruct (iid_cmp y z) eqn:E2; try discriminate.
    + apply iid_cmp_eq in E1, E2; subst. replace (iid_cmp z z) with Eq by (symmetry; apply iid_cmp_eq; auto).
      apply IH.
    + apply iid_cmp_eq in E1; subst. rewrite E2; auto.
    + apply iid_cmp_eq in E2; subst. rewrite E1; auto.
    + rewrite (iid_cmp_lt_trans _ _ _ E1 E2); auto.
Qed.

Lemma sc_irrefl a : ~ slt a a.
Proof. unfold slt; rewrite sc_refl; discriminate. Qed.

Lemma sc_gt_lt a b : stack_compare a b = Gt <-> slt b a.
Proof. unfold slt; rewrite (sc_antisym a b). destruct (stack_compare a b); simpl; split; congruence. Qed.

Lemma sc_trichotomy a b : slt a b \/ a = b \/ slt b a.
Proof.
  destruct (stack_compare a b) eqn:E.
  - right; left; apply sc_eq; auto.
  - left; auto.
  - right; right; apply sc_gt_lt; auto.
Qed.

Definition sc_dec a b : {slt a b} + {a = b} + {slt b a}.
Proof.
  destruct (stack_compare a b) eqn:E.
  - left; right; apply sc_eq; auto.
  - left; left; auto.
  - right; apply sc_gt_lt; auto.
Defined.

Lemma slt_asym a b : slt a b -> ~ slt b a.
Proof. intros H1 H2. exact (sc_irrefl _ (sc_lt_trans _ _ _ H1 H2)). Qed.

Lemma sle_iff a b : sle a b <-> slt a b \/ a = b.
Proof.
  unfold sle, slt. split.
  - destruct (stack_compare a b) eqn:E; try congruence; auto. right; apply sc_eq; auto.
  - intros [H| ->]; [congruence | rewrite sc_refl; discriminate].
Qed.

Lemma slt_sle_trans a b c : slt a b -> sle b c -> slt a c.
Proof. intros H1 H2. apply sle_iff in H2 as [H2| ->]; auto. eapply sc_lt_trans; eauto. Qed.

Lemma sle_trans a b c : sle a b -> sle b c -> sle a c.
Proof.
  intros H1 H2. apply sle_iff in H1 as [H1| ->]; auto.
  apply sle_iff; left. eapply slt_sle_trans; eauto.
Qed.

Lemma not_gt_sle a b : stack_compare a b <> Gt -> sle a b.
Proof. auto. Qed.

Lemma gt_sle a b : stack_compare a b = Gt -> sle b a.
Proof. intros H. apply sle_iff; left; apply sc_gt_lt; auto. Qed.

(** ** sorted sets *)
Lemma sorted_nil : sorted [].
Proof. constructor. Qed.

Lemma sorted_cons_iff x l : sorted (x :: l) <-> sorted l /\ (forall y, In y l -> slt x y).
Proof.
  unfold sorted; split.
  - intros H; inversion H; subst; split; auto. apply Forall_forall; auto.
  - intros [H1 H2]; constructor; auto. apply Forall_forall; auto.
Qed.

Lemma sorted_single x : sorted [x].
Proof. apply sorted_cons_iff; split; [constructor | intros y []]. Qed.

Lemma sorted_NoDup l : sorted l -> NoDup l.
Proof.
  induction l as [|x l IH]; intros H; [constructor|].
  apply sorted_cons_iff in H as [H1 H2]. constructor; auto.
  intros Hin. exact (sc_irrefl _ (H2 _ Hin)).
Qed.

Lemma sorted_iff_Sorted l : sorted l <-> Sorted slt l.
Proof.
  split; [apply StronglySorted_Sorted|].
  apply Sorted_StronglySorted. intros a b c; apply sc_lt_trans.
Qed.

(** two sorted sets with the same members are the same list *)
Lemma sorted_ext l1 l2 : sorted l1 -> sorted l2 -> (forall s, In s l1 <-> In s l2) -> l1 = l2.
Proof.
  revert l2; induction l1 as [|x l1 IH]; intros [|y l2] H1 H2 H; auto.
  - exfalso; apply (H y); left; auto.
  - exfalso; apply (H x); left; auto.
  - apply sorted_cons_iff in H1 as [S1 B1]; apply sorted_cons_iff in H2 as [S2 B2].
    assert (x = y).
    { destruct (proj1 (H x) (or_introl eq_refl)) as [->|Hx]; auto.
      destruct (proj2 (H y) (or_introl eq_refl)) as [->|Hy]; auto.
      exfalso; exact (slt_asym _ _ (B1 _ Hy) (B2 _ Hx)). }
    subst y; f_equal. apply IH; auto. intros s; split; intros Hs.
    + destruct (proj1 (H s) (or_intror Hs)) as [->|]; auto. exfalso; exact (sc_irrefl _ (B1 _ Hs)).
    + destruct (proj2 (H s) (or_intror Hs)) as [->|]; auto. exfalso; exact (sc_irrefl _ (B2 _ Hs)).
Qed.

(** ** [stack_set_union] *)
Lemma union_nil_l b : stack_set_union [] b = match b with [] => ([], true) | _ => (b, false) end.
Proof. destruct b; reflexivity. Qed.

Lemma union_nil_r a : stack_set_union a [] = (a, true).
Proof. destruct a; reflexivity. Qed.

Lemma union_cons x a y b :
  stack_set_union (x :: a) (y :: b) =
  match stack_compare x y with
  | Lt => let (r, s) := stack_set_union a (y :: b) in (x :: r, s)
  | Gt => let (r, _) := stack_set_union (x :: a) b in (y :: r, false)
  | Eq => let (r, s) := stack_set_union a b in (x :: r, s)
  end.
Proof. reflexivity. Qed.

(** the flag means "nothing was added": the result is literally [a] *)
Lemma union_same_eq a b r : stack_set_union a b = (r, true) -> r = a.
Proof.
  revert b r; induction a as [|x a IHa]; intros b.
  - intros r; rewrite union_nil_l; destruct b; intros H; inversion H; auto.
  - induction b as [|y b IHb]; intros r.
    + rewrite union_nil_r; intros H; inversion H; auto.
    + rewrite union_cons. destruct (stack_compare x y).
      * destruct (stack_set_union a b) as [r' s'] eqn:E. intros H; inversion H; subst. f_equal; eapply IHa; eauto.
      * destruct (stack_set_union a (y :: b)) as [r' s'] eqn:E. intros H; inversion H; subst. f_equal; eapply IHa; eauto.
      * destruct (stack_set_union (x :: a) b) as [r' s']. intros H; inversion H.
Qed.

Lemma union_spec a b r same :
  sorted a -> sorted b -> stack_set_union a b = (r, same) ->
  sorted r /\ (forall s, In s r <-> In s a \/ In s b) /\ (same = true <-> incl b a).
Proof.
  revert b r same; induction a as [|x a IHa]; intros b.
  - intros r same _ Hb; rewrite union_nil_l; destruct b as [|y b]; intros H; inversion H; subst.
    + split; [constructor | split; [intros s; simpl; tauto | split; [intros _ z [] | auto]]].
    + split; [auto | split; [intros s; simpl; tauto | split; [discriminate | intros Hi; destruct (Hi y); left; auto]]].
  - induction b as [|y b IHb]; intros r same Ha Hb.
    + rewrite union_nil_r; intros H; inversion H; subst.
      split; [auto | split; [intros s; simpl; tauto | split; [intros _ z [] | auto]]].
    + rewrite union_cons.
      pose proof Ha as Ha0; pose proof Hb as Hb0.
      apply sorted_cons_iff in Ha as [Sa Ba]; apply sorted_cons_iff in Hb as [Sb Bb].
      destruct (stack_compare x y) eqn:E.
      * (* equal heads *)
        apply sc_eq in E; subst y.
        destruct (stack_set_union a b) as [r' s'] eqn:U. intros H; inversion H; subst; clear H.
        destruct (IHa _ _ _ Sa Sb U) as (Sr & Mr & Fr). split; [|split].
        -- apply sorted_cons_iff; split; auto. intros z Hz; apply Mr in Hz as [Hz|Hz]; auto.
        -- intros s; simpl; rewrite Mr; tauto.
        -- rewrite Fr; split; intros Hi z Hz.
           ++ destruct Hz as [->|Hz]; [left; auto | right; auto].
           ++ destruct (Hi z (or_intror Hz)) as [->|]; auto. exfalso; exact (sc_irrefl _ (Bb _ Hz)).
      * (* x < y *)
        destruct (stack_set_union a (y :: b)) as [r' s'] eqn:U. intros H; inversion H; subst; clear H.
        destruct (IHa _ _ _ Sa Hb0 U) as (Sr & Mr & Fr). split; [|split].
        -- apply sorted_cons_iff; split; auto. intros z Hz; apply Mr in Hz as [Hz|[<-|Hz]]; auto.
           eapply sc_lt_trans; eauto.
        -- intros s; simpl; rewrite Mr; simpl; tauto.
        -- rewrite Fr; split; intros Hi z Hz.
           ++ right; auto.
           ++ destruct (Hi z Hz) as [<-|]; auto. exfalso. destruct Hz as [<-|Hz].
              ** exact (sc_irrefl _ E).
              ** exact (slt_asym _ _ E (Bb _ Hz)).
      * (* y < x *)
        apply sc_gt_lt in E.
        destruct (stack_set_union (x :: a) b) as [r' s'] eqn:U. intros H; inversion H; subst; clear H.
        destruct (IHb _ _ Ha0 Sb eq_refl) as (Sr & Mr & Fr). split; [|split].
        -- apply sorted_cons_iff; split; auto. intros z Hz; apply Mr in Hz as [[<-|Hz]|Hz]; auto.
           eapply sc_lt_trans; eauto.
        -- intros s; simpl; rewrite Mr; simpl; tauto.
        -- split; [discriminate|]. intros Hi; exfalso.
           destruct (Hi y (or_introl eq_refl)) as [<-|Hy].
           ++ exact (sc_irrefl _ E).
           ++ exact (slt_asym _ _ E (Ba _ Hy)).
Qed.

(** ** insertion sort and adjacent de-duplication *)
Definition wsorted (l : list stack) : Prop := StronglySorted sle l.

Lemma wsorted_cons_iff x l : wsorted (x :: l) <-> wsorted l /\ (forall y, In y l -> sle x y).
Proof.
  unfold wsorted; split.
  - intros H; inversion H; subst; split; auto. apply Forall_forall; auto.
  - intros [H1 H2]; constructor; auto. apply Forall_forall; auto.
Qed.

Lemma sinsert_In x l s : In s (sinsert x l) <-> s = x \/ In s l.
Proof.
  induction l as [|y l IH]; simpl.
  - intuition.
  - destruct (stack_compare x y); simpl; try rewrite IH; intuition.
Qed.

Lemma sinsert_wsorted x l : wsorted l -> wsorted (sinsert x l).
Proof.
  induction l as [|y l IH]; simpl; intros H.
  - apply wsorted_cons_iff; split; [constructor | intros ? []].
  - pose proof H as H0. apply wsorted_cons_iff in H as [Sl Bl].
    assert (Hle : stack_compare x y <> Gt -> wsorted (x :: y :: l)).
    { intros Hc. apply wsorted_cons_iff; split; auto.
      intros z [<-|Hz]; auto. eapply sle_trans; [exact Hc | auto]. }
    destruct (stack_compare x y) eqn:E; try (apply Hle; congruence).
    apply wsorted_cons_iff; split; auto.
    intros z Hz; apply sinsert_In in Hz as [->|Hz]; auto. apply gt_sle; auto.
Qed.

Lemma ssort_In l s : In s (ssort l) <-> In s l.
Proof.
  induction l as [|x l IH]; simpl; [tauto|]. rewrite sinsert_In, IH; intuition.
Qed.

Lemma ssort_wsorted l : wsorted (ssort l).
Proof. induction l as [|x l IH]; simpl; [constructor | apply sinsert_wsorted; auto]. Qed.

Lemma sdedup_cons2 x y l :
  sdedup (x :: y :: l) = match stack_compare x y with Eq => sdedup (y :: l) | _ => x :: sdedup (y :: l) end.
Proof. reflexivity. Qed.

Lemma sdedup_spec l : wsorted l -> sorted (sdedup l) /\ forall s, In s (sdedup l) <-> In s l.
Proof.
  induction l as [|x l IH]; intros H.
  - simpl; split; [constructor | tauto].
  - apply wsorted_cons_iff in H as [Sl Bl]. destruct (IH Sl) as [IS IM].
    destruct l as [|y l].
    + simpl; split; [apply sorted_single | tauto].
    + rewrite sdedup_cons2.
      assert (Hne : stack_compare x y <> Eq ->
                    sorted (x :: sdedup (y :: l)) /\ forall s, In s (x :: sdedup (y :: l)) <-> In s (x :: y :: l)).
      { intros Hc. split.
        - apply sorted_cons_iff; split; auto. intros z Hz. apply IM in Hz.
          assert (slt x y).
          { pose proof (Bl y (or_introl eq_refl)) as L. apply sle_iff in L as [L|L]; auto.
            subst; rewrite sc_refl in Hc; congruence. }
          destruct Hz as [<-|Hz]; auto.
          eapply slt_sle_trans; eauto.
          apply wsorted_cons_iff in Sl as [_ B]; auto.
        - intros s; simpl; simpl in IM; rewrite IM; tauto. }
      destruct (stack_compare x y) eqn:E; try (apply Hne; congruence).
      apply sc_eq in E; subst y. split; auto.
      intros s; rewrite IM; simpl; tauto.
Qed.

Lemma sort_dedup_spec l :
  sorted (sdedup (ssort l)) /\ forall s, In s (sdedup (ssort l)) <-> In s l.
Proof.
  destruct (sdedup_spec (ssort l) (ssort_wsorted l)) as [H1 H2]; split; auto.
  intros s; rewrite H2; apply ssort_In.
Qed.

(** ** [transfer] *)
Lemma iid_eqb_eq x y : iid_eqb x y = true <-> x = y.
Proof.
  destruct x as [x1 x2], y as [y1 y2]; unfold iid_eqb; simpl.
  rewrite andb_true_iff, !Nat.eqb_eq. split; [intros [-> ->]; auto | intros H; inversion H; auto].
Qed.

Lemma stack_mem_In d s : stack_mem d s = true <-> In d s.
Proof.
  unfold stack_mem; rewrite existsb_exists; split.
  - intros (x & Hx & E); apply iid_eqb_eq in E; subst; auto.
  - intros H; exists d; split; auto; apply iid_eqb_eq; auto.
Qed.

Lemma push_defer_in d s : In d s -> push_defer d s = s.
Proof. intros H; unfold push_defer. apply stack_mem_In in H; rewrite H; auto. Qed.

Lemma push_defer_notin d s : ~ In d s -> push_defer d s = s ++ [d].
Proof.
  intros H; unfold push_defer. destruct (stack_mem d s) eqn:E; auto.
  apply stack_mem_In in E; tauto.
Qed.

Lemma transfer_defer_spec d v r rep :
  transfer d KDefer v = (r, rep) ->
  sorted r /\ (forall s', In s' r <-> exists s, In s v /\ s' = push_defer d s)
  /\ (rep = true <-> exists s, In s v /\ In d s).
Proof.
  unfold transfer; intros H; inversion H; subst; clear H.
  destruct (sort_dedup_spec (map (push_defer d) v)) as [S M]; split; [|split]; auto.
  - intros s'; rewrite M, in_map_iff; split; intros (s & A & B); exists s; auto.
  - rewrite existsb_exists; split; intros (s & A & B); exists s; split; auto; apply stack_mem_In; auto.
Qed.
